// srace cases: registration of streams CONCURRENT with the release of their session.
//
// The REAL p2p.StreamManager (level manager) or the REAL p2p.Libp2pCommunication on top of it (level
// comm: Broadcast -> sendMessage -> Stream / NewStream / AddStream, CloseSession -> ReleaseStreams)
// is driven with streams whose Close() can be parked by the harness.  Script: a session has N0
// streams; ReleaseStreams / CloseSession of that session is started and parked INSIDE the first
// Close() it calls (a slow peer); while it is parked further operations are issued one after the
// other, each in its own goroutine (a late sender of the session registers a stream for a new peer,
// another session registers / looks up a stream, ...) and watched until they have returned or are
// blocked inside the stream manager; then the Close is let go, everything returns, a few more
// operations follow sequentially, and at the end every session is released once more (the "later
// CloseSession").  Observed: for every stream ever handed to the manager how often it was closed by
// then, and what the registry still holds.
//
// Nothing depends on timing: an operation that is made to wait by the implementation (the unchanged
// code holds its lock while closing) simply completes after the release - whichever way the
// implementation orders the operations, in the end every stream must have been closed.
package main

import (
	"fmt"
	"strings"
	"sync"
	"sync/atomic"
	"time"

	"github.com/ChainSafe/sygma-relayer/comm"
	"github.com/ChainSafe/sygma-relayer/comm/p2p"
	"github.com/libp2p/go-libp2p/core/network"
	"github.com/libp2p/go-libp2p/core/peer"

	"verifharness/tssfakes"
	"verifharness/vgen"
)

type SROp struct {
	Op string `json:"op"` // add (comm level: send) | get | release
	S  int    `json:"s"`
	P  int    `json:"p,omitempty"`
}

type SRaceObs struct {
	// a sequential order of all operations (the final releases included) that is consistent with what
	// was seen; streams numbered in the order they were handed to the manager / handed out by the host
	Lin []StreamOp `json:"lin"`
	// Close calls per stream, at the very end
	Closed []int `json:"closed"`
	// level manager: the registry at the very end (every lookup over sessions x peers)
	Left [][]*int `json:"left,omitempty"`
	// the release reached a Close and was parked there
	Parked bool `json:"parked"`
	// per operation issued during the parked release: it was blocked until the release ended
	Blocked []bool `json:"blocked,omitempty"`
	Note    string `json:"note,omitempty"`
}

const srS, srP = 2, 8 // sessions 0..1, peers 0..7 (peer 0 is this relayer at level comm)

// closeGate parks the first Close that reaches it after it was armed.
type closeGate struct {
	mu      sync.Mutex
	armed   bool
	entered chan struct{}
	release chan struct{}
	opened  bool
}

func (g *closeGate) arm() {
	g.mu.Lock()
	g.armed, g.opened, g.entered, g.release = true, false, make(chan struct{}), make(chan struct{})
	g.mu.Unlock()
}

// open lets a parked Close go on and disarms the gate.
func (g *closeGate) open() {
	g.mu.Lock()
	defer g.mu.Unlock()
	g.armed = false
	if g.release != nil && !g.opened {
		g.opened = true
		close(g.release)
	}
}

func (g *closeGate) pass() {
	g.mu.Lock()
	if !g.armed {
		g.mu.Unlock()
		return
	}
	g.armed = false
	entered, release := g.entered, g.release
	g.mu.Unlock()
	close(entered)
	select {
	case <-release:
	case <-time.After(gateMax):
	}
}

// parkStream: an outgoing stream; Close goes through the gate and is counted when it completes.
type parkStream struct {
	network.Stream
	num    int
	gate   *closeGate
	closes atomic.Int64
	writes atomic.Int64
}

func (s *parkStream) Close() error {
	s.gate.pass()
	s.closes.Add(1)
	return nil
}
func (s *parkStream) Reset() error                { s.closes.Add(1); return nil }
func (s *parkStream) Write(p []byte) (int, error) { s.writes.Add(1); return len(p), nil }

// blockedInManager counts the goroutines that are blocked (mutex, rw-mutex, semaphore, channel,
// condition variable ...) on a synchronisation primitive called directly from the stream manager /
// the communication layer of package comm/p2p.
func blockedInManager() int {
	cnt := 0
	for _, g := range strings.Split(allStacks(), "\n\n") {
		lines := strings.Split(g, "\n")
		if len(lines) < 2 {
			continue
		}
		hdr := lines[0]
		i, j := strings.Index(hdr, "["), strings.LastIndex(hdr, "]")
		if i < 0 || j < i {
			continue
		}
		state := hdr[i+1 : j]
		if k := strings.Index(state, ","); k >= 0 {
			state = state[:k]
		}
		switch state {
		case "running", "runnable", "syscall":
			continue
		}
		for k := 1; k < len(lines); k += 2 {
			fn := lines[k]
			if strings.HasPrefix(fn, "runtime.") || strings.HasPrefix(fn, "sync.") || strings.HasPrefix(fn, "sync/") ||
				strings.HasPrefix(fn, "internal/") || strings.HasPrefix(fn, "time.") || strings.HasPrefix(fn, "context.") {
				continue
			}
			if strings.Contains(fn, "sygma-relayer/comm/p2p.") {
				cnt++
			}
			break
		}
	}
	return cnt
}

// sraceOp is the body of the goroutines that run one operation (named for stack dumps).
//
//go:noinline
func sraceOp(f func(), done chan<- struct{}) {
	f()
	close(done)
}

func runSRace(c Case) Obs {
	gate := &closeGate{}
	var mu sync.Mutex
	var streams []*parkStream
	newStream := func() *parkStream {
		mu.Lock()
		defer mu.Unlock()
		s := &parkStream{num: len(streams), gate: gate}
		streams = append(streams, s)
		return s
	}
	sidOf := func(s int) string { return fmt.Sprintf("srace%d", s) }
	so := &SRaceObs{}
	srpeers := tssfakes.PeerIDs(srP)

	// one operation in flight: x = the stream the implementation was given / took for it (-1: none)
	type pend struct {
		op   SROp
		done chan struct{}
		x    atomic.Int64
	}
	var inflight sync.Map // level comm: peer id -> *pend of the send to that peer that is in flight

	// the operations on the implementation under test
	var add func(p *pend)
	var get func(s, p int)
	var release func(s int)
	var lookup func(s, p int) *int
	switch c.Level {
	case "comm":
		h := tssfakes.NewFakeHost(srpeers[0], srpeers)
		h.NewStreamFn = func(q peer.ID) (network.Stream, error) {
			st := newStream()
			if v, ok := inflight.Load(q); ok {
				v.(*pend).x.Store(int64(st.num))
			}
			return st, nil
		}
		cm := p2p.NewCommunication(h, "/sygma/verif/c09srace")
		add = func(p *pend) {
			q := srpeers[p.op.P]
			inflight.Store(q, p)
			_ = cm.Broadcast(peer.IDSlice{q}, []byte("message"), comm.TssKeyGenMsg, sidOf(p.op.S))
			inflight.CompareAndDelete(q, p)
		}
		get = func(s, p int) {}
		release = func(s int) { cm.CloseSession(sidOf(s)) }
	default:
		sm := p2p.NewStreamManager()
		add = func(p *pend) {
			st := newStream()
			p.x.Store(int64(st.num))
			sm.AddStream(sidOf(p.op.S), srpeers[p.op.P], st)
		}
		get = func(s, p int) { _, _ = sm.Stream(sidOf(s), srpeers[p]) }
		release = func(s int) { sm.ReleaseStreams(sidOf(s)) }
		lookup = func(s, p int) *int {
			st, err := sm.Stream(sidOf(s), srpeers[p])
			if err != nil {
				return nil
			}
			k := -1
			if ps, ok := st.(*parkStream); ok {
				k = ps.num
			}
			return &k
		}
	}
	start := func(op SROp) *pend {
		p := &pend{op: op, done: make(chan struct{})}
		p.x.Store(-1)
		go sraceOp(func() {
			switch op.Op {
			case "add":
				add(p)
			case "get":
				get(op.S, op.P)
			case "release":
				release(op.S)
			}
		}, p.done)
		return p
	}
	isDone := func(p *pend) bool {
		select {
		case <-p.done:
			return true
		default:
			return false
		}
	}
	// list: an add for which the implementation took a new stream is the registration of that stream,
	// any other add / get is a lookup
	list := func(p *pend) {
		switch p.op.Op {
		case "add":
			if x := int(p.x.Load()); x >= 0 {
				so.Lin = append(so.Lin, StreamOp{Op: "add", S: p.op.S, P: p.op.P, X: x})
			} else {
				so.Lin = append(so.Lin, StreamOp{Op: "get", S: p.op.S, P: p.op.P})
			}
		case "get":
			so.Lin = append(so.Lin, StreamOp{Op: "get", S: p.op.S, P: p.op.P})
		case "release":
			so.Lin = append(so.Lin, StreamOp{Op: "release", S: p.op.S})
		}
	}
	fail := func(what string) Obs {
		gate.open()
		so.Note += what
		return Obs{SR: so, Note: so.Note}
	}
	// seq runs one operation to its end
	seq := func(op SROp) bool {
		p := start(op)
		if !waitFor(func() bool { return isDone(p) }) {
			return false
		}
		list(p)
		return true
	}

	// ---- the session gets its streams ----
	for p := 1; p <= c.N0; p++ {
		if !seq(SROp{Op: "add", S: 0, P: p}) {
			return fail("an operation did not return; ")
		}
	}
	if c.Other {
		if !seq(SROp{Op: "add", S: 1, P: 1}) {
			return fail("an operation did not return; ")
		}
	}
	// ---- its release, parked inside the first Close it calls ----
	gate.arm()
	rel := start(SROp{Op: "release", S: 0})
	waitFor(func() bool {
		select {
		case <-gate.entered:
			so.Parked = true
			return true
		default:
		}
		return isDone(rel)
	})
	list(rel)
	// ---- operations while it is parked: each one watched until it has returned or is blocked inside
	// the stream manager (bounded: an implementation that makes it wait in a way the harness does not
	// recognise just has it complete after the release) ----
	var during []*pend
	for _, op := range c.During {
		base := blockedInManager()
		p := start(op)
		tssfakes.WaitFor(2*time.Second, func() bool {
			if isDone(p) {
				return true
			}
			if blockedInManager() > base {
				time.Sleep(time.Millisecond)
				return isDone(p) || blockedInManager() > base
			}
			return false
		})
		so.Blocked = append(so.Blocked, !isDone(p))
		during = append(during, p)
	}
	// ---- the Close is let go ----
	gate.open()
	if !waitFor(func() bool {
		if !isDone(rel) {
			return false
		}
		for _, p := range during {
			if !isDone(p) {
				return false
			}
		}
		return true
	}) {
		return fail("the release / an operation issued during it did not return; ")
	}
	for _, p := range during {
		list(p)
	}
	// ---- afterwards, sequentially; then the later CloseSession of every session ----
	for _, op := range c.After {
		if !seq(op) {
			return fail("an operation did not return; ")
		}
	}
	for s := 0; s < srS; s++ {
		if !seq(SROp{Op: "release", S: s}) {
			return fail("a final release did not return; ")
		}
	}
	mu.Lock()
	for _, s := range streams {
		so.Closed = append(so.Closed, int(s.closes.Load()))
	}
	mu.Unlock()
	if lookup != nil {
		for s := 0; s < srS; s++ {
			row := make([]*int, srP)
			for p := 0; p < srP; p++ {
				row[p] = lookup(s, p)
			}
			so.Left = append(so.Left, row)
		}
	}
	return Obs{SR: so, Note: so.Note}
}

func genSRace(r *vgen.Rng, tier string) []Case {
	var out []Case
	reps := 1
	if tier == "thorough" {
		reps = 12
	}
	for rep := 0; rep < reps; rep++ {
		for _, level := range []string{"manager", "comm"} {
			for n0 := 1; n0 <= 3; n0++ {
				for _, other := range []bool{false, true} {
					// the late sender of the session: a stream for a peer the session had none for
					shapes := [][]SROp{
						{{Op: "add", S: 0, P: n0 + 1}},
						{{Op: "add", S: 0, P: n0 + 1}, {Op: "add", S: 0, P: n0 + 2}},
						{{Op: "get", S: 0, P: 1}, {Op: "add", S: 0, P: n0 + 1}},
					}
					if other {
						shapes = append(shapes,
							// (operations that are in flight together address different peers: at level comm
							// the host is asked for a stream per peer, that is how the streams are told apart)
							[]SROp{{Op: "add", S: 1, P: 6}, {Op: "add", S: 0, P: n0 + 1}},
							[]SROp{{Op: "get", S: 1, P: 1}, {Op: "add", S: 0, P: n0 + 1}, {Op: "add", S: 1, P: 7}})
					}
					for _, d := range shapes {
						var after []SROp
						switch r.Intn(3) {
						case 1:
							after = []SROp{{Op: "get", S: 0, P: n0 + 1}}
						case 2:
							// the session id is started again: a fresh stream for one of its old peers
							after = []SROp{{Op: "add", S: 0, P: 1}, {Op: "get", S: 0, P: n0 + 1}}
						}
						out = append(out, Case{Kind: "srace", Level: level, N0: n0, Other: other, During: d, After: after})
					}
				}
			}
		}
	}
	return out
}
