// comm cases: the REAL p2p.Libp2pCommunication (Broadcast -> sendMessage -> StreamManager,
// CloseSession) over a fake host whose NewStream hands out mock streams; everything is observed
// from outside, at the streams: where a message was written, what was closed.
package main

import (
	"errors"
	"fmt"
	"sort"
	"sync"

	"github.com/ChainSafe/sygma-relayer/comm"
	"github.com/ChainSafe/sygma-relayer/comm/p2p"
	"github.com/libp2p/go-libp2p/core/network"
	"github.com/libp2p/go-libp2p/core/peer"

	"verifharness/tssfakes"
)

type CommOp struct {
	Op string `json:"op"` // send | close
	S  int    `json:"s"`
	P  int    `json:"p,omitempty"` // send: the peer (1..nCP-1; 0 is this relayer)
}

type CObs struct {
	Wrote  *int  `json:"wrote,omitempty"`
	Closed []int `json:"closed,omitempty"`
	IsSend bool  `json:"is_send,omitempty"`
	Err    bool  `json:"err,omitempty"`
}

const nCP = 4

var cpeers = tssfakes.PeerIDs(nCP)

const noStream = 999999

func runComm(c Case) Obs {
	h := tssfakes.NewFakeHost(cpeers[0], cpeers)
	var mu sync.Mutex
	var streams []*tssfakes.MockStream
	var peerOf []int
	h.NewStreamFn = func(p peer.ID) (network.Stream, error) {
		mu.Lock()
		defer mu.Unlock()
		x := len(streams)
		st := &tssfakes.MockStream{Name: fmt.Sprint(x)}
		if x < len(c.Fails) && c.Fails[x] {
			st.CloseErr = errors.New("stream reset")
		}
		streams = append(streams, st)
		pi := -1
		for i, q := range cpeers {
			if q == p {
				pi = i
			}
		}
		peerOf = append(peerOf, pi)
		return st, nil
	}
	cm := p2p.NewCommunication(h, "/sygma/verif/c09")
	sidOf := func(s int) string { return fmt.Sprintf("commsession%d", s) }
	counters := func() (w, cl []int) {
		mu.Lock()
		defer mu.Unlock()
		for _, st := range streams {
			w = append(w, st.Writes())
			cl = append(cl, st.Closes())
		}
		return
	}
	at := func(v []int, i int) int {
		if i < len(v) {
			return v[i]
		}
		return 0
	}
	var o Obs
	for _, op := range c.COps {
		wb, cb := counters()
		done := make(chan error, 1)
		switch op.Op {
		case "send":
			go func() {
				done <- cm.Broadcast(peer.IDSlice{cpeers[op.P]}, []byte("message"), comm.TssKeyGenMsg, sidOf(op.S))
			}()
		case "close":
			go func() { cm.CloseSession(sidOf(op.S)); done <- nil }()
		default:
			panic("comm op " + op.Op)
		}
		err, back := recvErr(done)
		if !back {
			o.Note = "Broadcast / CloseSession did not return"
			return o
		}
		wa, ca := counters()
		switch op.Op {
		case "send":
			x := noStream
			n := 0
			for i := range wa {
				if wa[i] > at(wb, i) {
					x = i
					n++
				}
			}
			if n != 1 {
				x = noStream
			}
			o.CObs = append(o.CObs, CObs{IsSend: true, Wrote: &x, Err: err != nil})
		case "close":
			closed := []int{}
			for i := range ca {
				for k := at(cb, i); k < ca[i]; k++ {
					closed = append(closed, i)
				}
			}
			mu.Lock()
			sort.SliceStable(closed, func(a, b int) bool {
				if peerOf[closed[a]] != peerOf[closed[b]] {
					return peerOf[closed[a]] < peerOf[closed[b]]
				}
				return closed[a] < closed[b]
			})
			mu.Unlock()
			o.CObs = append(o.CObs, CObs{Closed: closed})
		}
	}
	return o
}
