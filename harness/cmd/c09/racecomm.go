// racecomm: concurrent sessions on the REAL communication layer, in the child process that is built
// with Go's race detector.  Workers goroutines run whole session lifetimes - subscribe to several
// message types, broadcast, take delivery of incoming messages through ProcessMessagesFromStream,
// unsubscribe, CloseSession - on distinct session ids plus one id they all share, all on ONE
// p2p.Libp2pCommunication value that is handed around BY VALUE, as the tss code does (the
// Communication interface holds the struct, every method has a value receiver).  A second stage
// runs the REAL Coordinator.Execute over that communication layer (a peer's "ready" arrives through
// ProcessMessagesFromStream).  Observed: data race reports / "fatal error: concurrent map ..." of
// the runtime, subscriptions left in the table, streams handed out by the host and never closed.
package main

import (
	"context"
	"encoding/json"
	"fmt"
	"os"
	"os/exec"
	"path/filepath"
	"strings"
	"sync"
	"sync/atomic"
	"time"

	"github.com/ChainSafe/sygma-relayer/comm"
	"github.com/ChainSafe/sygma-relayer/comm/elector"
	"github.com/ChainSafe/sygma-relayer/comm/p2p"
	"github.com/ChainSafe/sygma-relayer/config/relayer"
	"github.com/ChainSafe/sygma-relayer/tss"
	"github.com/libp2p/go-libp2p/core/network"
	"github.com/libp2p/go-libp2p/core/peer"

	"verifharness/p2pfakes"
	"verifharness/tssfakes"
)

type RaceCommObs struct {
	Reports    int  `json:"reports"`
	Leftover   int  `json:"leftover"`
	Unreleased int  `json:"unreleased"`
	Sessions   int  `json:"sessions"`
	Ran        bool `json:"ran"`
}

var rcTypes = []comm.MessageType{comm.TssFailMsg, comm.TssInitiateMsg, comm.TssStartMsg, comm.TssReadyMsg}

// streamLog: the fake host's record of the streams it handed out.
type streamLog struct {
	mu sync.Mutex
	st []*tssfakes.MockStream
}

func (l *streamLog) open(peer.ID) (network.Stream, error) {
	st := &tssfakes.MockStream{}
	l.mu.Lock()
	l.st = append(l.st, st)
	l.mu.Unlock()
	return st, nil
}

func (l *streamLog) unreleased() int {
	l.mu.Lock()
	defer l.mu.Unlock()
	n := 0
	for _, st := range l.st {
		if st.Closes() == 0 {
			n++
		}
	}
	return n
}

func wireLine(mt comm.MessageType, sid string) []byte {
	b, err := json.Marshal(comm.WrappedMessage{MessageType: mt, SessionID: sid, Payload: []byte{}, From: cpeers[1]})
	if err != nil {
		panic(err)
	}
	return append(b, '\n')
}

// commStorm: stage 1, the communication layer on its own.
func commStorm(workers, rounds int) (sessions, leftover, unreleased int) {
	h := tssfakes.NewFakeHost(cpeers[0], cpeers)
	log := &streamLog{}
	h.NewStreamFn = log.open
	cv := p2p.NewCommunication(h, "/sygma/verif/c09rc")
	var ci comm.Communication = cv // the copy the tss code would hold
	const shared = "rc-shared"
	var left, ran atomic.Int64
	var wg sync.WaitGroup
	for g := 0; g < workers; g++ {
		wg.Add(1)
		go func(g int) {
			defer wg.Done()
			for i := 0; i < rounds; i++ {
				c := cv // this lifetime's own copy of the struct
				own := fmt.Sprintf("rc-%d-%d", g, i)
				ch := make(chan *comm.WrappedMessage, 512)
				var ids []comm.SubscriptionID
				for _, mt := range rcTypes {
					ids = append(ids, ci.Subscribe(own, mt, ch))
				}
				ids = append(ids, c.Subscribe(shared, rcTypes[g%len(rcTypes)], ch))
				to := peer.IDSlice{cpeers[1+g%(nCP-1)], cpeers[1+(g+1)%(nCP-1)]}
				_ = ci.Broadcast(to, []byte("m"), comm.TssKeyGenMsg, own)
				_ = c.Broadcast(to[:1], []byte("m"), comm.TssKeyGenMsg, own)
				if g == 0 {
					// (one goroutine only: two concurrent first sends of one session to one peer would
					// each open a stream - not what is under test here)
					_ = ci.Broadcast(to, []byte("m"), comm.TssKeyGenMsg, shared)
				}
				// incoming: three messages for this session, one for the shared id
				var in []byte
				in = append(in, wireLine(comm.TssStartMsg, own)...)
				in = append(in, wireLine(comm.TssFailMsg, own)...)
				in = append(in, wireLine(rcTypes[(g+1)%len(rcTypes)], shared)...)
				in = append(in, wireLine(comm.TssReadyMsg, own)...)
				c.ProcessMessagesFromStream(p2pfakes.NewStream(cpeers[1+g%(nCP-1)], in))
				got := 0
				dl := time.After(2 * time.Second)
			recv:
				for got < 3 {
					select {
					case m := <-ch:
						if m.SessionID == own {
							got++
						}
					case <-dl:
						break recv
					}
				}
				for k, id := range ids {
					if k%2 == 0 {
						ci.UnSubscribe(id)
					} else {
						c.UnSubscribe(id)
					}
				}
				ci.CloseSession(own)
				if g == 0 {
					c.CloseSession(shared)
				}
				for _, mt := range rcTypes {
					left.Add(int64(len(c.GetSubscribers(own, mt))))
				}
				ran.Add(1)
			}
		}(g)
	}
	wg.Wait()
	for _, mt := range rcTypes {
		left.Add(int64(len(cv.GetSubscribers(shared, mt))))
	}
	ci.CloseSession(shared)
	return int(ran.Load()), int(left.Load()), log.unreleased()
}

// execStorm: stage 2, whole sessions of the real Coordinator.Execute on the real communication layer.
func execStorm(workers, rounds int) (sessions, leftover, unreleased int) {
	h := tssfakes.NewFakeHost(peers[0], peers)
	log := &streamLog{}
	h.NewStreamFn = log.open
	cv := p2p.NewCommunication(h, "/sygma/verif/c09rx")
	ef := elector.NewCoordinatorElectorFactory(h, relayer.BullyConfig{})
	co := tss.NewCoordinator(h, cv, ef)
	co.CoordinatorTimeout, co.TssTimeout, co.InitiatePeriod = long, long, long
	var left, ran atomic.Int64
	var wg sync.WaitGroup
	for g := 0; g < workers; g++ {
		wg.Add(1)
		go func(g int) {
			defer wg.Done()
			for i := 0; i < rounds; i++ {
				c := cv
				sid := fmt.Sprintf("rx-%d-%d", g, i)
				p := tssfakes.NewRecProcess(sid, []peer.ID{peers[0]}, 2)
				done := make(chan error, 1)
				go func() { done <- co.Execute(context.Background(), []tss.TssProcess{p}, make(chan interface{}, 1)) }()
				// the other relayer answers "ready" as soon as the coordinator listens for it
				if waitFor(func() bool { return len(c.GetSubscribers(sid, comm.TssReadyMsg)) >= 1 || len(done) > 0 }) {
					c.ProcessMessagesFromStream(p2pfakes.NewStream(peers[1], wireLine(comm.TssReadyMsg, sid)))
				}
				waitFor(func() bool { return p.Runs() > 0 || len(done) > 0 })
				p.Release()
				if _, back := recvErr(done); !back {
					return
				}
				for _, mt := range rcTypes {
					left.Add(int64(len(c.GetSubscribers(sid, mt))))
				}
				if p.Stops() != 1 {
					left.Add(1)
				}
				ran.Add(1)
			}
		}(g)
	}
	wg.Wait()
	return int(ran.Load()), int(left.Load()), log.unreleased()
}

const rcMarker = "C09RACECOMM"

func raceCommChild(spec string) {
	var workers, rounds int
	fmt.Sscanf(spec, "%d:%d", &workers, &rounds)
	startWatchdog(3 * time.Minute)
	s1, l1, u1 := commStorm(workers, rounds)
	s2, l2, u2 := execStorm(workers, max(1, rounds/8))
	fmt.Printf("\n%s sessions=%d leftover=%d unreleased=%d\n", rcMarker, s1+s2, l1+l2, u1+u2)
}

// ---- parent side ------------------------------------------------------------------------------------

var (
	raceBuildOnce sync.Once
	raceExe       string
	raceBuildNote string
)

// buildRace builds the runner with -race (once per run); "" + note if that is not possible.
func buildRace() (string, string) {
	raceBuildOnce.Do(func() {
		work := os.Getenv("VERIF_WORK")
		dir := os.Getenv("VERIF_DIR")
		if work == "" || dir == "" {
			raceBuildNote = "no VERIF_WORK/VERIF_DIR: race run skipped"
			return
		}
		exe := filepath.Join(work, "implrun_race")
		bctx, bcancel := context.WithTimeout(context.Background(), 10*time.Minute)
		defer bcancel()
		cmd := exec.CommandContext(bctx, "go", "build", "-race", "-modfile", filepath.Join(work, "go.mod"), "-tags", "verif",
			"-overlay", filepath.Join(work, "overlay.json"), "-o", exe, "./cmd/c09")
		cmd.Dir = filepath.Join(dir, "harness")
		cmd.Env = os.Environ()
		if out, err := cmd.CombinedOutput(); err != nil {
			raceBuildNote = "race build failed: " + tail(string(out), 400)
			return
		}
		raceExe = exe
	})
	return raceExe, raceBuildNote
}

// raceReports counts what the race detector and the runtime's own map checks reported.
func raceReports(out string) (int, string) {
	n := strings.Count(out, "WARNING: DATA RACE") + strings.Count(out, "fatal error: concurrent map")
	if n == 0 {
		return 0, ""
	}
	i := strings.Index(out, "WARNING: DATA RACE")
	if j := strings.Index(out, "fatal error: concurrent map"); i < 0 || (j >= 0 && j < i) {
		i = j
	}
	return n, tail(out[i:min(len(out), i+900)], 900)
}

func runRaceComm(c Case) Obs {
	exe, note := buildRace()
	if exe == "" {
		return Obs{Note: note, RC: &RaceCommObs{}}
	}
	rctx, rcancel := context.WithTimeout(context.Background(), 4*time.Minute)
	defer rcancel()
	run := exec.CommandContext(rctx, exe)
	run.WaitDelay = 5 * time.Second
	run.Env = append(os.Environ(), fmt.Sprintf("VERIF_C09_RACECOMM_CHILD=%d:%d", c.Workers, c.Rounds), "GORACE=halt_on_error=0 exitcode=66")
	outb, err := run.CombinedOutput()
	out := string(outb)
	rc := &RaceCommObs{}
	var o Obs
	rc.Reports, o.Note = raceReports(out)
	if i := strings.LastIndex(out, rcMarker); i >= 0 {
		if n, _ := fmt.Sscanf(out[i:], rcMarker+" sessions=%d leftover=%d unreleased=%d", &rc.Sessions, &rc.Leftover, &rc.Unreleased); n == 3 {
			rc.Ran = true
		}
	}
	if rc.Reports > 0 {
		rc.Ran = true
	}
	if !rc.Ran {
		o.Note = fmt.Sprintf("race child failed (%v): %s", err, tail(out, 400))
	}
	o.RC = rc
	return o
}
