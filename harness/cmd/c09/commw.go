// commw cases: the REAL p2p.Libp2pCommunication over the fake host, with scripted faults at the
// streams: NewStream fails for some peers, the first / a later write on a stream fails, Close fails;
// broadcasts go to several peers at once (partial failures).  Observed purely at the host and at
// the streams it handed out: which streams were opened, written to, closed / reset by each
// operation.  Judge: CloseSession(s) releases every stream that was opened for s, whatever
// happened on it; streams of other sessions are left alone; nothing is written to a released stream.
package main

import (
	"errors"
	"fmt"
	"sort"
	"sync"
	"sync/atomic"

	"github.com/ChainSafe/sygma-relayer/comm"
	"github.com/ChainSafe/sygma-relayer/comm/p2p"
	"github.com/libp2p/go-libp2p/core/network"
	"github.com/libp2p/go-libp2p/core/peer"

	"verifharness/tssfakes"
	"verifharness/vgen"
)

// WScr: what happens to the stream the host is asked for on behalf of one addressee of one
// broadcast (if the communication layer asks for one at all).
type WScr struct {
	OpenFail  bool `json:"open_fail,omitempty"`  // NewStream returns an error
	FailFrom  int  `json:"fail_from,omitempty"`  // writes from the FailFrom-th on fail (1 = the first one); 0: none does
	CloseFail bool `json:"close_fail,omitempty"` // Close returns an error
}

type WOp struct {
	Op  string `json:"op"` // send | close
	S   int    `json:"s"`
	Ps  []int  `json:"ps,omitempty"`  // send: addressees, ascending (1..nCP-1)
	Scr []WScr `json:"scr,omitempty"` // send: one script per addressee
}

// WObs: per addressee of a send (in the order of Ps) / per close
type WObs struct {
	IsSend   bool  `json:"is_send,omitempty"`
	Opened   []int `json:"opened,omitempty"`   // streams the host handed out for this addressee
	Wrote    []int `json:"wrote,omitempty"`    // streams towards this addressee that were written to
	Released []int `json:"released,omitempty"` // streams closed or reset (close: all; send: this addressee's)
}

// wStream: an outgoing stream with a write budget.
type wStream struct {
	network.Stream
	peer      int
	num       int // canonical number, assigned when the operation that opened it is over
	failFrom  int
	closeErr  error
	writes    atomic.Int64 // write attempts
	rels      atomic.Int64 // Close + Reset calls
	wSeen     int
	relSeen   int
}

func (s *wStream) Write(p []byte) (int, error) {
	n := int(s.writes.Add(1))
	if s.failFrom > 0 && n >= s.failFrom {
		return 0, errors.New("stream reset by peer")
	}
	return len(p), nil
}
func (s *wStream) Close() error { s.rels.Add(1); return s.closeErr }
func (s *wStream) Reset() error { s.rels.Add(1); return nil }

func runCommW(c Case) Obs {
	h := tssfakes.NewFakeHost(cpeers[0], cpeers)
	var mu sync.Mutex
	var all []*wStream     // numbered streams
	var fresh []*wStream   // opened by the operation in flight
	var script map[int]WScr // addressee -> script of the operation in flight
	h.NewStreamFn = func(p peer.ID) (network.Stream, error) {
		mu.Lock()
		defer mu.Unlock()
		pi := -1
		for i, q := range cpeers {
			if q == p {
				pi = i
			}
		}
		sc, ok := script[pi]
		if !ok {
			sc = WScr{}
		}
		if sc.OpenFail {
			return nil, errors.New("dial backoff")
		}
		st := &wStream{peer: pi, num: -1, failFrom: sc.FailFrom}
		if sc.CloseFail {
			st.closeErr = errors.New("stream reset")
		}
		fresh = append(fresh, st)
		return st, nil
	}
	cm := p2p.NewCommunication(h, "/sygma/verif/c09w")
	sidOf := func(s int) string { return fmt.Sprintf("wsession%d", s) }
	// number the streams opened by the operation that just ended: by addressee, then by arrival
	settle := func() []*wStream {
		mu.Lock()
		defer mu.Unlock()
		f := fresh
		fresh = nil
		sort.SliceStable(f, func(a, b int) bool { return f[a].peer < f[b].peer })
		for _, st := range f {
			st.num = len(all)
			all = append(all, st)
		}
		return f
	}
	var o Obs
	for _, op := range c.WOps {
		done := make(chan error, 1)
		switch op.Op {
		case "send":
			mu.Lock()
			script = map[int]WScr{}
			for j, p := range op.Ps {
				script[p] = op.Scr[j]
			}
			mu.Unlock()
			to := make(peer.IDSlice, len(op.Ps))
			for j, p := range op.Ps {
				to[j] = cpeers[p]
			}
			go func() { done <- cm.Broadcast(to, []byte("message"), comm.TssKeyGenMsg, sidOf(op.S)) }()
		case "close":
			mu.Lock()
			script = nil
			mu.Unlock()
			go func() { cm.CloseSession(sidOf(op.S)); done <- nil }()
		default:
			panic("commw op " + op.Op)
		}
		if _, back := recvErr(done); !back {
			o.Note = "Broadcast / CloseSession did not return"
			return o
		}
		opened := settle()
		// what changed at the streams
		var wrote, rel []*wStream
		for _, st := range all {
			if w := int(st.writes.Load()); w > st.wSeen {
				st.wSeen = w
				wrote = append(wrote, st)
			}
			for r := int(st.rels.Load()); st.relSeen < r; st.relSeen++ {
				rel = append(rel, st)
			}
		}
		byPeer := func(l []*wStream, p int) []int {
			out := []int{}
			for _, st := range l {
				if p < 0 || st.peer == p {
					out = append(out, st.num)
				}
			}
			return out
		}
		switch op.Op {
		case "send":
			for _, p := range op.Ps {
				o.WObs = append(o.WObs, WObs{IsSend: true, Opened: byPeer(opened, p), Wrote: byPeer(wrote, p), Released: byPeer(rel, p)})
			}
			// (streams of peers that were not addressed: attributed to the first addressee, so that
			// nothing the implementation did goes unseen)
			addressed := map[int]bool{}
			for _, p := range op.Ps {
				addressed[p] = true
			}
			if len(op.Ps) > 0 {
				first := &o.WObs[len(o.WObs)-len(op.Ps)]
				for _, st := range opened {
					if !addressed[st.peer] {
						first.Opened = append(first.Opened, st.num)
					}
				}
				for _, st := range wrote {
					if !addressed[st.peer] {
						first.Wrote = append(first.Wrote, st.num)
					}
				}
				for _, st := range rel {
					if !addressed[st.peer] {
						first.Released = append(first.Released, st.num)
					}
				}
			}
		case "close":
			sort.SliceStable(rel, func(a, b int) bool {
				if rel[a].peer != rel[b].peer {
					return rel[a].peer < rel[b].peer
				}
				return rel[a].num < rel[b].num
			})
			o.WObs = append(o.WObs, WObs{Released: byPeer(rel, -1)})
		}
	}
	for _, st := range all {
		o.WFirstFail = append(o.WFirstFail, st.failFrom == 1)
	}
	return o
}

// genCommW: sessions 0..2, addressees 1..nCP-1; a third of the cases fault free.
func genCommW(r *vgen.Rng, mode int) Case {
	scr := func() WScr {
		sc := WScr{}
		if mode == 0 {
			return sc
		}
		switch r.Intn(8) {
		case 0:
			sc.OpenFail = true
		case 1, 2:
			sc.FailFrom = 1 // the first write on the fresh stream fails
		case 3:
			sc.FailFrom = r.Range(2, 4) // a later write fails (the stream is re-used until then)
		}
		if mode >= 2 && r.Intn(3) == 0 {
			sc.CloseFail = true
		}
		return sc
	}
	send := func(s int) WOp {
		op := WOp{Op: "send", S: s}
		for p := 1; p < nCP; p++ {
			if r.Intn(3) > 0 {
				op.Ps = append(op.Ps, p)
			}
		}
		if len(op.Ps) == 0 {
			op.Ps = []int{r.Range(1, nCP-1)}
		}
		for range op.Ps {
			op.Scr = append(op.Scr, scr())
		}
		return op
	}
	var ops []WOp
	for k, m := 0, r.Range(4, 16); k < m; k++ {
		if r.Intn(10) < 7 {
			ops = append(ops, send(r.Intn(3)))
		} else {
			s := r.Intn(3)
			ops = append(ops, WOp{Op: "close", S: s})
			if r.Bool() { // the same session id is started again
				ops = append(ops, send(s))
			}
		}
	}
	for pass := 0; pass < 2; pass++ {
		for s := 0; s < 3; s++ {
			ops = append(ops, WOp{Op: "close", S: s})
		}
	}
	return Case{Kind: "commw", WOps: ops}
}
