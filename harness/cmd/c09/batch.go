// batch cases: ONE session with SEVERAL processes - Coordinator.Execute(ctx, []TssProcess{p0..pN-1}, ...),
// as the bitcoin executor passes one signing process per transaction input.  Every process has a
// session id of its own (the session is known by the id of the first one).
//
// The processes are scripted (tssfakes.BatchProc): each counts, per OBJECT, its Run calls, the maximal
// number of Runs inside it at the same time and its Stop calls; Modes[i] says whether the Run of process i
// returns at once ("now") or blocks until the harness lets it go / its context ends ("gate").  A Run
// that returns at once frees the pool's worker goroutine before the launching loop has handed out its
// next task: with GOMAXPROCS(1) (Procs = 1) the loop then runs ahead of the worker it has just handed
// a task to - the schedule in which a task that reads state shared with the loop sees a later
// iteration.  Procs = 0 leaves the scheduler alone.  Timing never enters the judgement: the harness
// waits on events (bounded), what is judged are counts.
//
// Hold (outcomes error, retry): a PARTIAL failure - only the failing process ErrAt ends by itself, every
// sibling stays inside Run until its context is cancelled (it ends only when the coordinator ends it).
// The harness lets the failing process go and watches, with a patience of its own (holdPatience; it
// does not count towards the runner's expiries), whether Execute returns: a session whose siblings are
// still inside Run when that patience ends is recorded as it stands (processes inside Run, no Stop, no
// CloseSession, id pending) and then let go.
//
// Outcomes: success | error (process ErrAt fails) | silent | timeout | cancel (Phase before | during |
// entry) | retry (process ErrAt fails with a SubsetError, the first process is Retryable: handleError
// waits for another start message and runs EVERY process of the batch a second time) | refused (a
// session with the id is live: the whole batch is turned away).  Dup: while the session is live a
// second batch for the same ids is requested - it must be refused and none of its processes run.
package main

import (
	"context"
	"errors"
	"fmt"
	"runtime"
	"sync/atomic"
	"time"

	"github.com/ChainSafe/sygma-relayer/comm"
	"github.com/ChainSafe/sygma-relayer/tss"
	tssmsg "github.com/ChainSafe/sygma-relayer/tss/message"
	"github.com/libp2p/go-libp2p/core/peer"

	"verifharness/tssfakes"
	"verifharness/vgen"
)

type BatchObs struct {
	Runs   []int `json:"runs"`
	MaxSim []int `json:"maxsim"`
	Stops  []int `json:"stops"`
	// the duplicate request (Dup) / the refused batch itself (outcome refused)
	DupIssued  bool  `json:"dup_issued,omitempty"`
	DupRefused bool  `json:"dup_refused,omitempty"`
	DupRuns    []int `json:"dup_runs,omitempty"`
	DupStops   []int `json:"dup_stops,omitempty"`
	PendAfter  bool  `json:"pend_after"`
}

func batchSid(sid string, i int) string {
	if i == 0 {
		return sid
	}
	return fmt.Sprintf("%s-in%d", sid, i)
}

// waitLaunched waits until the processes have been entered `want` times in total, Execute has
// returned, or - after at least one Run of this round (more than base) - nothing has changed for a while (a batch of which not every
// process is run must not cost a full patience; going on early is harmless: gates stay open, a
// cancelled pool still runs its tasks).
func waitLaunched(procs []*tssfakes.BatchProc, base, want int, done <-chan error) {
	total := func() int {
		n := 0
		for _, p := range procs {
			n += p.Runs()
		}
		return n
	}
	last, since := -1, time.Now()
	deadline := time.Now().Add(patience())
	for {
		n := total()
		if n >= want || len(done) > 0 {
			return
		}
		if n != last {
			last, since = n, time.Now()
		} else if n > base && time.Since(since) > 150*time.Millisecond {
			return
		}
		if time.Now().After(deadline) {
			expired()
			return
		}
		time.Sleep(100 * time.Microsecond)
	}
}

// holdWait: the bounded patience of the held cases (6 s; 1.5 s once a held session has been seen
// not to end) - a session that is still running then is an observation, not a wait of the runner
// that ran out.
var holdFailed atomic.Bool

func holdWait(cond func() bool) bool {
	d := 6 * time.Second
	if holdFailed.Load() {
		d = 1500 * time.Millisecond
	}
	if p := patience(); p < d {
		d = p
	}
	return tssfakes.WaitFor(d, cond)
}

func runBatchOnce(c Case, short time.Duration) (Obs, bool) {
	if c.Procs > 0 {
		defer runtime.GOMAXPROCS(runtime.GOMAXPROCS(c.Procs))
	}
	e := newEnv()
	sid := sidName(roundCtr.Add(1), 0)
	coord := c.Role == "coord"
	n := c.NProc
	mode := func(i int) string {
		if i < len(c.Modes) && c.Modes[i] == "gate" {
			return "gate"
		}
		return "now"
	}
	valid := []peer.ID{peers[1]}
	if coord {
		valid = []peer.ID{peers[0]}
	}
	mk := func(scripts func(i int) []tssfakes.BatchStep) ([]*tssfakes.BatchProc, []tss.TssProcess) {
		bp := make([]*tssfakes.BatchProc, n)
		tp := make([]tss.TssProcess, n)
		for i := range bp {
			bp[i] = tssfakes.NewBatchProc(batchSid(sid, i), valid, 2, scripts(i)...)
			bp[i].Tracker = e.tracker
			tp[i] = bp[i]
		}
		return bp, tp
	}
	collect := func(bp []*tssfakes.BatchProc) (runs, maxsim, stops []int) {
		for _, p := range bp {
			runs, maxsim, stops = append(runs, p.Runs()), append(maxsim, p.MaxLive()), append(stops, p.Stops())
		}
		return
	}
	bo := &BatchObs{}
	o := Obs{Batch: bo}

	// ---- refused: a session with the id is live, the whole batch is turned away ----
	if c.Outcome == "refused" {
		blocker := e.proc(sid, true)
		bdone := make(chan error, 1)
		go func() {
			bdone <- e.c.Execute(context.Background(), []tss.TssProcess{blocker}, make(chan interface{}, 1))
		}()
		if !waitFor(func() bool { return blocker.Runs() > 0 || len(bdone) > 0 }) {
			o.Note += "the blocking session did not start; "
		}
		bp, tp := mk(func(i int) []tssfakes.BatchStep { return []tssfakes.BatchStep{{Mode: mode(i)}} })
		done := make(chan error, 1)
		go func() { done <- e.c.Execute(context.Background(), tp, make(chan interface{}, 8)) }()
		// refused, or (a changed implementation) admitted: then its processes run
		var err error
		back := false
		waitFor(func() bool {
			select {
			case err = <-done:
				back = true
				return true
			default:
			}
			for _, p := range bp {
				if p.Runs() > 0 {
					return true
				}
			}
			return false
		})
		for _, p := range bp {
			p.ReleaseAll()
		}
		if !back {
			if err, back = recvErr(done); !back {
				o.Note += "the refused batch did not return; "
			}
		}
		o.Ret = retClass(err)
		bo.DupIssued, bo.DupRefused = true, back && o.Ret == "pending"
		bo.DupRuns, _, bo.DupStops = collect(bp)
		bo.Runs, bo.MaxSim, bo.Stops = bo.DupRuns, make([]int, n), bo.DupStops
		for i, p := range bp {
			bo.MaxSim[i] = p.MaxLive()
		}
		blocker.Release()
		if _, ok := recvErr(bdone); !ok {
			o.Note += "the blocking session did not return; "
		}
		o.LiveAfter = e.tracker.TotalLive()
		pend, known := e.pending(sid)
		o.ReuseOK = e.reuse(sid)
		if !known {
			pend = !o.ReuseOK
		}
		bo.PendAfter = pend
		return o, true
	}

	// ---- an admitted session ----
	during := c.Phase == "during"
	entry := c.Phase == "entry"
	switch c.Outcome {
	case "silent":
		e.c.CoordinatorTimeout = short
	case "timeout":
		e.c.TssTimeout = short
	}
	if !during && (c.Outcome == "timeout" || c.Outcome == "cancel") {
		e.comm.OnBroadcast = nil // nobody answers: the coordinator never gets a ready peer
	}
	retry := c.Outcome == "retry"
	bp, tp := mk(func(i int) []tssfakes.BatchStep {
		st := tssfakes.BatchStep{Mode: mode(i)}
		if (c.Outcome == "timeout" || c.Outcome == "cancel") && during && i == n-1 {
			st.Mode = "gate" // somebody has to be inside Run when the session is struck
		}
		if c.Hold && i != c.ErrAt {
			st.Mode = "gate" // ends only when its context is cancelled
		}
		if i == c.ErrAt {
			switch c.Outcome {
			case "error":
				st.Err = errors.New("scripted process failure")
			case "retry":
				return []tssfakes.BatchStep{{Mode: st.Mode, Err: &tss.SubsetError{Peer: peers[0]}}, {Mode: st.Mode}}
			}
		}
		if retry {
			return []tssfakes.BatchStep{st, st}
		}
		return []tssfakes.BatchStep{st}
	})
	if retry {
		bp[0].Retry = true
	}
	ctx, cancel := context.WithCancel(context.Background())
	defer cancel()
	if entry {
		if c.Ctx == "deadline" {
			var c2 context.CancelFunc
			ctx, c2 = context.WithDeadline(ctx, time.Now().Add(-time.Second))
			defer c2()
		} else {
			cancel()
		}
	}
	done := make(chan error, 1)
	go func() { done <- e.c.Execute(ctx, tp, make(chan interface{}, 4*n+4)) }()

	wantRun := c.Outcome == "success" || c.Outcome == "error" || retry || ((c.Outcome == "timeout" || c.Outcome == "cancel") && during)
	ok := true
	startMsg, _ := tssmsg.MarshalStartMessage([]byte{})
	if wantRun {
		if !coord {
			waitFor(func() bool { return e.comm.Subscribers(sid, comm.TssStartMsg) >= 1 || len(done) > 0 })
			e.comm.Deliver(sid, comm.TssInitiateMsg, peers[1], []byte{})
			e.comm.Deliver(sid, comm.TssStartMsg, peers[1], startMsg)
		}
		waitLaunched(bp, 0, n, done)
		if len(done) > 0 && (c.Outcome == "timeout" || c.Outcome == "cancel") {
			total := 0
			for _, p := range bp {
				total += p.Runs()
			}
			if total == 0 {
				ok = false // the timeout struck before the processes were started: not the schedule asked for
			}
		}
	} else if !entry {
		if coord {
			waitFor(func() bool { return e.comm.Subscribers(sid, comm.TssReadyMsg) >= 1 || len(done) > 0 })
		} else {
			waitFor(func() bool { return e.comm.Subscribers(sid, comm.TssStartMsg) >= 1 || len(done) > 0 })
		}
		waitFor(func() bool { return e.comm.Subscribers(sid, comm.TssFailMsg) >= 1 || len(done) > 0 })
	}
	// a duplicate request while the session is live
	if c.Dup && len(done) == 0 {
		dp := make([]*tssfakes.BatchProc, n)
		dt := make([]tss.TssProcess, n)
		for i := range dp {
			dp[i] = tssfakes.NewBatchProc(batchSid(sid, i), valid, 2, tssfakes.BatchStep{Mode: "now"})
			dt[i] = dp[i]
		}
		ddone := make(chan error, 1)
		go func() { ddone <- e.c.Execute(context.Background(), dt, make(chan interface{}, 4*n+4)) }()
		derr, dback := recvErr(ddone)
		live := len(done) == 0 // (the first session was live before and after the duplicate was decided)
		if live {
			bo.DupIssued = true
			bo.DupRefused = dback && retClass(derr) == "pending"
			bo.DupRuns, _, bo.DupStops = collect(dp)
		}
	}
	stuck := false
	switch c.Outcome {
	case "success", "error":
		for i, p := range bp {
			if !c.Hold || i == c.ErrAt {
				p.ReleaseRound(0)
			}
		}
	case "cancel":
		cancel()
	case "retry":
		for i, p := range bp {
			if !c.Hold || i == c.ErrAt {
				p.ReleaseRound(0)
			}
		}
		if c.Hold {
			// the siblings leave Run only if the failure of ErrAt cancels them
			stuck = !holdWait(func() bool {
				if len(done) > 0 {
					return true
				}
				for _, p := range bp {
					if p.Live() > 0 {
						return false
					}
				}
				return true
			})
		}
		if stuck {
			break
		}
		// handleError waits for anybody's start message, then runs every process again
		// (a process that is entered a second time before the second start message exists is not part of
		// any retry: do not wait for a retry phase that will not come)
		anomaly := func() bool {
			for _, p := range bp {
				if p.Runs() > 1 {
					return true
				}
			}
			return false
		}
		second := waitFor(func() bool {
			if len(done) > 0 || anomaly() {
				return true
			}
			k := 0
			for _, ev := range e.led.Snapshot() {
				if ev.Kind == "Sub" && ev.SID == sid && ev.Msg == comm.TssStartMsg {
					k++
				}
			}
			want := 1
			if !coord {
				want = 2
			}
			return k >= want && e.comm.Subscribers(sid, comm.TssStartMsg) >= 1
		})
		if second && len(done) == 0 && !anomaly() {
			// the new coordinator's initiate message first: the session answers it with ready - a send of
			// the RETRY phase (its stream must be released at the end like those of the first attempt)
			nb := e.led.Count("Bcast", sid)
			if e.comm.Deliver(sid, comm.TssInitiateMsg, peers[1], []byte{}) > 0 {
				waitFor(func() bool { return len(done) > 0 || e.led.Count("Bcast", sid) > nb })
			}
			e.comm.Deliver(sid, comm.TssStartMsg, peers[1], startMsg)
			waitLaunched(bp, n, 2*n, done)
		}
		for _, p := range bp {
			p.ReleaseAll()
		}
		// (a retry phase whose attempt succeeded keeps watching the session until its caller cancels)
		waitFor(func() bool { return len(done) > 0 || e.tracker.TotalLive() == 0 })
		cancel()
	}
	ledgerEvs := func() (evs []string) {
		for _, ev := range e.led.Snapshot() {
			if ev.SID != sid && ev.Kind != "Unsub" {
				continue
			}
			switch ev.Kind {
			case "Sub":
				evs = append(evs, "ESub "+msgName(ev.Msg))
			case "Unsub":
				evs = append(evs, "EUnsub "+msgName(ev.Msg))
			case "Close":
				evs = append(evs, "EClose")
			}
		}
		return
	}
	var err error
	back := false
	if c.Hold {
		if back = !stuck && holdWait(func() bool { return len(done) > 0 }); back {
			err = <-done
		} else {
			// the session as it stands when patience ends: siblings still inside Run, nothing stopped /
			// released, the id still pending
			holdFailed.Store(true)
			o.Note = "Execute did not return while the siblings of the failed process were inside Run"
			o.Ret, o.LiveAfter = "", e.tracker.TotalLive()
			o.Evs, o.Led = ledgerEvs(), e.sessLedger(sid)
			bo.Runs, bo.MaxSim, bo.Stops = collect(bp)
			bo.PendAfter = true
			if pend, known := e.pending(sid); known {
				bo.PendAfter = pend
			}
			for _, p := range bp {
				p.ReleaseAll()
			}
			cancel()
			if _, ok := recvErr(done); !ok {
				o.Note += "; nor after they were let go"
			}
			return o, true
		}
	} else {
		err, back = recvErr(done)
	}
	if !back {
		for _, p := range bp {
			p.ReleaseAll()
		}
		return Obs{Note: "Execute did not return", Batch: bo}, true
	}
	o.Ret, o.LiveAfter = retClass(err), e.tracker.TotalLive()
	pend, known := e.pending(sid)
	o.Evs = ledgerEvs()
	bo.Runs, bo.MaxSim, bo.Stops = collect(bp)
	o.Led = e.sessLedger(sid)
	o.ReuseOK = e.reuse(sid)
	if !known {
		pend = !o.ReuseOK
	}
	bo.PendAfter = pend
	return o, ok
}

func runBatch(c Case) Obs {
	short := 30 * time.Millisecond
	if c.Phase == "during" && c.Outcome == "timeout" {
		short = 250 * time.Millisecond
	}
	var o Obs
	for try := 0; try < 4; try++ {
		var ok bool
		if o, ok = runBatchOnce(c, short); ok {
			return o
		}
		short *= 4
	}
	o.Note = "schedule not reached"
	return o
}

// ---- generation -------------------------------------------------------------------------------------

func batchModes(r *vgen.Rng, n int, pattern string) []string {
	m := make([]string, n)
	for i := range m {
		switch pattern {
		case "now":
			m[i] = "now"
		case "gate":
			m[i] = "gate"
		case "now-gate": // the first returns at once, the others stay inside Run
			m[i] = "gate"
			if i == 0 {
				m[i] = "now"
			}
		default:
			m[i] = vgen.Pick(r, []string{"now", "gate"})
		}
	}
	return m
}

func genBatch(r *vgen.Rng, tier string) []Case {
	var out []Case
	reps := 1
	if tier == "thorough" {
		reps = 6
	}
	for rep := 0; rep < reps; rep++ {
		for n := 2; n <= 6; n++ {
			for _, role := range []string{"coord", "peer"} {
				// sessions whose processes are run: every mode pattern x GOMAXPROCS 1 / untouched
				for _, oc := range []struct{ o, ph string }{{"success", "during"}, {"error", "during"}, {"cancel", "during"}, {"retry", "during"}} {
					for _, pat := range []string{"now", "now-gate", "random", "gate"} {
						for _, procs := range []int{1, 0} {
							if rep == 0 && (pat == "gate" && (procs == 1 || n%2 == 1) || pat == "now" && procs == 0) {
								continue // (quick tier: the patterns that add least)
							}
							c := Case{Kind: "batch", Role: role, Outcome: oc.o, Phase: oc.ph, NProc: n, Procs: procs,
								Modes: batchModes(r, n, pat), ErrAt: r.Intn(n)}
							if oc.o != "error" && oc.o != "retry" {
								c.ErrAt = 0
							}
							// a duplicate batch while the session is live: somebody has to stay inside Run (a failing
							// process that returns at once ends the first round at once)
							live := false
							switch oc.o {
							case "cancel":
								live = true
							case "success":
								for _, m := range c.Modes {
									live = live || m == "gate"
								}
							case "error", "retry":
								live = c.Modes[c.ErrAt] == "gate"
							}
							c.Dup = live && r.Bool()
							out = append(out, c)
						}
					}
				}
				// sessions that end before a process is run, and the batch that is refused
				for _, oc := range []struct{ o, ph, ctx string }{{"cancel", "before", ""}, {"cancel", "entry", ""}, {"cancel", "entry", "deadline"},
					{"timeout", "before", ""}, {"silent", "before", ""}, {"refused", "", ""}} {
					if oc.o == "silent" && role == "coord" {
						continue
					}
					if tier != "thorough" && (oc.o == "timeout" || oc.o == "silent") && n%2 == 1 {
						continue // each costs a timeout
					}
					c := Case{Kind: "batch", Role: role, Outcome: oc.o, Phase: oc.ph, Ctx: oc.ctx, NProc: n, Modes: batchModes(r, n, "random")}
					// (a duplicate only where the harness decides how long the session is live)
					c.Dup = oc.o == "cancel" && oc.ph == "before" && r.Bool()
					out = append(out, c)
				}
			}
		}
		// partial failures: exactly ONE process (the first / a middle / the last one) fails - at once or
		// after having been inside Run - while every sibling stays inside Run until it is cancelled; plain
		// error (Execute returns it) and SubsetError of a retryable batch (the whole batch runs again)
		for n := 2; n <= 6; n++ {
			for _, role := range []string{"coord", "peer"} {
				for pi, at := range []int{0, n / 2, n - 1} {
					for _, oc := range []string{"error", "retry"} {
						if oc == "retry" && rep == 0 && pi != n%3 {
							continue
						}
						m := batchModes(r, n, "gate")
						m[at] = vgen.Pick(r, []string{"now", "gate"})
						out = append(out, Case{Kind: "batch", Role: role, Outcome: oc, Phase: "during", NProc: n,
							Procs: vgen.Pick(r, []int{1, 0}), Modes: m, ErrAt: at, Hold: true})
					}
				}
			}
		}
		// the global timeout strikes while the batch runs (a quarter of a second each)
		for _, n := range []int{2, 5} {
			out = append(out, Case{Kind: "batch", Role: vgen.Pick(r, []string{"coord", "peer"}), Outcome: "timeout", Phase: "during", NProc: n,
				Modes: batchModes(r, n, "now-gate"), Procs: 1})
		}
	}
	return out
}

// ---- the same batches under the race detector (child process, see raceChild) ---------------------------

func raceBatch(rounds int) {
	r := vgen.NewRng(uint64(rounds) + 23)
	for i := 0; i < rounds; i++ {
		n := 2 + i%5
		role := []string{"coord", "peer"}[i%2]
		oc := []string{"success", "error", "cancel", "retry"}[(i/2)%4]
		pat := []string{"now", "now-gate", "random", "gate"}[(i/8)%4]
		c := Case{Kind: "batch", Role: role, Outcome: oc, Phase: "during", NProc: n, Modes: batchModes(r, n, pat), ErrAt: r.Intn(n)}
		runBatch(c)
	}
	for _, n := range []int{2, 4, 6} {
		runBatch(Case{Kind: "batch", Role: "coord", Outcome: "refused", NProc: n, Modes: batchModes(r, n, "now")})
		runBatch(Case{Kind: "batch", Role: "peer", Outcome: "cancel", Phase: "before", NProc: n, Modes: batchModes(r, n, "now")})
	}
}

// ---- printing ---------------------------------------------------------------------------------------------

func coqBatch(c Case, o Obs) string {
	b := o.Batch
	if b == nil {
		b = &BatchObs{}
	}
	role := map[string]string{"coord": "Coord", "peer": "Peer"}[c.Role]
	ret := map[string]string{"nil": "RNil", "pending": "RPending", "coordinator": "RCoordinatorErr",
		"timeout": "RTimeout", "process": "RProcessErr", "": "RPending"}[o.Ret]
	nats := func(l []int) string { return vgen.ListOf(l, vgen.Nat) }
	if c.Outcome == "refused" {
		return "BatchRefused " + vgen.Nat(c.NProc) + " " + vgen.Bool(b.DupRefused) + " " + nats(b.DupRuns) + " " + nats(b.DupStops) + " " +
			vgen.Nat(o.LiveAfter) + " " + vgen.Bool(b.PendAfter) + " " + vgen.Bool(o.ReuseOK)
	}
	oc := map[string]string{"success": "Success", "error": "ProcessError", "silent": "CoordinatorSilent",
		"timeout": "GlobalTimeout", "cancel": "Cancelled", "retry": "ProcessError"}[c.Outcome]
	ph := map[string]string{"before": "BeforeStart", "during": "DuringRun", "": "BeforeStart", "entry": "BeforeEntry"}[c.Phase]
	evs := append([]string{}, o.Evs...)
	for i, k := range b.Runs {
		for j := 0; j < k; j++ {
			evs = append(evs, fmt.Sprintf("ERun %d%%nat", i))
		}
	}
	for i, k := range b.Stops {
		for j := 0; j < k; j++ {
			evs = append(evs, fmt.Sprintf("EStop %d%%nat", i))
		}
	}
	evs = append(evs, "EPend "+vgen.Bool(b.PendAfter))
	dup := "None"
	if b.DupIssued {
		dup = "(Some " + vgen.Pair(vgen.Bool(b.DupRefused), vgen.Pair(nats(b.DupRuns), nats(b.DupStops))) + ")"
	}
	return "Batch " + role + " " + oc + " " + ph + " " + vgen.Bool(c.Outcome == "retry") + " " + vgen.Nat(c.NProc) + " " +
		vgen.List(evs) + " " + nats(b.MaxSim) + " " + ret + " " +
		vgen.Nat(o.LiveAfter) + " " + vgen.Bool(o.ReuseOK) + " " + dup + " " + coqLed(o.Led)
}

func kindBatch(c Case) string {
	k := "batch/" + c.Outcome
	if c.Phase != "" && c.Phase != "during" {
		k += "-" + c.Phase
	}
	if c.Outcome == "timeout" && c.Phase == "during" {
		k += "-during"
	}
	k += "/" + c.Role
	if c.Procs == 1 {
		k += "/p1"
	}
	if c.Dup {
		k += "/dup"
	}
	if c.Hold {
		k += "/hold"
	}
	return k
}
