// hist cases: a LONG history on ONE coordinator.  K quick sessions with distinct ids run one after the
// other to their end with mixed outcomes that end at once (success, process error, a context that is
// already cancelled when Execute is called; a few of them with a batch of two processes), all on the
// same tss.Coordinator and the same recording Communication; nothing is live afterwards.  Then the
// probes: a session with a fresh id and sessions that re-use ids of ended sessions (the first, one
// from the middle, the last, the one just probed) must be admitted and run like on a coordinator
// that has seen nothing.  The observations are aggregated (how many of the K sessions were refused,
// were not cleaned up ...), one Coq case per history.
package main

import (
	"context"
	"errors"
	"fmt"

	"github.com/ChainSafe/sygma-relayer/tss"

	"verifharness/tssfakes"
	"verifharness/vgen"
)

type ProbeObs struct {
	Fresh    bool `json:"fresh"`
	Admitted bool `json:"admitted"`
	Runs     int  `json:"runs"`
	Stops    int  `json:"stops"`
}

type HistObs struct {
	Refused  int `json:"refused"`  // sessions of the history that were refused
	NotRun   int `json:"not_run"`  // admitted sessions that were to run and did not run every process exactly once
	StopBad  int `json:"stop_bad"` // sessions with a process that was not stopped exactly once
	Leftover int `json:"leftover"` // subscriptions left in the table after the history
	Unclosed int `json:"unclosed"` // admitted sessions that subscribed and were not closed (CloseSession)
	Stuck    int `json:"stuck"`    // Execute calls that did not return
	// the duplicates: Dups requests for the id of a session that is live (in the middle of the history)
	DupAdmitted int        `json:"dup_admitted"` // ... that were not refused
	DupRuns     int        `json:"dup_runs"`     // Run calls on their processes
	FirstBad    int        `json:"first_bad"`    // index of the first session that was refused / not clean (-1: none)
	Probes      []ProbeObs `json:"probes"`
}

// histOutcome: the outcome of session i of a history (Mix selects the pattern).
func histOutcome(mix, i int) string {
	switch (i*7 + mix*3 + i/5) % 4 {
	case 0, 1:
		return "success"
	case 2:
		return "error"
	}
	return "cancelled"
}

func runHist(c Case) Obs {
	e := newEnv()
	base := fmt.Sprintf("c09h%d", roundCtr.Add(1))
	sidOf := func(i int) string { return fmt.Sprintf("%s-%d", base, i) }
	ho := &HistObs{FirstBad: -1}
	o := Obs{Hist: ho}
	answer := e.comm.OnBroadcast
	bad := func(i int) {
		if ho.FirstBad < 0 {
			ho.FirstBad = i
		}
	}
	// one session, run to its end; returns admitted, per-process runs / stops
	session := func(sid, outcome string, np int) (admitted bool, procs []*tssfakes.BatchProc, back bool) {
		procs = make([]*tssfakes.BatchProc, np)
		tp := make([]tss.TssProcess, np)
		for j := range procs {
			st := tssfakes.BatchStep{Mode: "now"}
			if outcome == "error" && j == np-1 {
				st.Err = errors.New("scripted process failure")
			}
			procs[j] = tssfakes.NewBatchProc(batchSid(sid, j), peers[:1], 2, st)
			tp[j] = procs[j]
		}
		ctx, cancel := context.WithCancel(context.Background())
		defer cancel()
		if outcome == "cancelled" {
			// (nobody answers: whichever branch the wait loop takes, Run is not called)
			e.comm.OnBroadcast = nil
			cancel()
		} else {
			e.comm.OnBroadcast = answer
		}
		done := make(chan error, 1)
		go func() { done <- e.c.Execute(ctx, tp, make(chan interface{}, 2*np+2)) }()
		err, ok := recvErr(done)
		if !ok {
			return false, procs, false
		}
		return retClass(err) != "pending", procs, true
	}
	// a burst of duplicates: one session stays live while Dups requests for its id come in one after the
	// other - each must be refused - then it ends
	dupStorm := func() {
		sid := base + "-held"
		held := tssfakes.NewBatchProc(sid, peers[:1], 2, tssfakes.BatchStep{Mode: "gate"})
		e.comm.OnBroadcast = answer
		hdone := make(chan error, 1)
		go func() { hdone <- e.c.Execute(context.Background(), []tss.TssProcess{held}, make(chan interface{}, 2)) }()
		if !waitFor(func() bool { return held.Runs() > 0 || len(hdone) > 0 }) || len(hdone) > 0 {
			o.Note += "the held session did not start; "
		}
		for j := 0; j < c.Dups && len(hdone) == 0; j++ {
			dp := tssfakes.NewBatchProc(sid, peers[:1], 2, tssfakes.BatchStep{Mode: "now"})
			ddone := make(chan error, 1)
			go func() { ddone <- e.c.Execute(context.Background(), []tss.TssProcess{dp}, make(chan interface{}, 2)) }()
			err, ok := recvErr(ddone)
			if !ok {
				ho.Stuck++
				break
			}
			if retClass(err) != "pending" {
				ho.DupAdmitted++
			}
			ho.DupRuns += dp.Runs()
		}
		held.ReleaseAll()
		if _, ok := recvErr(hdone); !ok {
			ho.Stuck++
		}
		if held.Stops() != 1 {
			ho.StopBad++
		}
	}
	for i := 0; i < c.K; i++ {
		if c.Dups > 0 && i == c.K/2 {
			dupStorm()
		}
		oc := histOutcome(c.Mix, i)
		np := 1
		if i%16 == 5 {
			np = 2
		}
		adm, procs, back := session(sidOf(i), oc, np)
		if !back {
			ho.Stuck++
			bad(i)
			if ho.Stuck >= 2 {
				o.Note = "Execute calls of the history did not return"
				break
			}
			continue
		}
		if !adm {
			ho.Refused++
			bad(i)
			continue
		}
		for _, p := range procs {
			if oc != "cancelled" && p.Runs() != 1 || oc == "cancelled" && p.Runs() != 0 {
				ho.NotRun++
				bad(i)
				break
			}
		}
		for _, p := range procs {
			if p.Stops() != 1 {
				ho.StopBad++
				bad(i)
				break
			}
		}
	}
	// what the history left behind on the communication layer
	ho.Leftover = e.comm.LiveSubscriptions("*")
	subscribed, closed := map[string]bool{}, map[string]bool{}
	for _, ev := range e.led.Snapshot() {
		switch ev.Kind {
		case "Sub":
			subscribed[ev.SID] = true
		case "Close":
			closed[ev.SID] = true
		}
	}
	for sid := range subscribed {
		if !closed[sid] {
			ho.Unclosed++
		}
	}
	// the probes: an index below K = the id of that (ended) session of the history; K + j = the j-th id
	// the coordinator has never seen (probed a second time it is an ended id as well)
	probed := map[int]bool{}
	for _, pr := range c.Probes {
		sid := sidOf(pr)
		adm, procs, back := session(sid, "success", 1)
		po := ProbeObs{Fresh: pr >= c.K && !probed[pr], Admitted: adm && back, Runs: procs[0].Runs(), Stops: procs[0].Stops()}
		probed[pr] = true
		ho.Probes = append(ho.Probes, po)
	}
	return o
}

func genHist(r *vgen.Rng, tier string) []Case {
	var out []Case
	ks := []int{127, 128, 129, 255, 256, 257, 1023, 1024, 1025, r.Range(300, 600), r.Range(300, 600)}
	if tier == "thorough" {
		ks = append(ks, 5000, 2047, 2048, 2049, 4096, r.Range(600, 3000))
	}
	if tier == "thorough" {
		ks = append(ks, 65535, 65536, 65537)
	}
	for i, k := range ks {
		// a fresh id, then ended ids (first, middle, last), the fresh one again, another fresh one, an
		// ended one a second time
		probes := []int{k, 0, k / 2, k - 1, k, k + 1, r.Intn(k), 0}
		c := Case{Kind: "hist", K: k, Mix: i, Probes: probes}
		// every other history has a burst of refused duplicates in its middle (as many as it has sessions)
		if i%2 == 0 {
			c.Dups = k
		}
		out = append(out, c)
	}
	return out
}

func coqHist(c Case, o Obs) string {
	h := o.Hist
	if h == nil {
		h = &HistObs{}
	}
	n := func(x int) string { return vgen.N(uint64(x)) }
	nsucc, nerr, ncan := 0, 0, 0
	for i := 0; i < c.K; i++ {
		switch histOutcome(c.Mix, i) {
		case "success":
			nsucc++
		case "error":
			nerr++
		default:
			ncan++
		}
	}
	return "Hist " + n(c.K) + " " + n(nsucc) + " " + n(nerr) + " " + n(ncan) + " " + n(h.Refused) + " " + n(h.NotRun) + " " + n(h.StopBad) + " " +
		n(h.Leftover) + " " + n(h.Unclosed) + " " + n(h.Stuck) + " " + n(c.Dups) + " " + n(h.DupAdmitted) + " " + n(h.DupRuns) + " " +
		vgen.ListOf(h.Probes, func(p ProbeObs) string {
			return vgen.Pair(vgen.Bool(p.Fresh), vgen.Pair(vgen.Bool(p.Admitted), vgen.Pair(vgen.Nat(p.Runs), vgen.Nat(p.Stops))))
		})
}
