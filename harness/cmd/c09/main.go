// C09 correspondence runner: drives the REAL tss.Coordinator.Execute (admission of concurrent
// requests, the five ways a session can end, re-use of the session id) and the REAL
// p2p.StreamManager, over the fakes of verifharness/tssfakes.
package main

import (
	"context"
	"errors"
	"fmt"
	"os"
	"os/exec"
	"runtime"
	"strings"
	"sync"
	"sync/atomic"
	"time"

	"github.com/ChainSafe/sygma-relayer/comm"
	"github.com/ChainSafe/sygma-relayer/comm/elector"
	"github.com/ChainSafe/sygma-relayer/comm/p2p"
	"github.com/ChainSafe/sygma-relayer/config/relayer"
	"github.com/ChainSafe/sygma-relayer/tss"
	tssmsg "github.com/ChainSafe/sygma-relayer/tss/message"
	"github.com/libp2p/go-libp2p/core/network"
	"github.com/libp2p/go-libp2p/core/peer"
	"github.com/rs/zerolog"

	"verifharness/tssfakes"
	"verifharness/vgen"
)

// ---- case / observation -----------------------------------------------------------------------

type StreamOp struct {
	Op string `json:"op"` // add | get | release
	S  int    `json:"s"`
	P  int    `json:"p,omitempty"`
	X  int    `json:"x,omitempty"` // add: stream number
}

type Case struct {
	Kind string `json:"kind"` // conc | sess | streams | race | storm
	// conc: request t asks for session id Sids[t]; Gate = hold the process lock (as a concurrent
	// Execute inside its critical section would) until every request is blocked on it
	Sids  []int `json:"sids,omitempty"`
	Gate  bool  `json:"gate,omitempty"`
	Sched []int `json:"sched,omitempty"` // model schedule (thread ids), complete
	// sess
	Role    string `json:"role,omitempty"`    // coord | peer
	Outcome string `json:"outcome,omitempty"` // success | error | silent | timeout | cancel
	Phase   string `json:"phase,omitempty"`   // before | during | entry (cancel: the context is already done when Execute is called)
	// phase entry: "" the context is already cancelled | deadline: its deadline has already passed
	Ctx   string `json:"ctx,omitempty"`
	NProc int    `json:"nproc,omitempty"`
	// streams
	Ops []StreamOp `json:"ops,omitempty"`
	// race: Rounds rounds of free-running conc cases in a child process built with -race
	// storm: Rounds rounds of N requests for one session id released by a barrier, GOMAXPROCS = Procs
	Rounds int `json:"rounds,omitempty"`
	N      int `json:"n,omitempty"`
	Procs  int `json:"procs,omitempty"`
	// streams, comm: Fails[x] = Close() of stream x returns an error
	Fails []bool `json:"fails,omitempty"`
	// comm
	COps []CommOp `json:"cops,omitempty"`
	// tear: a session of NProc processes ends as Role/Outcome/Phase say; its teardown is parked
	// inside CloseSession (At = 0) or inside Stop of process At-1, a second request for the same
	// session id arrives there
	At int `json:"at,omitempty"`
	// commw: broadcasts to several peers with scripted NewStream / write / Close failures
	WOps []WOp `json:"wops,omitempty"`
	// racecomm: Workers goroutines x Rounds session lifetimes on one real Libp2pCommunication, in a
	// child process built with -race
	Workers int `json:"workers,omitempty"`
	// srace: registration of streams concurrent with the release of their session (srace.go)
	Level  string `json:"level,omitempty"` // manager | comm
	N0     int    `json:"n0,omitempty"`
	Other  bool   `json:"other,omitempty"`
	During []SROp `json:"during,omitempty"`
	After  []SROp `json:"after,omitempty"`
	// long: a duplicate request for a session that outlived TssTimeout through a retry (long.go);
	// Err: subset | comm | tss | coordinator; When: just | late
	Err  string `json:"err,omitempty"`
	When string `json:"when,omitempty"`
	// batch: ONE session with NProc processes (batch.go); Modes[i]: the Run of process i returns at once
	// (now) or blocks until it is let go / its context ends (gate); ErrAt: the process that fails
	// (outcomes error, retry); Dup: a second batch for the same ids is requested while the session is live;
	// Procs = 1: the session runs under GOMAXPROCS(1)
	Modes []string `json:"modes,omitempty"`
	ErrAt int      `json:"err_at,omitempty"`
	Dup   bool     `json:"dup,omitempty"`
	// batch (outcomes error, retry): only process ErrAt ends by itself, its siblings stay inside Run until
	// their context is cancelled
	Hold bool `json:"hold,omitempty"`
	// hist: K sessions with distinct ids run to their end one after the other on ONE coordinator (outcome
	// pattern Mix), then the Probes (an index below K: the id of that ended session; K + j: the j-th new id)
	K      int   `json:"k,omitempty"`
	Mix    int   `json:"mix,omitempty"`
	Probes []int `json:"probes,omitempty"`
	// hist: in the middle of the history one session stays live while Dups requests for its id are made
	Dups int `json:"dups,omitempty"`
}

type Round struct {
	Refused []bool `json:"refused"`
	MaxLive int    `json:"maxlive"`
}

type SObs struct {
	Got    *int     `json:"got,omitempty"`
	IsGet  bool     `json:"is_get,omitempty"`
	IsRel  bool     `json:"is_rel,omitempty"`
	Before [][]*int `json:"before,omitempty"`
	After  [][]*int `json:"after,omitempty"`
	CB     []int    `json:"cb,omitempty"`
	CA     []int    `json:"ca,omitempty"`
}

type Obs struct {
	// conc
	Refused      []bool `json:"refused,omitempty"`
	MaxLive      []int  `json:"maxlive,omitempty"`
	PendingAfter []bool `json:"pending_after,omitempty"`
	Reuse        []bool `json:"reuse,omitempty"`
	Note         string `json:"note,omitempty"`
	// sess
	Evs       []string `json:"evs,omitempty"`
	Ret       string   `json:"ret,omitempty"`
	LiveAfter int      `json:"live_after,omitempty"`
	ReuseOK   bool     `json:"reuse_ok,omitempty"`
	// sess, batch, long: the Broadcast ("S") and CloseSession ("C") calls of the session on the recording
	// Communication, in ledger order, taken after Execute returned and before the id is started again
	Led []string `json:"led,omitempty"`
	// streams
	SObs []SObs `json:"sobs,omitempty"`
	// storm
	Rounds []Round `json:"rounds,omitempty"`
	// comm
	CObs []CObs `json:"cobs,omitempty"`
	// tear
	Tear *TearObs `json:"tear,omitempty"`
	// commw
	WObs []WObs `json:"wobs,omitempty"`
	// commw: for every stream the host handed out: does its first write fail
	WFirstFail []bool `json:"wfirstfail,omitempty"`
	// racecomm: data race reports (incl. "fatal error: concurrent map ..."), subscriptions left in
	// the table, streams handed out by the host and never closed, sessions run
	RC *RaceCommObs `json:"rc,omitempty"`
	// srace, long
	SR   *SRaceObs `json:"sr,omitempty"`
	Long *LongObs  `json:"long,omitempty"`
	// batch, hist
	Batch *BatchObs `json:"batch,omitempty"`
	Hist  *HistObs  `json:"hist,omitempty"`
}

// ---- environment --------------------------------------------------------------------------------

const long = time.Hour

var peers = tssfakes.PeerIDs(3)

type env struct {
	c       *tss.Coordinator
	comm    *tssfakes.RecComm
	led     *tssfakes.Ledger
	tracker *tssfakes.LiveTracker
}

func newEnv() *env { return newEnvComm(nil) }

// newEnvComm: wrap (if not nil) puts a layer between the coordinator and the recording
// Communication (the tear cases park CloseSession in it).
func newEnvComm(wrap func(*tssfakes.RecComm) comm.Communication) *env {
	led := tssfakes.NewLedger()
	cm := tssfakes.NewRecComm(peers[0], led)
	h := tssfakes.NewFakeHost(peers[0], peers)
	ef := elector.NewCoordinatorElectorFactory(h, relayer.BullyConfig{})
	var cc comm.Communication = cm
	if wrap != nil {
		cc = wrap(cm)
	}
	c := tss.NewCoordinator(h, cc, ef)
	c.CoordinatorTimeout, c.TssTimeout, c.InitiatePeriod = long, long, long
	e := &env{c: c, comm: cm, led: led, tracker: tssfakes.NewLiveTracker()}
	e.answerInitiate()
	return e
}

// answerInitiate installs a peer that answers every initiate message with "ready".
func (e *env) answerInitiate() {
	cm := e.comm
	cm.OnBroadcast = func(_ peer.IDSlice, _ []byte, mt comm.MessageType, sid string) {
		if mt == comm.TssInitiateMsg {
			cm.Deliver(sid, comm.TssReadyMsg, peers[1], []byte{})
		}
	}
}

func (e *env) proc(sid string, coord bool) *tssfakes.RecProcess {
	valid := []peer.ID{peers[1]}
	if coord {
		valid = []peer.ID{peers[0]}
	}
	p := tssfakes.NewRecProcess(sid, valid, 2)
	p.Tracker = e.tracker
	return p
}

// sessLedger: the Broadcast / CloseSession calls for session sid so far, in the order they were made
// (the recording Communication writes both to ONE ledger).
func (e *env) sessLedger(sid string) []string {
	var out []string
	for _, ev := range e.led.Snapshot() {
		if ev.SID != sid {
			continue
		}
		switch ev.Kind {
		case "Bcast":
			out = append(out, "S")
		case "Close":
			out = append(out, "C")
		}
	}
	return out
}

func coqLed(l []string) string {
	out := make([]string, len(l))
	for i, x := range l {
		out[i] = map[string]string{"S": "LSend", "C": "LClose"}[x]
	}
	return vgen.List(out)
}

func retClass(err error) string {
	if err == nil {
		return "nil"
	}
	var ce *tss.CoordinatorError
	switch {
	case strings.Contains(strings.ToLower(err.Error()), "pending"):
		// ("process already pending", however it is worded: "process <id> already pending" ...)
		return "pending"
	case errors.As(err, &ce):
		return "coordinator"
	case strings.Contains(err.Error(), "timed out"):
		return "timeout"
	}
	return "process"
}

// reuse starts the session id again and reports whether it was admitted.
func (e *env) reuse(sid string) bool {
	e.answerInitiate()
	e.c.CoordinatorTimeout, e.c.TssTimeout, e.c.InitiatePeriod = long, long, long
	p := e.proc(sid, true)
	done := make(chan error, 1)
	go func() { done <- e.c.Execute(context.Background(), []tss.TssProcess{p}, make(chan interface{}, 1)) }()
	var err error
	returned := false
	waitFor(func() bool {
		select {
		case err = <-done:
			returned = true
			return true
		default:
		}
		return p.Runs() > 0
	})
	p.Release()
	if !returned {
		var ok bool
		if err, ok = recvErr(done); !ok {
			return false
		}
	}
	return retClass(err) != "pending"
}

// pending reads the pending flag of a session through the hook, with a bounded wait (the hook
// takes the process lock); known = false if the hook cannot tell.
func (e *env) pending(sid string) (pending, known bool) {
	type res struct{ p, k bool }
	ch := make(chan res, 1)
	go func() {
		p, k := e.c.VerifPending(sid)
		ch <- res{p, k}
	}()
	t := time.NewTimer(patience())
	defer t.Stop()
	select {
	case r := <-ch:
		return r.p, r.k
	case <-t.C:
		expired()
		return false, false
	}
}

// ---- conc ---------------------------------------------------------------------------------------

var roundCtr atomic.Int64

func sidName(round int64, s int) string { return fmt.Sprintf("c09r%ds%d", round, s) }

// c09Request is the body of every request goroutine of the admission cases (its name identifies
// these goroutines in a stack dump, see parkedRequests).
//
//go:noinline
func c09Request(c *tss.Coordinator, p *tssfakes.RecProcess, barrier <-chan struct{}, ret chan<- error) {
	<-barrier
	ret <- c.Execute(context.Background(), []tss.TssProcess{p}, make(chan interface{}, 1))
}

func runConc(c Case) Obs {
	e := newEnv()
	n := len(c.Sids)
	round := roundCtr.Add(1)
	ns := 0
	for _, s := range c.Sids {
		if s+1 > ns {
			ns = s + 1
		}
	}
	procs := make([]*tssfakes.RecProcess, n)
	rets := make([]chan error, n)
	for t := range procs {
		procs[t] = e.proc(sidName(round, c.Sids[t]), true)
		rets[t] = make(chan error, 1)
	}
	note := ""
	// decided: every request was refused or its process runs
	got := make([]error, n)
	have := make([]bool, n)
	ndecided := func() int {
		k := 0
		for t := 0; t < n; t++ {
			if !have[t] {
				select {
				case got[t] = <-rets[t]:
					have[t] = true
				default:
				}
			}
			if have[t] || procs[t].Runs() > 0 {
				k++
			}
		}
		return k
	}
	// quiet: no request makes progress any more - each one is decided or parked on some
	// synchronisation primitive inside the coordinator's admission code
	quiet := func() bool { return ndecided()+parkedRequests() >= n }

	barrier := make(chan struct{})
	locked := false
	if c.Gate {
		// play "another Execute call that is inside its critical section"
		locked = e.c.VerifLockProcesses()
		if !locked {
			note = "gate: the coordinator has no process lock to hold; "
		}
	}
	for t := 0; t < n; t++ {
		go c09Request(e.c, procs[t], barrier, rets[t])
	}
	close(barrier)
	if locked {
		if !waitFor(quiet) {
			note += "gate: requests neither decided nor parked; "
		}
		// Hand the lock over in FIFO order: every request has now waited longer than a millisecond;
		// releasing the lock and barging back in makes the woken waiter find it locked again, which
		// puts Go's mutex into starvation mode (direct hand-off to the longest waiter, newcomers
		// queue at the tail).  Every request then passes its first critical section before any of
		// them gets the lock a second time - the adversarial schedule for check-then-act bugs.
		// With a readers-writer lock the same two steps let every reader that waited pass its
		// read-locked section (the second Lock waits for all of them) and queue up for the write lock
		// before the first writer gets it.
		time.Sleep(2 * time.Millisecond)
		again := make(chan struct{})
		release := make(chan struct{})
		go func() { // (a goroutine only so that a lock that never comes back cannot hang the runner)
			e.c.VerifUnlockProcesses()
			e.c.VerifLockProcesses()
			close(again)
			<-release
			e.c.VerifUnlockProcesses()
		}()
		t := time.NewTimer(patience())
		select {
		case <-again:
			time.Sleep(2 * time.Millisecond)
			if !waitFor(quiet) {
				note += "gate: requests neither decided nor parked after the first hand-over; "
			}
		case <-t.C:
			expired()
			note += "gate: the process lock did not come back; "
		}
		t.Stop()
		close(release)
	}
	if !waitFor(func() bool { return ndecided() == n }) {
		note += "undecided; "
	}
	o := Obs{Refused: make([]bool, n), MaxLive: make([]int, ns), PendingAfter: make([]bool, ns), Reuse: make([]bool, ns)}
	for t := 0; t < n; t++ {
		o.Refused[t] = have[t] && retClass(got[t]) == "pending"
	}
	for s := 0; s < ns; s++ {
		o.MaxLive[s] = e.tracker.Max(sidName(round, s))
	}
	for _, p := range procs {
		p.Release()
	}
	for t := 0; t < n; t++ {
		if !have[t] {
			var ok bool
			if got[t], ok = recvErr(rets[t]); !ok {
				note += "stuck; "
			}
		}
	}
	for s := 0; s < ns; s++ {
		pend, known := e.pending(sidName(round, s))
		o.Reuse[s] = e.reuse(sidName(round, s))
		if !known {
			// the hook does not know how this implementation keeps its pending sessions: the flag
			// shows in whether the id is admitted again
			pend = !o.Reuse[s]
		}
		o.PendingAfter[s] = pend
	}
	o.Note = strings.TrimSpace(note)
	return o
}

// ---- storm: free-running contention -------------------------------------------------------------------

// stormRequest: two-stage barrier (a closed channel wakes the goroutines, then each one announces
// itself and spins - yielding, for at most 20 ms - until all have), then Execute.
//
//go:noinline
func stormRequest(c *tss.Coordinator, p *tssfakes.RecProcess, barrier <-chan struct{}, arrived *atomic.Int32, n int32, ret chan<- error) {
	<-barrier
	arrived.Add(1)
	for dl := time.Now().Add(20 * time.Millisecond); arrived.Load() < n && time.Now().Before(dl); {
		runtime.Gosched()
	}
	ret <- c.Execute(context.Background(), []tss.TssProcess{p}, make(chan interface{}, 1))
}

func runStorm(c Case) Obs {
	if c.Procs > 0 {
		defer runtime.GOMAXPROCS(runtime.GOMAXPROCS(c.Procs))
	}
	e := newEnv()
	n := c.N
	sid := sidName(roundCtr.Add(1), 0)
	var o Obs
	for round := 0; round < c.Rounds; round++ {
		tracker := tssfakes.NewLiveTracker()
		procs := make([]*tssfakes.RecProcess, n)
		rets := make([]chan error, n)
		barrier := make(chan struct{})
		var arrived atomic.Int32
		for t := range procs {
			procs[t] = e.proc(sid, true)
			procs[t].Tracker = tracker
			rets[t] = make(chan error, 1)
			go stormRequest(e.c, procs[t], barrier, &arrived, int32(n), rets[t])
		}
		close(barrier)
		got := make([]error, n)
		have := make([]bool, n)
		decided := func() bool {
			k := 0
			for t := 0; t < n; t++ {
				if !have[t] {
					select {
					case got[t] = <-rets[t]:
						have[t] = true
					default:
					}
				}
				if have[t] || procs[t].Runs() > 0 {
					k++
				}
			}
			return k == n
		}
		ok := waitFor(decided)
		refused := make([]bool, n)
		for t := 0; t < n; t++ {
			refused[t] = have[t] && retClass(got[t]) == "pending"
		}
		o.Rounds = append(o.Rounds, Round{Refused: refused, MaxLive: tracker.Max(sid)})
		for _, p := range procs {
			p.Release()
		}
		for t := 0; t < n; t++ {
			if !have[t] {
				if _, back := recvErr(rets[t]); !back {
					ok = false
				}
			}
		}
		if !ok {
			// a request that is neither refused nor running, or an Execute that does not return:
			// recorded as observed (the judge sees the round), no further rounds on this coordinator
			o.Note = fmt.Sprintf("round %d: not every request was decided / returned", round)
			break
		}
	}
	return o
}

// ---- sess ---------------------------------------------------------------------------------------

func msgName(m comm.MessageType) string {
	switch m {
	case comm.TssInitiateMsg:
		return "MInitiate"
	case comm.TssStartMsg:
		return "MStart"
	case comm.TssFailMsg:
		return "MFail"
	case comm.TssReadyMsg:
		return "MReady"
	}
	return fmt.Sprintf("M%d", m)
}

func runSessOnce(c Case, short time.Duration) (Obs, bool) {
	e := newEnv()
	sid := sidName(roundCtr.Add(1), 0)
	coord := c.Role == "coord"
	during := c.Phase == "during"
	switch c.Outcome {
	case "silent":
		e.c.CoordinatorTimeout = short
	case "timeout":
		e.c.TssTimeout = short
	}
	if !during && (c.Outcome == "timeout" || c.Outcome == "cancel") {
		// nobody answers: the coordinator never gets a ready peer
		e.comm.OnBroadcast = nil
	}
	procs := make([]tss.TssProcess, c.NProc)
	recs := make([]*tssfakes.RecProcess, c.NProc)
	for i := range procs {
		recs[i] = e.proc(sid, coord)
		procs[i] = recs[i]
	}
	if c.Outcome == "error" {
		recs[0].RunErr = errors.New("scripted process failure")
	}
	ctx, cancel := context.WithCancel(context.Background())
	defer cancel()
	entry := c.Phase == "entry"
	if entry {
		// the caller has given up before it calls Execute (the executor cancelled its execution context:
		// the proposal is already executed; a shared pool context cancelled by a sibling task; a deadline
		// that has passed)
		if c.Ctx == "deadline" {
			var c2 context.CancelFunc
			ctx, c2 = context.WithDeadline(ctx, time.Now().Add(-time.Second))
			defer c2()
		} else {
			cancel()
		}
	}
	done := make(chan error, 1)
	go func() { done <- e.c.Execute(ctx, procs, make(chan interface{}, 4)) }()

	started := func() bool { // every process is inside Run
		for _, r := range recs {
			if r.Runs() == 0 {
				return false
			}
		}
		return true
	}
	wantRun := c.Outcome == "success" || c.Outcome == "error" || ((c.Outcome == "timeout" || c.Outcome == "cancel") && during)
	ok := true
	if wantRun {
		if !coord {
			// the coordinator's initiate and start messages
			waitFor(func() bool { return e.comm.Subscribers(sid, comm.TssStartMsg) >= 1 })
			e.comm.Deliver(sid, comm.TssInitiateMsg, peers[1], []byte{})
			sm, _ := tssmsg.MarshalStartMessage([]byte{})
			e.comm.Deliver(sid, comm.TssStartMsg, peers[1], sm)
		}
		var early error
		gotEarly := false
		waitFor(func() bool {
			select {
			case early = <-done:
				gotEarly = true
				return true
			default:
			}
			return started()
		})
		if gotEarly {
			// the timeout struck before the processes were started: not the schedule asked for
			done <- early
			ok = false
		}
	} else if !entry {
		// make sure the wait loop is established before striking
		if coord {
			waitFor(func() bool { return e.comm.Subscribers(sid, comm.TssReadyMsg) >= 1 })
		} else {
			waitFor(func() bool { return e.comm.Subscribers(sid, comm.TssStartMsg) >= 1 })
		}
		waitFor(func() bool { return e.comm.Subscribers(sid, comm.TssFailMsg) >= 1 })
	}
	switch c.Outcome {
	case "success", "error":
		for _, r := range recs {
			r.Release()
		}
	case "cancel":
		cancel()
	}
	err, back := recvErr(done)
	if !back {
		return Obs{Note: "Execute did not return"}, true
	}
	o := Obs{Ret: retClass(err), LiveAfter: e.tracker.TotalLive()}
	pendingAfter, pendingKnown := e.pending(sid)
	for _, ev := range e.led.Snapshot() {
		if ev.SID != sid && ev.Kind != "Unsub" {
			continue
		}
		switch ev.Kind {
		case "Sub":
			o.Evs = append(o.Evs, "ESub "+msgName(ev.Msg))
		case "Unsub":
			o.Evs = append(o.Evs, "EUnsub "+msgName(ev.Msg))
		case "Close":
			o.Evs = append(o.Evs, "EClose")
		}
	}
	for i, r := range recs {
		for k := 0; k < r.Runs(); k++ {
			o.Evs = append(o.Evs, fmt.Sprintf("ERun %d", i))
		}
		for k := 0; k < r.Stops(); k++ {
			o.Evs = append(o.Evs, fmt.Sprintf("EStop %d", i))
		}
	}
	o.Led = e.sessLedger(sid)
	o.ReuseOK = e.reuse(sid)
	if !pendingKnown {
		pendingAfter = !o.ReuseOK
	}
	o.Evs = append(o.Evs, "EPend "+vgen.Bool(pendingAfter))
	return o, ok
}

func runSess(c Case) Obs {
	short := 30 * time.Millisecond
	if c.Phase == "during" && c.Outcome == "timeout" {
		short = 250 * time.Millisecond
	}
	var o Obs
	for try := 0; try < 4; try++ {
		var ok bool
		o, ok = runSessOnce(c, short)
		if ok {
			return o
		}
		short *= 4 // the machine was too slow for the intended schedule: allow more time
	}
	o.Note = "schedule not reached"
	return o
}

// ---- streams ------------------------------------------------------------------------------------

const nS, nP = 3, 3

func runStreams(c Case) Obs {
	sm := p2p.NewStreamManager()
	nx := 0
	for _, op := range c.Ops {
		if op.Op == "add" && op.X+1 > nx {
			nx = op.X + 1
		}
	}
	streams := make([]*tssfakes.MockStream, nx)
	for i := range streams {
		streams[i] = &tssfakes.MockStream{Name: fmt.Sprint(i)}
		if i < len(c.Fails) && c.Fails[i] {
			streams[i].CloseErr = errors.New("stream reset")
		}
	}
	index := func(s network.Stream) *int {
		for i, m := range streams {
			if network.Stream(m) == s {
				k := i
				return &k
			}
		}
		k := -1
		return &k
	}
	sidOf := func(s int) string { return fmt.Sprintf("session%d", s) }
	snap := func() [][]*int {
		out := make([][]*int, nS)
		for s := 0; s < nS; s++ {
			out[s] = make([]*int, nP)
			for p := 0; p < nP; p++ {
				if st, err := sm.Stream(sidOf(s), peers[p]); err == nil {
					out[s][p] = index(st)
				}
			}
		}
		return out
	}
	closes := func() []int {
		out := make([]int, nx)
		for i, m := range streams {
			out[i] = m.Closes()
		}
		return out
	}
	var o Obs
	for _, op := range c.Ops {
		switch op.Op {
		case "add":
			sm.AddStream(sidOf(op.S), peers[op.P], streams[op.X])
			o.SObs = append(o.SObs, SObs{})
		case "get":
			so := SObs{IsGet: true}
			if st, err := sm.Stream(sidOf(op.S), peers[op.P]); err == nil {
				so.Got = index(st)
			}
			o.SObs = append(o.SObs, so)
		case "release":
			so := SObs{IsRel: true, Before: snap(), CB: closes()}
			sm.ReleaseStreams(sidOf(op.S))
			so.After, so.CA = snap(), closes()
			o.SObs = append(o.SObs, so)
		}
	}
	return o
}

// ---- race (thorough tier): the same admission rounds in a child built with the race detector ---

func raceChild(rounds int) {
	r := vgen.NewRng(uint64(rounds) + 17)
	for i := 0; i < rounds; i++ {
		n := r.Range(2, 8)
		sids := make([]int, n)
		for t := range sids {
			sids[t] = r.Intn(2)
		}
		runConc(Case{Kind: "conc", Sids: sids})
	}
	runStorm(Case{Kind: "storm", N: 8, Rounds: rounds})
	// sessions with several processes: the loops that hand each process of a batch to a pool / stop it
	raceBatch(max(40, rounds/3))
}

func runRace(c Case) Obs {
	exe, note := buildRace()
	if exe == "" {
		return Obs{Note: note}
	}
	// (bounded: a child that hangs on a changed implementation is killed; what it printed so far counts)
	rctx, rcancel := context.WithTimeout(context.Background(), 90*time.Second+time.Duration(c.Rounds)*200*time.Millisecond)
	defer rcancel()
	run := exec.CommandContext(rctx, exe)
	run.WaitDelay = 5 * time.Second
	run.Env = append(os.Environ(), fmt.Sprintf("VERIF_C09_RACE_CHILD=%d", c.Rounds), "GORACE=halt_on_error=0 exitcode=66")
	out, err := run.CombinedOutput()
	races, first := raceReports(string(out))
	o := Obs{MaxLive: []int{races}}
	if err != nil && races == 0 {
		o.Note = "race child failed: " + tail(string(out), 400)
	} else if races > 0 {
		o.Note = first
	}
	return o
}

// ---- the race children as futures -------------------------------------------------------------------

var (
	raceFutMu sync.Mutex
	raceFuts  = map[string]chan Obs{}
)

func raceKey(c Case) string { return fmt.Sprintf("%s/%d/%d", c.Kind, c.Workers, c.Rounds) }

func prefetchRaces(cs []Case) {
	raceFutMu.Lock()
	defer raceFutMu.Unlock()
	var chs []chan Obs
	for _, c := range cs {
		ch := make(chan Obs, 1)
		raceFuts[raceKey(c)] = ch
		chs = append(chs, ch)
	}
	go func() {
		for i, c := range cs {
			if c.Kind == "race" {
				chs[i] <- runRace(c)
			} else {
				chs[i] <- runRaceComm(c)
			}
		}
	}()
}

// raceFuture: the result of the prefetched child if this very case was planned, a fresh run otherwise
// (replays).
func raceFuture(c Case, direct func(Case) Obs) Obs {
	raceFutMu.Lock()
	ch, ok := raceFuts[raceKey(c)]
	delete(raceFuts, raceKey(c))
	raceFutMu.Unlock()
	if ok {
		return <-ch
	}
	return direct(c)
}

func tail(s string, n int) string {
	if len(s) > n {
		return s[len(s)-n:]
	}
	return s
}

// ---- dispatch, generation, printing ---------------------------------------------------------------

func run(c Case) Obs {
	switch c.Kind {
	case "conc":
		return runConc(c)
	case "sess":
		return runSess(c)
	case "streams":
		return runStreams(c)
	case "race":
		return raceFuture(c, runRace)
	case "storm":
		return runStorm(c)
	case "comm":
		return runComm(c)
	case "tear":
		return runTear(c)
	case "commw":
		return runCommW(c)
	case "racecomm":
		return raceFuture(c, runRaceComm)
	case "srace":
		return runSRace(c)
	case "long":
		return runLongFuture(c)
	case "batch":
		return runBatch(c)
	case "hist":
		return runHist(c)
	}
	panic("unknown kind " + c.Kind)
}

func completeSchedule(r *vgen.Rng, n int) []int {
	var s []int
	for t := 0; t < n; t++ {
		for k := 0; k < 5; k++ {
			s = append(s, t)
		}
	}
	r.Shuffle(len(s), func(i, j int) { s[i], s[j] = s[j], s[i] })
	for pass := 0; pass < 4*n+4; pass++ {
		for t := 0; t < n; t++ {
			s = append(s, t)
		}
	}
	return s
}

func gen(r *vgen.Rng, tier string) []Case {
	var out []Case
	// (gen runs once, before the first case: a normal quick run takes about 20 s)
	if tier == "thorough" {
		startWatchdog(40 * time.Minute)
	} else {
		startWatchdog(4 * time.Minute)
	}
	// sessions that outlive the TSS timeout (they mostly sleep: started together, in the background)
	out = append(out, genLong(tier)...)
	// registration of streams concurrent with the release of their session
	out = append(out, genSRace(r, tier)...)
	rounds := 4
	nstreams := 120
	if tier == "thorough" {
		rounds, nstreams = 40, 1500
	}
	for round := 0; round < rounds; round++ {
		for n := 2; n <= 8; n++ {
			for _, shape := range []string{"equal", "distinct", "mixed"} {
				for _, gate := range []bool{true, false} {
					sids := make([]int, n)
					for t := range sids {
						switch shape {
						case "distinct":
							sids[t] = t
						case "mixed":
							sids[t] = r.Intn(3)
						}
					}
					out = append(out, Case{Kind: "conc", Sids: sids, Gate: gate, Sched: completeSchedule(r, n)})
				}
			}
		}
	}
	for np := 1; np <= 3; np++ {
		for _, role := range []string{"coord", "peer"} {
			for _, oc := range []string{"success", "error", "silent", "timeout", "cancel"} {
				for _, ph := range []string{"before", "during"} {
					if oc == "silent" && (role == "coord" || ph == "during") {
						continue
					}
					if (oc == "success" || oc == "error") && ph == "before" {
						continue
					}
					if oc == "timeout" && ph == "during" && np > 1 && tier != "thorough" {
						continue // each costs a quarter of a second
					}
					out = append(out, Case{Kind: "sess", Role: role, Outcome: oc, Phase: ph, NProc: np})
				}
				if oc == "cancel" {
					// the state in which Execute is ENTERED: the context is already cancelled / past its deadline
					out = append(out, Case{Kind: "sess", Role: role, Outcome: oc, Phase: "entry", NProc: np},
						Case{Kind: "sess", Role: role, Outcome: oc, Phase: "entry", Ctx: "deadline", NProc: np})
				}
			}
		}
	}
	for i := 0; i < nstreams; i++ {
		var ops []StreamOp
		nx := 0
		for k, m := 0, r.Range(4, 24); k < m; k++ {
			switch r.Intn(6) {
			case 0, 1, 2:
				ops = append(ops, StreamOp{Op: "add", S: r.Intn(nS), P: r.Intn(nP), X: nx})
				nx++
			case 3, 4:
				ops = append(ops, StreamOp{Op: "get", S: r.Intn(nS), P: r.Intn(nP)})
			case 5:
				s := r.Intn(nS)
				ops = append(ops, StreamOp{Op: "release", S: s})
				if r.Bool() {
					// the next run of the same session id: fresh streams for some of its peers
					for p := 0; p < nP; p++ {
						if r.Bool() {
							ops = append(ops, StreamOp{Op: "add", S: s, P: p, X: nx}, StreamOp{Op: "get", S: s, P: p})
							nx++
						}
					}
				}
			}
		}
		for pass := 0; pass < 2; pass++ { // (the second release of a session finds nothing left)
			for s := 0; s < nS; s++ {
				ops = append(ops, StreamOp{Op: "release", S: s})
			}
		}
		c := Case{Kind: "streams", Ops: ops}
		// two thirds of the cases: some (a third, a half, all) of the streams fail to close
		if mode := i % 6; mode >= 2 && nx > 0 {
			c.Fails = make([]bool, nx)
			for x := range c.Fails {
				switch mode {
				case 2, 3:
					c.Fails[x] = r.Intn(3) == 0
				case 4:
					c.Fails[x] = r.Bool()
				case 5:
					c.Fails[x] = true
				}
			}
		}
		out = append(out, c)
	}
	// the real Libp2pCommunication: sends (each opens the stream of its (session, peer) on first
	// use) and CloseSessions; every session is closed twice at the end
	ncomm := 60
	if tier == "thorough" {
		ncomm = 800
	}
	for i := 0; i < ncomm; i++ {
		var ops []CommOp
		sends := 0
		for k, m := 0, r.Range(5, 30); k < m; k++ {
			if r.Intn(10) < 7 {
				ops = append(ops, CommOp{Op: "send", S: r.Intn(3), P: r.Range(1, nCP-1)})
				sends++
			} else {
				s := r.Intn(3)
				ops = append(ops, CommOp{Op: "close", S: s})
				if r.Bool() { // the same session id is started again
					for p := 1; p < nCP; p++ {
						if r.Bool() {
							ops = append(ops, CommOp{Op: "send", S: s, P: p})
							sends++
						}
					}
				}
			}
		}
		for pass := 0; pass < 2; pass++ {
			for s := 0; s < 3; s++ {
				ops = append(ops, CommOp{Op: "close", S: s})
			}
		}
		c := Case{Kind: "comm", COps: ops}
		if mode := i % 6; mode >= 2 && sends > 0 {
			c.Fails = make([]bool, sends)
			for x := range c.Fails {
				switch mode {
				case 2, 3:
					c.Fails[x] = r.Intn(3) == 0
				case 4:
					c.Fails[x] = r.Bool()
				case 5:
					c.Fails[x] = true
				}
			}
		}
		out = append(out, c)
	}
	// admission versus teardown: every way a session can end x 1..3 processes x every point at which
	// its teardown can be parked (inside CloseSession, inside Stop of each process)
	for np := 1; np <= 3; np++ {
		for _, role := range []string{"coord", "peer"} {
			for _, oc := range []struct{ o, ph string }{{"success", "during"}, {"error", "during"}, {"cancel", "during"},
				{"cancel", "before"}, {"timeout", "before"}, {"silent", "before"}} {
				if oc.o == "silent" && role == "coord" {
					continue
				}
				if tier != "thorough" && np == 3 && (oc.o == "timeout" || oc.o == "silent") {
					continue
				}
				for at := 0; at <= np; at++ {
					out = append(out, Case{Kind: "tear", Role: role, Outcome: oc.o, Phase: oc.ph, NProc: np, At: at})
				}
			}
		}
	}
	// the real Libp2pCommunication with faults at the streams
	ncommw := 90
	if tier == "thorough" {
		ncommw = 1200
	}
	for i := 0; i < ncommw; i++ {
		out = append(out, genCommW(r, i%3))
	}
	// free-running contention on one session id, with different numbers of OS threads
	stormRounds := 400
	if tier == "thorough" {
		stormRounds = 4000
	}
	for _, procs := range []int{0, 8, 4, 2} {
		out = append(out, Case{Kind: "storm", N: 8, Rounds: stormRounds, Procs: procs})
	}
	for n := 2; n <= 7; n++ {
		out = append(out, Case{Kind: "storm", N: n, Rounds: stormRounds / 8, Procs: 0})
	}
	// sessions with a batch of processes; long histories on one coordinator
	out = append(out, genBatch(r, tier)...)
	out = append(out, genHist(r, tier)...)
	var races []Case
	if tier == "thorough" {
		races = append(races, Case{Kind: "race", Rounds: 600})
		races = append(races, Case{Kind: "racecomm", Workers: 16, Rounds: 600})
	} else {
		races = append(races, Case{Kind: "race", Rounds: 120})
		races = append(races, Case{Kind: "racecomm", Workers: 12, Rounds: 120})
	}
	// the race-enabled child is built and run in the background from the start of the run (its results
	// are collected when the cases are reached)
	prefetchRaces(races)
	out = append(out, races...)
	return out
}

func optN(p *int) string {
	if p == nil {
		return "None"
	}
	if *p < 0 {
		return "(Some 999999%nat)"
	}
	return vgen.Some(vgen.Nat(*p))
}
func rows(b [][]*int) string {
	return vgen.ListOf(b, func(r []*int) string { return vgen.ListOf(r, optN) })
}

func coq(c Case, o Obs) string {
	switch c.Kind {
	case "conc":
		n := len(c.Sids)
		sched := vgen.ListOf(c.Sched, func(t int) string { return "Step " + vgen.Nat(t) })
		var fin []string
		for t := 0; t < n; t++ {
			fin = append(fin, "Fin "+vgen.Nat(t))
		}
		for pass := 0; pass < 3*n+3; pass++ {
			for t := 0; t < n; t++ {
				fin = append(fin, "Step "+vgen.Nat(t))
			}
		}
		return "Conc " + vgen.ListOf(c.Sids, vgen.Nat) + " " + sched + " " + vgen.List(fin) + " " +
			vgen.ListOf(o.Refused, vgen.Bool) + " " + vgen.ListOf(o.MaxLive, vgen.Nat) + " " +
			vgen.ListOf(o.PendingAfter, vgen.Bool) + " " + vgen.ListOf(o.Reuse, vgen.Bool)
	case "race":
		races := 0
		if len(o.MaxLive) > 0 {
			races = o.MaxLive[0]
		}
		ran := o.Note == "" || races > 0
		return "Race " + vgen.Nat(c.Rounds) + " " + vgen.Nat(races) + " " + vgen.Bool(ran)
	case "sess":
		role := map[string]string{"coord": "Coord", "peer": "Peer"}[c.Role]
		oc := map[string]string{"success": "Success", "error": "ProcessError", "silent": "CoordinatorSilent",
			"timeout": "GlobalTimeout", "cancel": "Cancelled"}[c.Outcome]
		ph := map[string]string{"before": "BeforeStart", "during": "DuringRun", "": "BeforeStart", "entry": "BeforeEntry"}[c.Phase]
		ret := map[string]string{"nil": "RNil", "pending": "RPending", "coordinator": "RCoordinatorErr",
			"timeout": "RTimeout", "process": "RProcessErr", "": "RPending"}[o.Ret]
		evs := make([]string, len(o.Evs))
		for i, e := range o.Evs {
			parts := strings.SplitN(e, " ", 2)
			if len(parts) == 2 && (parts[0] == "ERun" || parts[0] == "EStop") {
				e = parts[0] + " " + parts[1] + "%nat"
			}
			evs[i] = e
		}
		return "Sess " + role + " " + oc + " " + ph + " " + vgen.Nat(c.NProc) + " " + vgen.List(evs) + " " + ret +
			" " + vgen.Nat(o.LiveAfter) + " " + vgen.Bool(o.ReuseOK) + " " + coqLed(o.Led)
	case "streams":
		nx := 0
		ops := make([]string, len(c.Ops))
		for i, op := range c.Ops {
			switch op.Op {
			case "add":
				ops[i] = fmt.Sprintf("OAdd %d%%nat %d%%nat %d%%nat", op.S, op.P, op.X)
				if op.X+1 > nx {
					nx = op.X + 1
				}
			case "get":
				ops[i] = fmt.Sprintf("OGet %d%%nat %d%%nat", op.S, op.P)
			case "release":
				ops[i] = fmt.Sprintf("ORelease %d%%nat", op.S)
			}
		}
		obs := vgen.ListOf(o.SObs, func(s SObs) string {
			switch {
			case s.IsGet:
				return "SGot " + optN(s.Got)
			case s.IsRel:
				return "SRel " + rows(s.Before) + " " + rows(s.After) + " " + vgen.ListOf(s.CB, vgen.Nat) + " " + vgen.ListOf(s.CA, vgen.Nat)
			}
			return "SNone"
		})
		fails := make([]bool, nx)
		copy(fails, c.Fails)
		return fmt.Sprintf("Streams %d%%nat %d%%nat %d%%nat ", nS, nP, nx) + vgen.ListOf(fails, vgen.Bool) + " " + vgen.List(ops) + " " + obs
	case "comm":
		ops := vgen.ListOf(c.COps, func(op CommOp) string {
			if op.Op == "send" {
				return fmt.Sprintf("CSend %d%%nat %d%%nat", op.S, op.P)
			}
			return fmt.Sprintf("CClose %d%%nat", op.S)
		})
		obs := vgen.ListOf(o.CObs, func(b CObs) string {
			if b.IsSend {
				x := noStream
				if b.Wrote != nil && !b.Err {
					x = *b.Wrote
				}
				return "CWrote " + vgen.Nat(x)
			}
			return "CClosed " + vgen.ListOf(b.Closed, vgen.Nat)
		})
		return fmt.Sprintf("Comm %d%%nat ", nCP) + vgen.ListOf(c.Fails, vgen.Bool) + " " + ops + " " + obs
	case "tear":
		t := o.Tear
		if t == nil {
			t = &TearObs{}
		}
		dec := func(d string) string {
			return map[string]string{"refused": "TRefused", "admitted": "TAdmitted", "waited": "TWaited", "": "TWaited"}[d]
		}
		return "Tear " + vgen.Nat(c.NProc) + " " + vgen.Nat(c.At) + " " + vgen.Bool(t.Parked) + " " + dec(t.Dec) + " " + dec(t.Final) +
			" " + vgen.Nat(t.ClosedBefore) + " " + vgen.ListOf(t.StopsBefore, vgen.Nat) + " " + vgen.Nat(t.Late) + " " + vgen.Nat(t.LiveAtB) +
			" " + vgen.Bool(t.RetParked) + " " + vgen.ListOf(t.StopsAfter, vgen.Nat) + " " + vgen.Nat(t.Closes) +
			" " + vgen.Bool(t.Third) + " " + vgen.Bool(t.PendAfter)
	case "commw":
		var ops []string
		for _, op := range c.WOps {
			if op.Op == "send" {
				for j, p := range op.Ps {
					ops = append(ops, fmt.Sprintf("WSend %d%%nat %d%%nat %s", op.S, p, vgen.Bool(op.Scr[j].OpenFail)))
				}
			} else {
				ops = append(ops, fmt.Sprintf("WClose %d%%nat", op.S))
			}
		}
		obs := vgen.ListOf(o.WObs, func(b WObs) string {
			if b.IsSend {
				return "WSent " + vgen.ListOf(b.Opened, vgen.Nat) + " " + vgen.ListOf(b.Wrote, vgen.Nat) + " " + vgen.ListOf(b.Released, vgen.Nat)
			}
			return "WClosed " + vgen.ListOf(b.Released, vgen.Nat)
		})
		return fmt.Sprintf("CommW %d%%nat 3%%nat ", nCP) + vgen.ListOf(o.WFirstFail, vgen.Bool) + " " + vgen.List(ops) + " " + obs
	case "racecomm":
		rc := o.RC
		if rc == nil {
			rc = &RaceCommObs{}
		}
		return "RaceComm " + vgen.Nat(c.Workers) + " " + vgen.Nat(c.Rounds) + " " + vgen.Nat(rc.Reports) + " " + vgen.Nat(rc.Leftover) +
			" " + vgen.Nat(rc.Unreleased) + " " + vgen.Nat(rc.Sessions) + " " + vgen.Bool(rc.Ran)
	case "srace":
		sr := o.SR
		if sr == nil {
			sr = &SRaceObs{}
		}
		nx := len(sr.Closed)
		var ops []string
		lin := sr.Lin
		// (the final releases of every session are the model's own: ops ++ release_all S)
		if len(lin) >= srS && sr.Note == "" {
			lin = lin[:len(lin)-srS]
		}
		for _, op := range lin {
			switch op.Op {
			case "add":
				ops = append(ops, fmt.Sprintf("OAdd %d%%nat %d%%nat %d%%nat", op.S, op.P, op.X))
				if op.X+1 > nx {
					nx = op.X + 1
				}
			case "get":
				ops = append(ops, fmt.Sprintf("OGet %d%%nat %d%%nat", op.S, op.P))
			case "release":
				ops = append(ops, fmt.Sprintf("ORelease %d%%nat", op.S))
			}
		}
		closed := make([]int, nx)
		copy(closed, sr.Closed)
		return fmt.Sprintf("SRace %d%%nat %d%%nat %d%%nat ", srS, srP, nx) + vgen.List(ops) + " " + vgen.ListOf(closed, vgen.Nat) + " " + rows(sr.Left) +
			" " + vgen.Bool(sr.Note == "")
	case "long":
		lo := o.Long
		if lo == nil {
			lo = &LongObs{}
		}
		ek := map[string]int{"subset": 0, "comm": 1, "tss": 2, "coordinator": 3}[c.Err]
		return "Long " + vgen.Nat(ek) + " " + vgen.Bool(c.When == "late") + " " + vgen.Bool(lo.Reached) + " " + vgen.Bool(lo.FirstLive) + " " +
			vgen.Bool(lo.DupAdmitted) + " " + vgen.Nat(lo.MaxLive) + " " + vgen.Bool(lo.PendAfter) + " " + vgen.Bool(lo.Reuse) + " " + coqLed(o.Led)
	case "batch":
		return coqBatch(c, o)
	case "hist":
		return coqHist(c, o)
	case "storm":
		return "Storm " + vgen.Nat(c.N) + " " + vgen.ListOf(o.Rounds, func(r Round) string {
			return vgen.Pair(vgen.ListOf(r.Refused, vgen.Bool), vgen.Nat(r.MaxLive))
		})
	}
	panic("kind")
}

func kind(c Case) string {
	switch c.Kind {
	case "conc":
		seen := map[int]bool{}
		dup := false
		for _, s := range c.Sids {
			if seen[s] {
				dup = true
			}
			seen[s] = true
		}
		k := "conc/distinct"
		if dup {
			k = "conc/equal-ids"
		}
		if c.Gate {
			k += "/gated"
		}
		return k
	case "sess":
		if c.Ctx != "" {
			return "sess/" + c.Outcome + "/" + c.Phase + "-" + c.Ctx + "/" + c.Role
		}
		return "sess/" + c.Outcome + "/" + c.Phase + "/" + c.Role
	case "streams":
		for _, f := range c.Fails {
			if f {
				return "streams/close-fails"
			}
		}
	case "storm":
		return fmt.Sprintf("storm/n%d/procs%d", c.N, c.Procs)
	case "comm":
		for _, f := range c.Fails {
			if f {
				return "comm/close-fails"
			}
		}
	case "tear":
		if c.At == 0 {
			return "tear/in-close-session/" + c.Outcome + map[string]string{"entry": "-entry"}[c.Phase]
		}
		return "tear/in-stop/" + c.Outcome + map[string]string{"entry": "-entry"}[c.Phase]
	case "srace":
		return "srace/" + c.Level
	case "long":
		return "long/" + c.Err + "/" + c.When
	case "batch":
		return kindBatch(c)
	case "hist":
		return "hist"
	case "commw":
		k := "commw"
		of, wf := false, false
		for _, op := range c.WOps {
			for _, sc := range op.Scr {
				of = of || sc.OpenFail
				wf = wf || sc.FailFrom > 0
			}
		}
		if wf {
			k += "/write-fails"
		}
		if of {
			k += "/open-fails"
		}
		return k
	}
	return c.Kind
}

func main() {
	zerolog.SetGlobalLevel(zerolog.Disabled)
	if v := os.Getenv("VERIF_C09_RACECOMM_CHILD"); v != "" {
		raceCommChild(v)
		return
	}
	if v := os.Getenv("VERIF_C09_RACE_CHILD"); v != "" {
		var n int
		fmt.Sscan(v, &n)
		raceChild(n)
		return
	}
	vgen.Main(vgen.Spec[Case, Obs]{
		Property:  "C09",
		RunModule: "C09",
		Gen:       gen,
		Run:       run,
		Coq:       coq,
		Kind:      kind,
		ShardSize: 120,
		NonTrivial: func(c Case, o Obs) bool {
			switch c.Kind {
			case "conc":
				return kind(c) != "conc/distinct"
			case "streams":
				return len(c.Ops) > 6
			case "comm":
				return len(c.COps) > 8
			case "commw":
				return len(c.WOps) > 8
			}
			return true
		},
		Rule: "admission: 2..8 overlapping Execute calls x {equal, distinct, mixed session ids} x {natural schedule, all requests held until none makes progress, then let through one critical section at a time}; storm: hundreds of rounds of 2..8 free-running requests for one session id released by a barrier, with 16/8/4/2 OS threads; sessions: role x outcome x phase x 1..3 processes, each followed by a restart of the same id, incl. the context that is already cancelled / past its deadline when Execute is called (phase entry); comm: random sequences of single-peer Broadcasts and CloseSessions on the real Libp2pCommunication over a fake host (two thirds with streams whose Close fails); tear: role x outcome x 1..3 processes x every point at which the teardown can be parked (inside CloseSession, inside Stop of each process), a second request for the same id issued there, a third after everything ended; commw: random sequences of Broadcasts to 1..3 peers and CloseSessions on the real Libp2pCommunication with scripted NewStream failures, failing first / later writes and failing Close (a third fault free); racecomm: 12 goroutines x 120 session lifetimes on one real Libp2pCommunication value plus sessions of the real Execute on it, under the race detector; streams: random AddStream/Stream/ReleaseStreams sequences on the real StreamManager, two thirds of them with streams whose Close fails, releases followed by fresh streams for the same session id; batch: ONE session with 2..6 scripted process objects (per object: Run calls, simultaneous Runs, Stop calls; Run returning at once / staying inside, per process) x role x {success, process error at a random position, cancelled before / during / before entry, global timeout, silent coordinator, retried batch, refused duplicate batch} x {GOMAXPROCS(1), scheduler untouched}, a duplicate batch requested while the session is live, the same batches in the -race child; hist: 127..1025 (and random 300..600) quick sequential sessions with distinct ids and mixed outcomes on ONE coordinator, every other history with a burst of as many refused duplicates of a live session in its middle, then probes with new and ended ids; distinct = distinct input JSON; non-trivial = admission cases with at least two requests for one id, every session case, stream cases with more than 6 operations",
	})
}
