// C09 correspondence runner: drives the REAL tss.Coordinator.Execute (admission of concurrent
// requests, the five ways a session can end, re-use of the session id) and the REAL
// p2p.StreamManager, over the fakes of verifharness/tssfakes.
package main

import (
	"context"
	"errors"
	"fmt"
	"os"
	"os/exec"
	"path/filepath"
	"runtime"
	"strings"
	"sync/atomic"
	"time"

	"github.com/ChainSafe/sygma-relayer/comm"
	"github.com/ChainSafe/sygma-relayer/comm/elector"
	"github.com/ChainSafe/sygma-relayer/comm/p2p"
	"github.com/ChainSafe/sygma-relayer/config/relayer"
	"github.com/ChainSafe/sygma-relayer/tss"
	tssmsg "github.com/ChainSafe/sygma-relayer/tss/message"
	"github.com/libp2p/go-libp2p/core/network"
	"github.com/libp2p/go-libp2p/core/peer"
	"github.com/rs/zerolog"

	"verifharness/tssfakes"
	"verifharness/vgen"
)

// ---- case / observation -----------------------------------------------------------------------

type StreamOp struct {
	Op string `json:"op"` // add | get | release
	S  int    `json:"s"`
	P  int    `json:"p,omitempty"`
	X  int    `json:"x,omitempty"` // add: stream number
}

type Case struct {
	Kind string `json:"kind"` // conc | sess | streams | race
	// conc: request t asks for session id Sids[t]; Gate = hold the process lock (as a concurrent
	// Execute inside its critical section would) until every request is blocked on it
	Sids  []int `json:"sids,omitempty"`
	Gate  bool  `json:"gate,omitempty"`
	Sched []int `json:"sched,omitempty"` // model schedule (thread ids), complete
	// sess
	Role    string `json:"role,omitempty"`    // coord | peer
	Outcome string `json:"outcome,omitempty"` // success | error | silent | timeout | cancel
	Phase   string `json:"phase,omitempty"`   // before | during
	NProc   int    `json:"nproc,omitempty"`
	// streams
	Ops []StreamOp `json:"ops,omitempty"`
	// race: Rounds rounds of free-running conc cases in a child process built with -race
	Rounds int `json:"rounds,omitempty"`
}

type SObs struct {
	Got    *int     `json:"got,omitempty"`
	IsGet  bool     `json:"is_get,omitempty"`
	IsRel  bool     `json:"is_rel,omitempty"`
	Before [][]*int `json:"before,omitempty"`
	After  [][]*int `json:"after,omitempty"`
	CB     []int    `json:"cb,omitempty"`
	CA     []int    `json:"ca,omitempty"`
}

type Obs struct {
	// conc
	Refused      []bool `json:"refused,omitempty"`
	MaxLive      []int  `json:"maxlive,omitempty"`
	PendingAfter []bool `json:"pending_after,omitempty"`
	Reuse        []bool `json:"reuse,omitempty"`
	Note         string `json:"note,omitempty"`
	// sess
	Evs       []string `json:"evs,omitempty"`
	Ret       string   `json:"ret,omitempty"`
	LiveAfter int      `json:"live_after,omitempty"`
	ReuseOK   bool     `json:"reuse_ok,omitempty"`
	// streams
	SObs []SObs `json:"sobs,omitempty"`
}

// ---- environment --------------------------------------------------------------------------------

const long = time.Hour

var peers = tssfakes.PeerIDs(3)

type env struct {
	c       *tss.Coordinator
	comm    *tssfakes.RecComm
	led     *tssfakes.Ledger
	tracker *tssfakes.LiveTracker
}

func newEnv() *env {
	led := tssfakes.NewLedger()
	cm := tssfakes.NewRecComm(peers[0], led)
	h := tssfakes.NewFakeHost(peers[0], peers)
	ef := elector.NewCoordinatorElectorFactory(h, relayer.BullyConfig{})
	c := tss.NewCoordinator(h, cm, ef)
	c.CoordinatorTimeout, c.TssTimeout, c.InitiatePeriod = long, long, long
	e := &env{c: c, comm: cm, led: led, tracker: tssfakes.NewLiveTracker()}
	e.answerInitiate()
	return e
}

// answerInitiate installs a peer that answers every initiate message with "ready".
func (e *env) answerInitiate() {
	cm := e.comm
	cm.OnBroadcast = func(_ peer.IDSlice, _ []byte, mt comm.MessageType, sid string) {
		if mt == comm.TssInitiateMsg {
			cm.Deliver(sid, comm.TssReadyMsg, peers[1], []byte{})
		}
	}
}

func (e *env) proc(sid string, coord bool) *tssfakes.RecProcess {
	valid := []peer.ID{peers[1]}
	if coord {
		valid = []peer.ID{peers[0]}
	}
	p := tssfakes.NewRecProcess(sid, valid, 2)
	p.Tracker = e.tracker
	return p
}

func retClass(err error) string {
	if err == nil {
		return "nil"
	}
	var ce *tss.CoordinatorError
	switch {
	case strings.Contains(err.Error(), "process already pending"):
		return "pending"
	case errors.As(err, &ce):
		return "coordinator"
	case strings.Contains(err.Error(), "timed out"):
		return "timeout"
	}
	return "process"
}

// goroutines blocked in processLock.Lock() called directly from Coordinator.Execute
func blockedInExecute() int {
	buf := make([]byte, 4<<20)
	n := runtime.Stack(buf, true)
	cnt := 0
	for _, g := range strings.Split(string(buf[:n]), "\n\n") {
		lines := strings.Split(g, "\n")
		for i := 1; i+2 < len(lines); i += 2 {
			if strings.HasPrefix(lines[i], "sync.(*Mutex).Lock") {
				if strings.Contains(lines[i+2], "tss.(*Coordinator).Execute(") {
					cnt++
				}
				break
			}
		}
	}
	return cnt
}

// reuse starts the session id again and reports whether it was admitted.
func (e *env) reuse(sid string) bool {
	e.answerInitiate()
	e.c.CoordinatorTimeout, e.c.TssTimeout, e.c.InitiatePeriod = long, long, long
	p := e.proc(sid, true)
	done := make(chan error, 1)
	go func() { done <- e.c.Execute(context.Background(), []tss.TssProcess{p}, make(chan interface{}, 1)) }()
	var err error
	returned := false
	tssfakes.WaitFor(20*time.Second, func() bool {
		select {
		case err = <-done:
			returned = true
			return true
		default:
		}
		return p.Runs() > 0
	})
	p.Release()
	if !returned {
		select {
		case err = <-done:
		case <-time.After(20 * time.Second):
			return false
		}
	}
	return retClass(err) != "pending"
}

// ---- conc ---------------------------------------------------------------------------------------

var roundCtr atomic.Int64

func sidName(round int64, s int) string { return fmt.Sprintf("c09r%ds%d", round, s) }

func runConc(c Case) Obs {
	e := newEnv()
	n := len(c.Sids)
	round := roundCtr.Add(1)
	ns := 0
	for _, s := range c.Sids {
		if s+1 > ns {
			ns = s + 1
		}
	}
	procs := make([]*tssfakes.RecProcess, n)
	rets := make([]chan error, n)
	for t := range procs {
		procs[t] = e.proc(sidName(round, c.Sids[t]), true)
		rets[t] = make(chan error, 1)
	}
	note := ""
	barrier := make(chan struct{})
	if c.Gate {
		e.c.VerifLockProcesses()
	}
	for t := 0; t < n; t++ {
		t := t
		go func() {
			<-barrier
			rets[t] <- e.c.Execute(context.Background(), []tss.TssProcess{procs[t]}, make(chan interface{}, 1))
		}()
	}
	close(barrier)
	if c.Gate {
		if !tssfakes.WaitFor(20*time.Second, func() bool { return blockedInExecute() >= n }) {
			note = "gate: not every request reached the process lock"
		}
		// Hand the lock over in FIFO order: every request has now waited longer than a millisecond;
		// releasing the lock and barging back in makes the woken waiter find it locked again, which
		// puts Go's mutex into starvation mode (direct hand-off to the longest waiter, newcomers
		// queue at the tail).  Every request then passes its first critical section before any of
		// them gets the lock a second time - the adversarial schedule for check-then-act bugs.
		time.Sleep(2 * time.Millisecond)
		e.c.VerifUnlockProcesses()
		e.c.VerifLockProcesses()
		time.Sleep(2 * time.Millisecond)
		e.c.VerifUnlockProcesses()
	}
	// decided: every request was refused or its process runs
	got := make([]error, n)
	have := make([]bool, n)
	decided := func() bool {
		k := 0
		for t := 0; t < n; t++ {
			if !have[t] {
				select {
				case got[t] = <-rets[t]:
					have[t] = true
				default:
				}
			}
			if have[t] || procs[t].Runs() > 0 {
				k++
			}
		}
		return k == n
	}
	if !tssfakes.WaitFor(30*time.Second, decided) {
		note += " undecided"
	}
	o := Obs{Refused: make([]bool, n), MaxLive: make([]int, ns), PendingAfter: make([]bool, ns), Reuse: make([]bool, ns)}
	for t := 0; t < n; t++ {
		o.Refused[t] = have[t] && retClass(got[t]) == "pending"
	}
	for s := 0; s < ns; s++ {
		o.MaxLive[s] = e.tracker.Max(sidName(round, s))
	}
	for _, p := range procs {
		p.Release()
	}
	for t := 0; t < n; t++ {
		if !have[t] {
			select {
			case got[t] = <-rets[t]:
			case <-time.After(30 * time.Second):
				note += " stuck"
			}
		}
	}
	for s := 0; s < ns; s++ {
		o.PendingAfter[s] = e.c.VerifPending(sidName(round, s))
		o.Reuse[s] = e.reuse(sidName(round, s))
	}
	o.Note = strings.TrimSpace(note)
	return o
}

// ---- sess ---------------------------------------------------------------------------------------

func msgName(m comm.MessageType) string {
	switch m {
	case comm.TssInitiateMsg:
		return "MInitiate"
	case comm.TssStartMsg:
		return "MStart"
	case comm.TssFailMsg:
		return "MFail"
	case comm.TssReadyMsg:
		return "MReady"
	}
	return fmt.Sprintf("M%d", m)
}

func runSessOnce(c Case, short time.Duration) (Obs, bool) {
	e := newEnv()
	sid := sidName(roundCtr.Add(1), 0)
	coord := c.Role == "coord"
	during := c.Phase == "during"
	switch c.Outcome {
	case "silent":
		e.c.CoordinatorTimeout = short
	case "timeout":
		e.c.TssTimeout = short
	}
	if !during && (c.Outcome == "timeout" || c.Outcome == "cancel") {
		// nobody answers: the coordinator never gets a ready peer
		e.comm.OnBroadcast = nil
	}
	procs := make([]tss.TssProcess, c.NProc)
	recs := make([]*tssfakes.RecProcess, c.NProc)
	for i := range procs {
		recs[i] = e.proc(sid, coord)
		procs[i] = recs[i]
	}
	if c.Outcome == "error" {
		recs[0].RunErr = errors.New("scripted process failure")
	}
	ctx, cancel := context.WithCancel(context.Background())
	defer cancel()
	done := make(chan error, 1)
	go func() { done <- e.c.Execute(ctx, procs, make(chan interface{}, 4)) }()

	started := func() bool { // every process is inside Run
		for _, r := range recs {
			if r.Runs() == 0 {
				return false
			}
		}
		return true
	}
	wantRun := c.Outcome == "success" || c.Outcome == "error" || ((c.Outcome == "timeout" || c.Outcome == "cancel") && during)
	ok := true
	if wantRun {
		if !coord {
			// the coordinator's initiate and start messages
			e.comm.WaitSubscribed(sid, comm.TssStartMsg, 1, 20*time.Second)
			e.comm.Deliver(sid, comm.TssInitiateMsg, peers[1], []byte{})
			sm, _ := tssmsg.MarshalStartMessage([]byte{})
			e.comm.Deliver(sid, comm.TssStartMsg, peers[1], sm)
		}
		var early error
		gotEarly := false
		tssfakes.WaitFor(20*time.Second, func() bool {
			select {
			case early = <-done:
				gotEarly = true
				return true
			default:
			}
			return started()
		})
		if gotEarly {
			// the timeout struck before the processes were started: not the schedule asked for
			done <- early
			ok = false
		}
	} else {
		// make sure the wait loop is established before striking
		if coord {
			e.comm.WaitSubscribed(sid, comm.TssReadyMsg, 1, 20*time.Second)
		} else {
			e.comm.WaitSubscribed(sid, comm.TssStartMsg, 1, 20*time.Second)
		}
		e.comm.WaitSubscribed(sid, comm.TssFailMsg, 1, 20*time.Second)
	}
	switch c.Outcome {
	case "success", "error":
		for _, r := range recs {
			r.Release()
		}
	case "cancel":
		cancel()
	}
	var err error
	select {
	case err = <-done:
	case <-time.After(60 * time.Second):
		return Obs{Note: "Execute did not return"}, true
	}
	o := Obs{Ret: retClass(err), LiveAfter: e.tracker.TotalLive()}
	pendingAfter := e.c.VerifPending(sid)
	for _, ev := range e.led.Snapshot() {
		if ev.SID != sid && ev.Kind != "Unsub" {
			continue
		}
		switch ev.Kind {
		case "Sub":
			o.Evs = append(o.Evs, "ESub "+msgName(ev.Msg))
		case "Unsub":
			o.Evs = append(o.Evs, "EUnsub "+msgName(ev.Msg))
		case "Close":
			o.Evs = append(o.Evs, "EClose")
		}
	}
	for i, r := range recs {
		for k := 0; k < r.Runs(); k++ {
			o.Evs = append(o.Evs, fmt.Sprintf("ERun %d", i))
		}
		for k := 0; k < r.Stops(); k++ {
			o.Evs = append(o.Evs, fmt.Sprintf("EStop %d", i))
		}
	}
	o.Evs = append(o.Evs, "EPend "+vgen.Bool(pendingAfter))
	o.ReuseOK = e.reuse(sid)
	return o, ok
}

func runSess(c Case) Obs {
	short := 30 * time.Millisecond
	if c.Phase == "during" && c.Outcome == "timeout" {
		short = 250 * time.Millisecond
	}
	var o Obs
	for try := 0; try < 4; try++ {
		var ok bool
		o, ok = runSessOnce(c, short)
		if ok {
			return o
		}
		short *= 4 // the machine was too slow for the intended schedule: allow more time
	}
	o.Note = "schedule not reached"
	return o
}

// ---- streams ------------------------------------------------------------------------------------

const nS, nP = 3, 3

func runStreams(c Case) Obs {
	sm := p2p.NewStreamManager()
	nx := 0
	for _, op := range c.Ops {
		if op.Op == "add" && op.X+1 > nx {
			nx = op.X + 1
		}
	}
	streams := make([]*tssfakes.MockStream, nx)
	for i := range streams {
		streams[i] = &tssfakes.MockStream{Name: fmt.Sprint(i)}
	}
	index := func(s network.Stream) *int {
		for i, m := range streams {
			if network.Stream(m) == s {
				k := i
				return &k
			}
		}
		k := -1
		return &k
	}
	sidOf := func(s int) string { return fmt.Sprintf("session%d", s) }
	snap := func() [][]*int {
		out := make([][]*int, nS)
		for s := 0; s < nS; s++ {
			out[s] = make([]*int, nP)
			for p := 0; p < nP; p++ {
				if st, err := sm.Stream(sidOf(s), peers[p]); err == nil {
					out[s][p] = index(st)
				}
			}
		}
		return out
	}
	closes := func() []int {
		out := make([]int, nx)
		for i, m := range streams {
			out[i] = m.Closes()
		}
		return out
	}
	var o Obs
	for _, op := range c.Ops {
		switch op.Op {
		case "add":
			sm.AddStream(sidOf(op.S), peers[op.P], streams[op.X])
			o.SObs = append(o.SObs, SObs{})
		case "get":
			so := SObs{IsGet: true}
			if st, err := sm.Stream(sidOf(op.S), peers[op.P]); err == nil {
				so.Got = index(st)
			}
			o.SObs = append(o.SObs, so)
		case "release":
			so := SObs{IsRel: true, Before: snap(), CB: closes()}
			sm.ReleaseStreams(sidOf(op.S))
			so.After, so.CA = snap(), closes()
			o.SObs = append(o.SObs, so)
		}
	}
	return o
}

// ---- race (thorough tier): the same admission rounds in a child built with the race detector ---

func raceChild(rounds int) {
	r := vgen.NewRng(uint64(rounds) + 17)
	for i := 0; i < rounds; i++ {
		n := r.Range(2, 8)
		sids := make([]int, n)
		for t := range sids {
			sids[t] = r.Intn(2)
		}
		runConc(Case{Kind: "conc", Sids: sids})
	}
}

func runRace(c Case) Obs {
	work := os.Getenv("VERIF_WORK")
	dir := os.Getenv("VERIF_DIR")
	if work == "" || dir == "" {
		return Obs{Note: "no VERIF_WORK/VERIF_DIR: race run skipped"}
	}
	exe := filepath.Join(work, "implrun_race")
	cmd := exec.Command("go", "build", "-race", "-modfile", filepath.Join(work, "go.mod"), "-tags", "verif",
		"-overlay", filepath.Join(work, "overlay.json"), "-o", exe, "./cmd/c09")
	cmd.Dir = filepath.Join(dir, "harness")
	cmd.Env = os.Environ()
	if out, err := cmd.CombinedOutput(); err != nil {
		return Obs{Note: "race build failed: " + tail(string(out), 400)}
	}
	run := exec.Command(exe)
	run.Env = append(os.Environ(), fmt.Sprintf("VERIF_C09_RACE_CHILD=%d", c.Rounds), "GORACE=halt_on_error=0 exitcode=66")
	out, err := run.CombinedOutput()
	races := strings.Count(string(out), "WARNING: DATA RACE")
	o := Obs{MaxLive: []int{races}}
	if err != nil && races == 0 {
		o.Note = "race child failed: " + tail(string(out), 400)
	} else if races > 0 {
		i := strings.Index(string(out), "WARNING: DATA RACE")
		o.Note = tail(string(out)[i:min(len(out), i+900)], 900)
	}
	return o
}

func tail(s string, n int) string {
	if len(s) > n {
		return s[len(s)-n:]
	}
	return s
}

// ---- dispatch, generation, printing ---------------------------------------------------------------

func run(c Case) Obs {
	switch c.Kind {
	case "conc":
		return runConc(c)
	case "sess":
		return runSess(c)
	case "streams":
		return runStreams(c)
	case "race":
		return runRace(c)
	}
	panic("unknown kind " + c.Kind)
}

func completeSchedule(r *vgen.Rng, n int) []int {
	var s []int
	for t := 0; t < n; t++ {
		for k := 0; k < 5; k++ {
			s = append(s, t)
		}
	}
	r.Shuffle(len(s), func(i, j int) { s[i], s[j] = s[j], s[i] })
	for pass := 0; pass < 4*n+4; pass++ {
		for t := 0; t < n; t++ {
			s = append(s, t)
		}
	}
	return s
}

func gen(r *vgen.Rng, tier string) []Case {
	var out []Case
	rounds := 4
	nstreams := 120
	if tier == "thorough" {
		rounds, nstreams = 40, 1500
	}
	for round := 0; round < rounds; round++ {
		for n := 2; n <= 8; n++ {
			for _, shape := range []string{"equal", "distinct", "mixed"} {
				for _, gate := range []bool{true, false} {
					sids := make([]int, n)
					for t := range sids {
						switch shape {
						case "distinct":
							sids[t] = t
						case "mixed":
							sids[t] = r.Intn(3)
						}
					}
					out = append(out, Case{Kind: "conc", Sids: sids, Gate: gate, Sched: completeSchedule(r, n)})
				}
			}
		}
	}
	for np := 1; np <= 3; np++ {
		for _, role := range []string{"coord", "peer"} {
			for _, oc := range []string{"success", "error", "silent", "timeout", "cancel"} {
				for _, ph := range []string{"before", "during"} {
					if oc == "silent" && (role == "coord" || ph == "during") {
						continue
					}
					if (oc == "success" || oc == "error") && ph == "before" {
						continue
					}
					if oc == "timeout" && ph == "during" && np > 1 && tier != "thorough" {
						continue // each costs a quarter of a second
					}
					out = append(out, Case{Kind: "sess", Role: role, Outcome: oc, Phase: ph, NProc: np})
				}
			}
		}
	}
	for i := 0; i < nstreams; i++ {
		var ops []StreamOp
		nx := 0
		for k, m := 0, r.Range(4, 24); k < m; k++ {
			switch r.Intn(6) {
			case 0, 1, 2:
				ops = append(ops, StreamOp{Op: "add", S: r.Intn(nS), P: r.Intn(nP), X: nx})
				nx++
			case 3, 4:
				ops = append(ops, StreamOp{Op: "get", S: r.Intn(nS), P: r.Intn(nP)})
			case 5:
				ops = append(ops, StreamOp{Op: "release", S: r.Intn(nS)})
			}
		}
		for s := 0; s < nS; s++ {
			ops = append(ops, StreamOp{Op: "release", S: s})
		}
		out = append(out, Case{Kind: "streams", Ops: ops})
	}
	if tier == "thorough" {
		out = append(out, Case{Kind: "race", Rounds: 600})
	} else {
		out = append(out, Case{Kind: "race", Rounds: 120})
	}
	return out
}

func optN(p *int) string {
	if p == nil {
		return "None"
	}
	if *p < 0 {
		return "(Some 999999%nat)"
	}
	return vgen.Some(vgen.Nat(*p))
}
func rows(b [][]*int) string {
	return vgen.ListOf(b, func(r []*int) string { return vgen.ListOf(r, optN) })
}

func coq(c Case, o Obs) string {
	switch c.Kind {
	case "conc":
		n := len(c.Sids)
		sched := vgen.ListOf(c.Sched, func(t int) string { return "Step " + vgen.Nat(t) })
		var fin []string
		for t := 0; t < n; t++ {
			fin = append(fin, "Fin "+vgen.Nat(t))
		}
		for pass := 0; pass < 3*n+3; pass++ {
			for t := 0; t < n; t++ {
				fin = append(fin, "Step "+vgen.Nat(t))
			}
		}
		return "Conc " + vgen.ListOf(c.Sids, vgen.Nat) + " " + sched + " " + vgen.List(fin) + " " +
			vgen.ListOf(o.Refused, vgen.Bool) + " " + vgen.ListOf(o.MaxLive, vgen.Nat) + " " +
			vgen.ListOf(o.PendingAfter, vgen.Bool) + " " + vgen.ListOf(o.Reuse, vgen.Bool)
	case "race":
		races := 0
		if len(o.MaxLive) > 0 {
			races = o.MaxLive[0]
		}
		ran := o.Note == "" || races > 0
		return "Race " + vgen.Nat(c.Rounds) + " " + vgen.Nat(races) + " " + vgen.Bool(ran)
	case "sess":
		role := map[string]string{"coord": "Coord", "peer": "Peer"}[c.Role]
		oc := map[string]string{"success": "Success", "error": "ProcessError", "silent": "CoordinatorSilent",
			"timeout": "GlobalTimeout", "cancel": "Cancelled"}[c.Outcome]
		ph := map[string]string{"before": "BeforeStart", "during": "DuringRun", "": "BeforeStart"}[c.Phase]
		ret := map[string]string{"nil": "RNil", "pending": "RPending", "coordinator": "RCoordinatorErr",
			"timeout": "RTimeout", "process": "RProcessErr", "": "RPending"}[o.Ret]
		evs := make([]string, len(o.Evs))
		for i, e := range o.Evs {
			parts := strings.SplitN(e, " ", 2)
			if len(parts) == 2 && (parts[0] == "ERun" || parts[0] == "EStop") {
				e = parts[0] + " " + parts[1] + "%nat"
			}
			evs[i] = e
		}
		return "Sess " + role + " " + oc + " " + ph + " " + vgen.Nat(c.NProc) + " " + vgen.List(evs) + " " + ret +
			" " + vgen.Nat(o.LiveAfter) + " " + vgen.Bool(o.ReuseOK)
	case "streams":
		nx := 0
		ops := make([]string, len(c.Ops))
		for i, op := range c.Ops {
			switch op.Op {
			case "add":
				ops[i] = fmt.Sprintf("OAdd %d%%nat %d%%nat %d%%nat", op.S, op.P, op.X)
				if op.X+1 > nx {
					nx = op.X + 1
				}
			case "get":
				ops[i] = fmt.Sprintf("OGet %d%%nat %d%%nat", op.S, op.P)
			case "release":
				ops[i] = fmt.Sprintf("ORelease %d%%nat", op.S)
			}
		}
		obs := vgen.ListOf(o.SObs, func(s SObs) string {
			switch {
			case s.IsGet:
				return "SGot " + optN(s.Got)
			case s.IsRel:
				return "SRel " + rows(s.Before) + " " + rows(s.After) + " " + vgen.ListOf(s.CB, vgen.Nat) + " " + vgen.ListOf(s.CA, vgen.Nat)
			}
			return "SNone"
		})
		return fmt.Sprintf("Streams %d%%nat %d%%nat %d%%nat ", nS, nP, nx) + vgen.List(ops) + " " + obs
	}
	panic("kind")
}

func kind(c Case) string {
	switch c.Kind {
	case "conc":
		seen := map[int]bool{}
		dup := false
		for _, s := range c.Sids {
			if seen[s] {
				dup = true
			}
			seen[s] = true
		}
		k := "conc/distinct"
		if dup {
			k = "conc/equal-ids"
		}
		if c.Gate {
			k += "/gated"
		}
		return k
	case "sess":
		return "sess/" + c.Outcome + "/" + c.Phase + "/" + c.Role
	}
	return c.Kind
}

func main() {
	zerolog.SetGlobalLevel(zerolog.Disabled)
	if v := os.Getenv("VERIF_C09_RACE_CHILD"); v != "" {
		var n int
		fmt.Sscan(v, &n)
		raceChild(n)
		return
	}
	vgen.Main(vgen.Spec[Case, Obs]{
		Property:  "C09",
		RunModule: "C09",
		Gen:       gen,
		Run:       run,
		Coq:       coq,
		Kind:      kind,
		ShardSize: 120,
		NonTrivial: func(c Case, o Obs) bool {
			switch c.Kind {
			case "conc":
				return kind(c) != "conc/distinct"
			case "streams":
				return len(c.Ops) > 6
			}
			return true
		},
		Rule: "admission: 2..8 overlapping Execute calls x {equal, distinct, mixed session ids} x {natural schedule, all requests held at the process lock first}; sessions: role x outcome x phase x 1..3 processes, each followed by a restart of the same id; streams: random AddStream/Stream/ReleaseStreams sequences on the real StreamManager; distinct = distinct input JSON; non-trivial = admission cases with at least two requests for one id, every session case, stream cases with more than 6 operations",
	})
}
