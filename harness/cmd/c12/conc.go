// Concurrent cases of the C12 runner: the subscription table under concurrent use.
//
// 8..16 goroutines ("threads") work on ONE real Libp2pCommunication value, each holding it the way the
// tss code does: copied by value into a comm.Communication interface (coordinator, processes) and as
// a plain value copy (stream handlers: value receivers).  Every thread runs its own sequential
// program of subscribe / cancel-own-subscription / lookup (GetSubscribers) / deliver
// (ProcessMessagesFromStream over an inbound stream) operations on sessions it shares with the other
// threads and on sessions of its own; after every operation it looks the (session, type) of the
// operation up.  Channels belong to exactly one thread.
//
// Whatever the interleaving, the specification fixes
//   - in every lookup and every delivery: how often each of the thread's OWN channels occurs (its own
//     operations are sequential and nobody else can subscribe or cancel its channels);
//   - for a foreign channel an upper bound (it cannot occur more often than it is ever subscribed to
//     that (session, type) in the whole case);
//   - the table after all threads have finished: per (session, type) exactly the live subscriptions
//     of all threads together.
//
// These are judged in Coq (judge_conc).  The threads run through the programs in rounds: a spinning
// barrier lets all of them enter a round together (harness only: it merely selects schedules), so
// that the first subscriptions to a session created in that round really collide.
//
// A case runs in a CHILD process (this binary with VERIF_C12_CHILD set): a Go runtime "fatal error:
// concurrent map writes" cannot be recovered and would take the runner down; the parent reports a
// dead child as an observation (crashed), which the judge rejects.  Cases of kind "race" run in a
// child built with the race detector (go build -race of this same runner against the same repo
// tree): data race reports that involve the repo's comm packages are counted and judged.
package main

import (
	"bytes"
	"context"
	"encoding/json"
	"fmt"
	"os"
	"os/exec"
	"path/filepath"
	"runtime"
	"sort"
	"strconv"
	"strings"
	"sync"
	"sync/atomic"
	"time"

	"github.com/ChainSafe/sygma-relayer/comm"
	"github.com/ChainSafe/sygma-relayer/comm/p2p"
	"github.com/rs/zerolog"

	"verifharness/p2pfakes"
	"verifharness/vgen"
)

// COp is what one thread observed at one of its operations.
type COp struct {
	ID   string `json:"id,omitempty"`
	U    uint64 `json:"u,omitempty"`
	View []int  `json:"view"`          // GetSubscribers of the operation's (session, type) right after it
	Got  []int  `json:"got,omitempty"` // deliver: the channels that received this message (collected at the end)
	Dlv  bool   `json:"dlv,omitempty"`
}

const childEnv = "VERIF_C12_CHILD"

// ---- the child: drive the real code ---------------------------------------------------------------

// barrier for n goroutines, spinning (tight alignment is the point); gives up after a deadline so a
// changed implementation that blocks a thread cannot hang the others for ever.
type barrier struct {
	n     int32
	count atomic.Int32
	gen   atomic.Int32
}

func (b *barrier) wait() {
	g := b.gen.Load()
	if b.count.Add(1) == b.n {
		b.count.Store(0)
		b.gen.Add(1)
		return
	}
	deadline := time.Now().Add(20 * time.Second)
	for i := 0; b.gen.Load() == g; i++ {
		if i%64 == 63 {
			runtime.Gosched()
			if time.Now().After(deadline) {
				return
			}
		}
	}
}

func concUniverse(c Case) []ST {
	var u []ST
	seen := map[ST]bool{}
	for _, th := range c.Threads {
		for _, o := range th {
			if o.Op != "unsub" {
				p := ST{o.S, o.T}
				if !seen[p] {
					seen[p] = true
					u = append(u, p)
				}
			}
		}
	}
	return u
}

func runConcOnce(c Case) (Obs, bool) {
	if c.Procs > 0 {
		old := runtime.GOMAXPROCS(c.Procs)
		defer runtime.GOMAXPROCS(old)
	}
	remote := p2pfakes.PeerID(1)
	h := p2pfakes.NewHost(p2pfakes.PeerID(0))
	cm := p2p.NewCommunication(h, "p2p/sygma")

	// channels: every number used by a sub; capacity = what can ever be sent to it
	ndeliver := 0
	subsOf := map[int]int{}
	for _, th := range c.Threads {
		for _, o := range th {
			switch o.Op {
			case "deliver":
				ndeliver++
			case "sub":
				subsOf[o.C]++
			}
		}
	}
	chans := map[int]chan *comm.WrappedMessage{}
	num := map[chan *comm.WrappedMessage]int{}
	var order []int
	for n, k := range subsOf {
		ch := make(chan *comm.WrappedMessage, ndeliver*k+4)
		chans[n], num[ch] = ch, n
		order = append(order, n)
	}
	sort.Ints(order)
	look := func(v p2p.Libp2pCommunication, s string, t uint8) []int {
		l := []int{}
		for _, ch := range v.GetSubscribers(s, comm.MessageType(t)) {
			n, ok := num[ch]
			if !ok {
				n = badOffset
			}
			l = append(l, n)
		}
		sort.Ints(l)
		return l
	}

	nth := len(c.Threads)
	obs := make([][]COp, nth)
	bar := &barrier{n: int32(nth)}
	round := c.Round
	if round <= 0 {
		round = 1 << 30
	}
	nbar := 1 << 30 // barriers every thread takes part in
	for _, th := range c.Threads {
		if k := (len(th) + round - 1) / round; k < nbar {
			nbar = k
		}
	}
	base := runtime.NumGoroutine()
	var wg sync.WaitGroup
	// the first half of the threads share ONE interface value (an interface copy shares the boxed
	// struct; every call through it copies the struct again), the others box their own copy
	var shared comm.Communication = cm
	for g := range c.Threads {
		g := g
		prog := c.Threads[g]
		var ci comm.Communication = shared
		if g%2 == 1 {
			ci = cm
		}
		cv := cm // the value as a stream handler / ProcessMessagesFromStream has it
		wg.Add(1)
		go func() {
			defer wg.Done()
			out := make([]COp, len(prog))
			type own struct {
				id comm.SubscriptionID
				s  string
				t  uint8
			}
			var ids []own
			for i, o := range prog {
				if i%round == 0 && i/round < nbar {
					bar.wait()
				}
				co := COp{}
				s, t := o.S, o.T
				switch o.Op {
				case "sub":
					id := ci.Subscribe(o.S, comm.MessageType(o.T), chans[o.C])
					ids = append(ids, own{id, o.S, o.T})
					co.ID = string(id)
					if k := strings.LastIndex(co.ID, "-"); k >= 0 {
						co.U, _ = strconv.ParseUint(co.ID[k+1:], 10, 64)
					}
				case "unsub":
					if o.K < 0 || o.K >= len(ids) {
						panic("conc case: unsub of a subscription the thread does not have")
					}
					ci.UnSubscribe(ids[o.K].id)
					s, t = ids[o.K].s, ids[o.K].t
				case "get":
				case "close":
					// an other operation of the communication layer (other.go), then the lookup of a "get":
					// CloseSession does not change who is subscribed (C12_other_ops_frame), so the Coq side
					// sees a plain lookup
					ci.CloseSession(o.S)
				case "deliver":
					co.Dlv = true
					line, err := json.Marshal(map[string]interface{}{
						"message_type": o.T, "message_id": o.S, "payload": []byte(fmt.Sprintf("d%d.%d", g, i)), "From": "smuggled",
					})
					if err != nil {
						panic(err)
					}
					cv.ProcessMessagesFromStream(p2pfakes.NewStream(remote, append(line, '\n')))
				default:
					panic("unknown op " + o.Op)
				}
				co.View = look(cv, s, t)
				out[i] = co
			}
			obs[g] = out
		}()
	}
	wg.Wait()

	// receipts: read every channel until all delivery goroutines have exited
	type dkey struct{ g, i int }
	got := map[dkey][]int{}
	deadline := time.Now().Add(20 * time.Second)
	for {
		quiet := runtime.NumGoroutine() <= base
		for _, n := range order {
			ch := chans[n]
			for len(ch) > 0 {
				m := <-ch
				k := dkey{-1, -1}
				if m != nil {
					var g, i int
					if _, err := fmt.Sscanf(string(m.Payload), "d%d.%d", &g, &i); err == nil &&
						g >= 0 && g < nth && i >= 0 && i < len(c.Threads[g]) && c.Threads[g][i].Op == "deliver" {
						k = dkey{g, i}
						o := c.Threads[g][i]
						if m.SessionID != o.S || uint8(m.MessageType) != o.T || m.From != remote {
							n += badOffset
						}
					}
				}
				got[k] = append(got[k], n)
			}
		}
		if quiet || time.Now().After(deadline) {
			break
		}
		runtime.Gosched()
		time.Sleep(50 * time.Microsecond)
	}
	o := Obs{Universe: concUniverse(c)}
	stray := got[dkey{-1, -1}] // messages that are none of the delivered ones: reported with the first delivery
	seen := map[string]bool{}
	repeated := false
	for g := range obs {
		for i := range obs[g] {
			if obs[g][i].Dlv {
				l := got[dkey{g, i}]
				for _, n := range stray {
					l = append(l, n%badOffset+badOffset)
				}
				stray = nil
				sort.Ints(l)
				if l == nil {
					l = []int{}
				}
				obs[g][i].Got = l
			}
			if id := obs[g][i].ID; id != "" {
				if seen[id] {
					repeated = true
				}
				seen[id] = true
			}
		}
	}
	o.Conc = obs
	for _, p := range o.Universe {
		o.Final = append(o.Final, look(cm, p.S, p.T))
	}
	return o, repeated
}

func concChildMain() {
	zerolog.SetGlobalLevel(zerolog.Disabled)
	var c Case
	if err := json.NewDecoder(os.Stdin).Decode(&c); err != nil {
		fmt.Fprintln(os.Stderr, "conc child: bad case:", err)
		os.Exit(3)
	}
	var o Obs
	if c.Kind == "fani" {
		basePatience = 10 * time.Second
		o = slowChildMain(c)
		b, _ := json.Marshal(o)
		os.Stdout.Write(append(b, '\n'))
		return
	}
	for attempt := 0; attempt < 3; attempt++ {
		var rep bool
		o, rep = runConcOnce(c)
		o.Repeated = rep
		if !rep {
			break
		}
	}
	b, _ := json.Marshal(o)
	os.Stdout.Write(append(b, '\n'))
}

// ---- the parent -----------------------------------------------------------------------------------

var childPatience = 30 * time.Second
var raceExe string
var raceBuildNote string
var raceBuildOnce sync.Once

func buildRaceExe() {
	work, dir := os.Getenv("VERIF_WORK"), os.Getenv("VERIF_DIR")
	if work == "" || dir == "" {
		raceBuildNote = "no VERIF_WORK / VERIF_DIR: race build skipped"
		return
	}
	exe := filepath.Join(work, "implrun_race")
	ctx, cancel := context.WithTimeout(context.Background(), 4*time.Minute) // a cold build cache must not eat the runner's budget: without the -race child the case runs in the plain one
	defer cancel()
	cmd := exec.CommandContext(ctx, "go", "build", "-race", "-modfile", filepath.Join(work, "go.mod"), "-tags", "verif",
		"-overlay", filepath.Join(work, "overlay.json"), "-o", exe, "./cmd/c12")
	cmd.Dir = filepath.Join(dir, "harness")
	cmd.Env = os.Environ()
	if out, err := cmd.CombinedOutput(); err != nil {
		raceBuildNote = "race build failed: " + tail(string(out), 600)
		return
	}
	raceExe = exe
}

func tail(s string, n int) string {
	if len(s) > n {
		return s[len(s)-n:]
	}
	return s
}

// race reports that involve the repo's comm packages (a report is the text between two lines of '=')
func raceReports(stderr string) (int, string) {
	n, first := 0, ""
	for _, blk := range strings.Split(stderr, "==================") {
		if strings.Contains(blk, "WARNING: DATA RACE") && strings.Contains(blk, "sygma-relayer/comm") {
			n++
			if first == "" {
				first = strings.TrimSpace(blk)
				if len(first) > 1200 {
					first = first[:1200]
				}
			}
		}
	}
	return n, first
}

func fatalLine(stderr string) string {
	for _, l := range strings.Split(stderr, "\n") {
		if strings.HasPrefix(l, "fatal error:") || strings.HasPrefix(l, "panic:") {
			return l
		}
	}
	return tail(strings.TrimSpace(stderr), 300)
}

func runConc(c Case) Obs {
	self, err := os.Executable()
	if err != nil {
		panic(err)
	}
	exe, note := self, ""
	if c.Kind == "race" {
		raceBuildOnce.Do(buildRaceExe)
		if raceExe != "" {
			exe = raceExe
		} else {
			note = raceBuildNote // the case still runs, without the detector
		}
	}
	in, _ := json.Marshal(c)
	// a case takes milliseconds; the deadline only bounds a changed implementation that blocks
	// (a lock that is never released), and after the first such case the others do not wait as long
	ctx, cancel := context.WithTimeout(context.Background(), childPatience)
	defer cancel()
	cmd := exec.CommandContext(ctx, exe)
	cmd.WaitDelay = 5 * time.Second
	cmd.Env = append(os.Environ(), childEnv+"=1", "GORACE=halt_on_error=0 exitcode=0")
	cmd.Stdin = bytes.NewReader(in)
	var so, se bytes.Buffer
	cmd.Stdout, cmd.Stderr = &so, &se
	rerr := cmd.Run()
	var o Obs
	if rerr != nil || json.Unmarshal(bytes.TrimSpace(so.Bytes()), &o) != nil || len(o.Conc) != len(c.Threads) {
		// the process died (fatal error / panic in the code under test) or hung
		o = Obs{Universe: concUniverse(c), Crash: fatalLine(se.String())}
		if ctx.Err() != nil {
			o.Crash = "the process running the case did not finish (killed after " + childPatience.String() + "): " + o.Crash
			childPatience = 4 * time.Second
		}
		if o.Crash == "" {
			o.Crash = fmt.Sprint("child failed: ", rerr)
		}
	}
	o.Races, o.RaceNote = raceReports(se.String())
	o.Note = note
	o.RaceBuilt = exe != self
	return o
}

// ---- generation -----------------------------------------------------------------------------------

func genConc(r *vgen.Rng, kind string) Case {
	nth := r.Range(8, 16)
	rounds := r.Range(2, 5)
	per := r.Range(2, 5) // operations per thread and round
	if kind == "race" {
		nth, rounds = r.Range(8, 12), r.Range(3, 4)
	}
	c := Case{Kind: kind, Round: per}
	if r.Chance(1, 5) {
		c.Procs = vgen.Pick(r, []int{2, 4, 8})
	}
	fam := vgen.Pick(r, [][]string{
		{"1-2-100-104", "1-2-100-10", "1-2-100-104-0"},
		{"keygen", "keygen-1", "frost-keygen"},
		{"resharing-5", "resharing-55", "resharing-"},
		{"7", "7-", "7-7"},
	})
	types := []uint8{uint8(r.Intn(14)), uint8(r.Intn(14)), uint8(r.Intn(14))}[:r.Range(1, 3)]
	// the sessions all threads work on: one fixed, one new per round
	fixed := vgen.Pick(r, fam)
	perRound := make([]string, rounds)
	for k := range perRound {
		perRound[k] = fmt.Sprintf("%s-%d", vgen.Pick(r, fam), 17+k)
	}
	// what the threads do together when they leave the barrier of a round ("storm"): all subscribe
	// to the session created in this round / all cancel what they subscribed at the previous
	// barrier / some of each and some lookups of that pair / nothing in common
	storm := make([]string, rounds)
	stormType := make([]uint8, rounds)
	for k := range storm {
		storm[k] = vgen.Pick(r, []string{"sub", "sub", "sub", "unsub", "unsub", "mixed", "mixed", "none"})
		if k == 0 && storm[k] == "unsub" {
			storm[k] = "sub"
		}
		stormType[k] = vgen.Pick(r, types)
	}
	ownSess := func(g, k int) string { return fmt.Sprintf("%d-2-100-%d-0", g+1, k) }
	c.Threads = make([][]Op, nth)
	for g := 0; g < nth; g++ {
		var prog []Op
		type sub struct {
			s string
			t uint8
		}
		var subs []sub
		nextChan, nOwn := 100*(g+1)+1, 0
		add := func(s string, t uint8) {
			ch := nextChan
			if nextChan > 100*(g+1)+1 && r.Chance(1, 6) {
				ch = r.Range(100*(g+1)+1, nextChan-1) // one of its channels subscribed once more
			} else {
				nextChan++
			}
			prog = append(prog, Op{Op: "sub", S: s, T: t, C: ch})
			subs = append(subs, sub{s, t})
		}
		lastStorm := -1 // index (among this thread's subs) of what it subscribed at the last barrier
		free := func(k int) {
			x := r.Intn(100)
			switch {
			case x < 40 || len(subs) == 0:
				switch r.Intn(4) {
				case 0:
					add(fixed, vgen.Pick(r, types))
				case 1:
					add(perRound[r.Intn(k+1)], vgen.Pick(r, types))
				case 2:
					nOwn++
					add(ownSess(g, nOwn), vgen.Pick(r, types)) // a session of its own, new
				default:
					add(ownSess(g, r.Range(0, nOwn)), vgen.Pick(r, types))
				}
			case x < 70:
				prog = append(prog, Op{Op: "unsub", K: r.Intn(len(subs))}) // possibly cancelled before
			case x < 92:
				s := vgen.Pick(r, []string{fixed, perRound[r.Intn(k+1)], ownSess(g, r.Range(0, nOwn)), ownSess(r.Intn(nth), r.Intn(2))})
				what := "get"
				if r.Chance(1, 3) {
					what = "close" // CloseSession(s) by this goroutine, then the lookup
				}
				prog = append(prog, Op{Op: what, S: s, T: vgen.Pick(r, types)})
			default:
				s := vgen.Pick(r, []string{fixed, perRound[r.Intn(k+1)], ownSess(g, r.Range(0, nOwn))})
				prog = append(prog, Op{Op: "deliver", S: s, T: vgen.Pick(r, types)})
			}
		}
		for k := 0; k < rounds; k++ {
			for j := 0; j < per; j++ {
				if j > 0 || storm[k] == "none" || r.Chance(1, 8) {
					free(k)
					continue
				}
				what := storm[k]
				if what == "mixed" {
					what = vgen.Pick(r, []string{"sub", "unsub", "get"})
				}
				switch {
				case what == "unsub" && lastStorm >= 0:
					prog = append(prog, Op{Op: "unsub", K: lastStorm})
					lastStorm = -1
				case what == "get" && k > 0:
					prog = append(prog, Op{Op: "get", S: perRound[k-1], T: stormType[k-1]})
				case storm[k] == "sub":
					add(perRound[k], stormType[k]) // a session nobody has used before: every map level is new
					lastStorm = len(subs) - 1
				default:
					// the pair of the previous barrier again, so that cancellations, lookups and new
					// subscriptions of ONE (session, type) collide
					kk := k
					if k > 0 {
						kk = k - 1
					}
					add(perRound[kk], stormType[kk])
					lastStorm = len(subs) - 1
				}
			}
		}
		c.Threads[g] = prog
	}
	return c
}

// ---- printing -------------------------------------------------------------------------------------

// The term is wrapped in ( ... )%N and every session string is bound once by a let: a concurrent case
// has a few hundred operations, and parsing string and number literals dominates otherwise.  The
// unique component of the ids is not passed on (0): the judge of a concurrent case does not use it.
func concCoq(c Case, o Obs) string {
	names := map[string]string{}
	var lets []string
	name := func(s string) string {
		if n, ok := names[s]; ok {
			return n
		}
		n := fmt.Sprintf("s%d", len(names))
		names[s] = n
		lets = append(lets, "let "+n+" := "+vgen.Str(s)+" in ")
		return n
	}
	nums := func(l []int) string {
		return vgen.ListOf(l, func(x int) string { return strconv.Itoa(x) })
	}
	ths := make([]string, len(c.Threads))
	impl := make([]string, len(c.Threads))
	for g, prog := range c.Threads {
		ops := make([]string, len(prog))
		obs := make([]string, len(prog))
		for i, op := range prog {
			var co COp
			if g < len(o.Conc) && i < len(o.Conc[g]) {
				co = o.Conc[g][i]
			}
			switch op.Op {
			case "sub":
				ops[i] = fmt.Sprintf("Sub %s %d 0 %d", name(op.S), op.T, op.C)
			case "unsub":
				ops[i] = "Unsub " + vgen.Nat(op.K)
			default:
				ops[i] = fmt.Sprintf("Deliver %s %d", name(op.S), op.T)
			}
			looks := []string{nums(co.View)}
			if op.Op == "deliver" {
				looks = append(looks, nums(co.Got))
			}
			obs[i] = vgen.List(looks)
		}
		ths[g] = vgen.List(ops)
		impl[g] = vgen.List(obs)
	}
	if o.Crash != "" {
		impl = nil
	}
	uni := vgen.ListOf(o.Universe, func(p ST) string { return fmt.Sprintf("(%s, %d)", name(p.S), p.T) })
	return "(" + strings.Join(lets, "") + "Conc " + vgen.List(ths) + " " + vgen.List(impl) + " " + uni + " " + vgen.ListOf(o.Final, nums) + " " +
		vgen.Bool(o.Crash != "") + " " + vgen.Nat(o.Races) + ")%N"
}

func concNonTrivial(c Case) bool {
	n := 0
	for _, th := range c.Threads {
		n += len(th)
	}
	return len(c.Threads) >= 2 && n >= 8
}
