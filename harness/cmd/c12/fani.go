// Interleaved fan cases of the C12 runner: the subscription table changes BETWEEN the messages of a
// stream, and slow readers.
//
// A case is a script: table operations (sub / unsub on the real Libp2pCommunication), messages (each
// written to one of 1..3 long-lived inbound streams, every stream decoded by its own
// ProcessMessagesFromStream goroutine) and idle periods, in the order in which the harness performs
// them.  The boundaries are unambiguous:
//   - a message is fed only when everything before it in the script is done, and the script goes on
//     only when the decoder of that stream has dispatched it and is back in Read (the stream says so);
//   - before a CANCELLATION every receipt that is due is collected (so nothing is in flight to the
//     cancelled subscription when it is cancelled); subscriptions need no such care - a message
//     decoded before a subscription was made is not owed to it whenever it is read;
//   - messages joined into one Read (join) have no table operation between them.
//
// So every message is owed to exactly the subscriptions that are live at its place in the script,
// which is what the Coq judge (judge_fani) computes from the script alone.
//
// Receivers read late (only where the script forces it: before cancellations and at the end), mixed
// or promptly, on unbuffered / capacity-1 / large channels.  An idle event makes the harness do
// NOTHING for the given time (nobody reads, nothing is fed): deliveries that are pending stay
// pending, and must still arrive when the readers resume - delivery to a current subscriber is not
// bounded by anybody's patience.  Cases with an idle event (kind "slow") run in child processes,
// started together when the cases are generated, so the few of them cost one idle period of wall
// clock, not one each.
package main

import (
	"bytes"
	"context"
	"encoding/json"
	"fmt"
	"os"
	"os/exec"
	"runtime"
	"sort"
	"strconv"
	"strings"
	"sync"
	"time"

	"github.com/ChainSafe/sygma-relayer/comm"
	"github.com/ChainSafe/sygma-relayer/comm/p2p"
	"github.com/libp2p/go-libp2p/core/peer"

	"verifharness/p2pfakes"
	"verifharness/vgen"
)

// Ev is one step of an interleaved script.
type Ev struct {
	E    string `json:"e"` // sub | unsub | msg | idle | other operations (other.go): close | bcast | health | handler
	S    string `json:"s,omitempty"`
	T    uint8  `json:"t,omitempty"`
	C    int    `json:"c,omitempty"`    // sub: channel number
	K    int    `json:"k,omitempty"`    // unsub: index of the sub (among the subs of the script) whose id is cancelled
	P    string `json:"p,omitempty"`    // msg: payload
	St   int    `json:"st,omitempty"`   // msg: index of the stream it is written to
	Join bool   `json:"join,omitempty"` // msg: handed to the decoder in the same Read as the msg event right before it (same stream)
	Ms   int    `json:"ms,omitempty"`   // idle: milliseconds during which the harness does nothing
	To   []int  `json:"to,omitempty"`   // bcast / health: the addressees (peer numbers, see other.go)
}

func hasIdle(c Case) bool {
	for _, e := range c.Script {
		if e.E == "idle" && e.Ms > 0 {
			return true
		}
	}
	return false
}

func runFanI(c Case) (Obs, bool) {
	if c.Procs > 0 {
		old := runtime.GOMAXPROCS(c.Procs)
		defer runtime.GOMAXPROCS(old)
	}
	peerNo := map[peer.ID]int{}
	for i := 1; i <= maxPeerNo; i++ {
		peerNo[p2pfakes.PeerID(i)] = i
	}
	cm := p2p.NewCommunication(newOutHost(), "p2p/sygma")

	chans := map[int]chan *comm.WrappedMessage{}
	num := map[chan *comm.WrappedMessage]int{}
	var order []int
	getChan := func(n int) chan *comm.WrappedMessage {
		if ch, ok := chans[n]; ok {
			return ch
		}
		ch := make(chan *comm.WrappedMessage, c.Cap)
		chans[n] = ch
		num[ch] = n
		order = append(order, n)
		sort.Ints(order)
		return ch
	}
	var ids []comm.SubscriptionID
	seenID := map[comm.SubscriptionID]bool{}
	repeated := false
	obs := Obs{}

	var mu sync.Mutex
	got := map[int][]receipt{}
	record := func(n int, m *comm.WrappedMessage) {
		r := receipt{ptr: m}
		if m == nil {
			r.snap = RMsg{S: "<nil>", T: 255, P: "<nil>", F: fromUnknown}
		} else {
			f, ok := peerNo[m.From]
			if !ok {
				f = fromUnknown
			}
			r.snap = RMsg{S: m.SessionID, T: uint8(m.MessageType), P: string(m.Payload), F: f}
		}
		mu.Lock()
		got[n] = append(got[n], r)
		mu.Unlock()
	}

	// ---- the streams: all opened before the script starts, closed after it
	type liveStream struct {
		ps   *pstream
		done chan struct{}
		fed  int
	}
	base := runtime.NumGoroutine()
	awaitIdle := func(ls *liveStream) {
		timeout := time.After(patience())
		for !ls.ps.readsAtLeast(ls.fed + 1) {
			select {
			case <-ls.ps.sig:
			case <-ls.done:
				return
			case <-timeout:
				impatient = true
				obs.Stuck++
				return
			}
		}
	}
	var streams []*liveStream
	for _, p := range c.Peers {
		if p < 1 || p > maxPeerNo {
			panic("fani case: peer number out of range")
		}
		ls := &liveStream{ps: newPStream(p2pfakes.PeerID(p)), done: make(chan struct{})}
		streams = append(streams, ls)
		go func() {
			cm.ProcessMessagesFromStream(ls.ps)
			close(ls.done)
		}()
		awaitIdle(ls)
	}

	pending := map[int]int{}
	recv := func(n int) {
		select {
		case m := <-chans[n]:
			record(n, m)
			pending[n]--
		case <-time.After(patience()):
			impatient = true
			obs.Lost++
			pending[n] = 0
		}
	}
	step := 0
	choice := func() int {
		x := 0
		if len(c.Sched) > 0 {
			x = c.Sched[step%len(c.Sched)]
			if x < 0 {
				x = -x
			}
		}
		step++
		return x
	}
	due := func() []int {
		var l []int
		for _, n := range order {
			if pending[n] > 0 {
				l = append(l, n)
			}
		}
		return l
	}
	collectAll := func() {
		for l := due(); len(l) > 0; l = due() {
			recv(l[choice()%len(l)])
		}
	}

	// ---- the script
	for i := 0; i < len(c.Script); i++ {
		e := c.Script[i]
		switch e.E {
		case "sub":
			oo := OpObs{}
			id := cm.Subscribe(e.S, comm.MessageType(e.T), getChan(e.C))
			if seenID[id] {
				repeated = true
			}
			seenID[id] = true
			ids = append(ids, id)
			oo.ID = string(id)
			if j := strings.LastIndex(oo.ID, "-"); j >= 0 {
				oo.U, _ = strconv.ParseUint(oo.ID[j+1:], 10, 64)
			}
			obs.Ops = append(obs.Ops, oo)
		case "unsub":
			collectAll() // nothing is in flight when a subscription is cancelled
			if e.K >= 0 && e.K < len(ids) {
				cm.UnSubscribe(ids[e.K])
			}
			obs.Ops = append(obs.Ops, OpObs{})
		case "idle":
			time.Sleep(time.Duration(e.Ms) * time.Millisecond)
		case "msg":
			if e.St < 0 || e.St >= len(streams) {
				panic("fani case: stream index out of range")
			}
			ls := streams[e.St]
			var data []byte
			for j := i; j < len(c.Script); j++ {
				m := c.Script[j]
				if j > i && !(m.E == "msg" && m.Join && m.St == e.St) {
					break
				}
				i = j
				data = append(data, wireLine(Msg{S: m.S, T: m.T, P: m.P})...)
				// expected receipts, for scheduling only
				for _, ch := range cm.GetSubscribers(m.S, comm.MessageType(m.T)) {
					if n, ok := num[ch]; ok {
						pending[n]++
					}
				}
			}
			ls.fed++
			ls.ps.push(data)
			awaitIdle(ls)
			switch c.Mode {
			case "eager":
				collectAll()
			case "mixed":
				for k := choice() % 4; k > 0; k-- {
					l := due()
					if len(l) == 0 {
						break
					}
					recv(l[choice()%len(l)])
				}
			}
		default:
			if !isOther(e.E) {
				panic("fani case: event " + e.E)
			}
			// an other operation of the communication layer, between the messages: whatever is in flight
			// stays in flight (nothing is collected first), later messages are fed as before
			doOther(cm, e.E, e.S, e.T, e.To)
		}
	}
	collectAll()
	for _, ls := range streams {
		ls.ps.shut()
		select {
		case <-ls.done:
		case <-time.After(patience()):
			impatient = true
			obs.Stuck++
		}
	}
	drainAll(order, chans, record, base, &obs)
	obs.Chans = order
	obs.Recv = recvObs(order, got, peerNo)
	return obs, repeated
}

// ---- slow cases: child processes, started together ---------------------------------------------------

var slowMu sync.Mutex
var slowJobs = map[string]chan Obs{}

func slowKey(c Case) string {
	b, _ := json.Marshal(c)
	return string(b)
}

func idleTotal(c Case) time.Duration {
	var d time.Duration
	for _, e := range c.Script {
		if e.E == "idle" {
			d += time.Duration(e.Ms) * time.Millisecond
		}
	}
	return d
}

func runSlowChild(c Case) Obs {
	self, err := os.Executable()
	if err != nil {
		panic(err)
	}
	in, _ := json.Marshal(c)
	limit := idleTotal(c) + 90*time.Second
	ctx, cancel := context.WithTimeout(context.Background(), limit)
	defer cancel()
	cmd := exec.CommandContext(ctx, self)
	cmd.WaitDelay = 5 * time.Second
	cmd.Env = append(os.Environ(), childEnv+"=1")
	cmd.Stdin = bytes.NewReader(in)
	var so, se bytes.Buffer
	cmd.Stdout, cmd.Stderr = &so, &se
	rerr := cmd.Run()
	var o Obs
	if rerr != nil || json.Unmarshal(bytes.TrimSpace(so.Bytes()), &o) != nil {
		panic(fmt.Sprint("slow case: the child process failed: ", rerr, " ", tail(se.String(), 600)))
	}
	return o
}

// prefetchSlow starts the slow cases of a generated batch, all at once.
func prefetchSlow(cases []Case) {
	slowMu.Lock()
	defer slowMu.Unlock()
	for _, c := range cases {
		if c.Kind != "fani" || !hasIdle(c) {
			continue
		}
		k := slowKey(c)
		if _, ok := slowJobs[k]; ok {
			continue
		}
		ch := make(chan Obs, 1)
		slowJobs[k] = ch
		c := c
		go func() {
			defer func() {
				if r := recover(); r != nil {
					ch <- Obs{Crash: fmt.Sprint(r)}
				}
			}()
			ch <- runSlowChild(c)
		}()
	}
}

func runSlow(c Case) Obs {
	slowMu.Lock()
	ch, ok := slowJobs[slowKey(c)]
	if ok {
		delete(slowJobs, slowKey(c))
	}
	slowMu.Unlock()
	if ok {
		return <-ch
	}
	return runSlowChild(c)
}

// in the child: a receipt that is due arrives within milliseconds once the reader is there; the
// deadline only bounds a changed implementation that dropped it
func slowChildMain(c Case) Obs {
	var o Obs
	for attempt := 0; attempt < 3; attempt++ {
		var rep bool
		o, rep = runFanI(c)
		o.Repeated = rep
		if !rep {
			break
		}
	}
	return o
}

// ---- generation ----------------------------------------------------------------------------------

type stPair struct {
	s string
	t uint8
}

// genFanI: a few "hot" (session, type) pairs so that consecutive messages of a stream mostly have
// the same key, and table operations on the hot pairs and on other pairs between them.
func genFanI(r *vgen.Rng) Case {
	fam := vgen.Pick(r, families)
	sess := append([]string{}, fam[:r.Range(1, len(fam))]...)
	types := make([]uint8, r.Range(1, 2))
	for i := range types {
		types[i] = uint8(r.Intn(14))
	}
	if r.Chance(1, 30) {
		types[0] = vgen.Pick(r, []uint8{14, 100, 127, 128, 200, 255})
	}
	hot := []stPair{{vgen.Pick(r, sess), vgen.Pick(r, types)}}
	if r.Chance(1, 3) {
		hot = append(hot, stPair{vgen.Pick(r, sess), vgen.Pick(r, types)})
	}
	anyPair := func() stPair {
		if r.Chance(3, 4) {
			return vgen.Pick(r, hot)
		}
		return stPair{vgen.Pick(r, sess), vgen.Pick(r, types)}
	}
	c := Case{Kind: "fani"}
	nstreams := vgen.Pick(r, []int{1, 1, 1, 2, 2, 3})
	for j := 0; j < nstreams; j++ {
		c.Peers = append(c.Peers, r.Range(1, 3))
	}
	nsub, nextChan, pno := 0, 1, 0
	var live []int // indices (among the subs) of subscriptions not cancelled yet
	sub := func(p stPair) {
		ch := nextChan
		if nextChan > 1 && r.Chance(1, 4) {
			ch = r.Range(1, nextChan-1)
		} else {
			nextChan++
		}
		c.Script = append(c.Script, Ev{E: "sub", S: p.s, T: p.t, C: ch})
		live = append(live, nsub)
		nsub++
	}
	unsub := func() {
		if nsub == 0 {
			return
		}
		k := r.Intn(nsub) // possibly cancelled before
		if len(live) > 0 && r.Chance(4, 5) {
			j := r.Intn(len(live))
			k = live[j]
			live = append(live[:j], live[j+1:]...)
		}
		c.Script = append(c.Script, Ev{E: "unsub", K: k})
	}
	lastSt, lastWasMsg := -1, false
	msg := func() {
		p := anyPair()
		st := r.Intn(nstreams)
		if lastSt >= 0 && r.Chance(2, 3) {
			st = lastSt // mostly the same stream again
		}
		e := Ev{E: "msg", S: p.s, T: p.t, P: fmt.Sprintf("p%d", pno), St: st}
		pno++
		if lastWasMsg && st == lastSt && r.Chance(1, 4) {
			e.Join = true
		}
		c.Script = append(c.Script, e)
		lastSt = st
	}
	// some subscriptions first (not always: the first message may find nobody)
	for i := r.Intn(4); i > 0; i-- {
		sub(anyPair())
	}
	n := r.Range(5, 14)
	nmsg := 0
	for i := 0; i < n; i++ {
		x := r.Intn(100)
		switch {
		case x < 55:
			msg()
			nmsg++
			lastWasMsg = true
			continue
		case x < 85 && x%2 == 0 || nsub == 0:
			sub(anyPair())
		case x < 85:
			unsub()
		case x < 93:
			sub(vgen.Pick(r, hot)) // a late subscriber of the hot pair
		default:
			unsub()
		}
		lastWasMsg = false
	}
	if nmsg < 2 {
		msg()
		msg()
	}
	c.Mode = vgen.Pick(r, []string{"late", "late", "late", "mixed", "mixed", "eager"})
	for i := 0; i < 16; i++ {
		c.Sched = append(c.Sched, r.Intn(1000))
	}
	switch x := r.Intn(100); {
	case x < 55:
		c.Cap = 0
	case x < 75:
		c.Cap = 1
	default:
		c.Cap = 2*n + 8
	}
	if r.Chance(1, 4) {
		c.Procs = 1
	}
	return c
}

// genFanIX: an interleaved script with other operations of the communication layer between the
// messages: after a subscription and before the next message of its pair, between two messages of one
// stream, after cancellations.
func genFanIX(r *vgen.Rng) Case {
	c := genFanI(r)
	var sess []string
	var types []uint8
	seenS, seenT := map[string]bool{}, map[uint8]bool{}
	for _, e := range c.Script {
		if e.E == "sub" || e.E == "msg" {
			if !seenS[e.S] {
				seenS[e.S] = true
				sess = append(sess, e.S)
			}
			if !seenT[e.T] {
				seenT[e.T] = true
				types = append(types, e.T)
			}
		}
	}
	var out []Ev
	placed := false
	for i, e := range c.Script {
		joinedNext := i+1 < len(c.Script) && c.Script[i+1].E == "msg" && c.Script[i+1].Join
		out = append(out, e)
		if joinedNext {
			continue // messages joined into one Read have nothing between them
		}
		switch {
		case e.E == "sub" && r.Chance(1, 2):
			out = append(out, Ev{E: "close", S: e.S})
			placed = true
		case r.Chance(1, 3):
			op, s, t, to := genOther(r, sess, types)
			out = append(out, Ev{E: op, S: s, T: t, To: to})
			placed = true
		}
	}
	if !placed {
		// before the last message
		j := len(out) - 1
		for j > 0 && (out[j].E != "msg" || out[j].Join) {
			j--
		}
		out = append(out[:j], append([]Ev{{E: "close", S: out[j].S}}, out[j:]...)...)
	}
	c.Script = out
	return c
}

// genSlow: subscribers of a pair, a few messages for them that nobody reads (unbuffered or
// capacity-1 channels: the deliveries are pending), possibly a late subscriber and further messages,
// then nobody does anything for idleMs; afterwards a little more traffic (also a cancellation, before
// which everything due is read) and only then the readers catch up.  Everything sent to a subscription
// live at the time must still arrive.
func genSlow(r *vgen.Rng, idleMs int) Case {
	fam := vgen.Pick(r, families)
	a := stPair{vgen.Pick(r, fam), uint8(r.Intn(14))}
	b := stPair{vgen.Pick(r, fam), uint8(r.Intn(14))}
	c := Case{Kind: "fani", Mode: "late", Cap: vgen.Pick(r, []int{0, 0, 1})}
	nstreams := vgen.Pick(r, []int{1, 1, 2})
	for j := 0; j < nstreams; j++ {
		c.Peers = append(c.Peers, r.Range(1, 3))
	}
	pno, nsub, nextChan := 0, 0, 1
	sub := func(p stPair) {
		c.Script = append(c.Script, Ev{E: "sub", S: p.s, T: p.t, C: nextChan})
		nextChan++
		nsub++
	}
	msgs := func(p stPair, n int) {
		st := r.Intn(nstreams)
		for i := 0; i < n; i++ {
			c.Script = append(c.Script, Ev{E: "msg", S: p.s, T: p.t, P: fmt.Sprintf("p%d", pno), St: st, Join: i > 0 && r.Chance(1, 3)})
			pno++
		}
	}
	for i := r.Range(1, 3); i > 0; i-- {
		sub(a)
	}
	if r.Bool() {
		sub(b)
	}
	msgs(a, r.Range(2, 4))
	if r.Bool() {
		msgs(b, 1)
	}
	if r.Bool() {
		sub(a) // a late subscriber: owed only what follows
		msgs(a, r.Range(1, 2))
	}
	c.Script = append(c.Script, Ev{E: "idle", Ms: idleMs})
	if r.Bool() {
		msgs(a, r.Range(1, 2))
	}
	switch r.Intn(3) {
	case 0:
		c.Script = append(c.Script, Ev{E: "unsub", K: r.Intn(nsub)})
		msgs(a, 1)
	case 1:
		sub(a)
		msgs(a, 1)
	}
	for i := 0; i < 16; i++ {
		c.Sched = append(c.Sched, r.Intn(1000))
	}
	return c
}

// ---- printing ------------------------------------------------------------------------------------

func fanICoq(c Case, o Obs) string {
	var evs []string
	k := 0
	others := hasOther(c)
	for _, e := range c.Script {
		if isOther(e.E) {
			evs = append(evs, "XOth ("+otherCoq(e.E, e.S, e.T, e.To)+")")
			continue
		}
		switch e.E {
		case "sub":
			u := uint64(0)
			if k < len(o.Ops) {
				u = o.Ops[k].U
			}
			evs = append(evs, "FOp (Sub "+vgen.Str(e.S)+" "+vgen.N(uint64(e.T))+" "+vgen.N(u)+" "+vgen.N(uint64(e.C))+")")
			k++
		case "unsub":
			evs = append(evs, "FOp (Unsub "+vgen.Nat(e.K)+")")
			k++
		case "msg":
			evs = append(evs, "FMsg "+msgCoq(e.S, e.T, e.P, c.Peers[e.St]))
		}
	}
	recv := make([]string, len(o.Recv))
	for i, l := range o.Recv {
		recv[i] = vgen.ListOf(l, func(m RMsg) string { return msgCoq(m.S, m.T, m.P, m.F) })
	}
	if others {
		for i, e := range evs {
			if !strings.HasPrefix(e, "XOth ") {
				evs[i] = "XEv (" + e + ")"
			}
		}
		return "FanIX " + vgen.List(evs) + " " + ints(o.Chans) + " " + vgen.List(recv)
	}
	return "FanI " + vgen.List(evs) + " " + ints(o.Chans) + " " + vgen.List(recv)
}

// non-trivial: a table operation strictly between two messages of one stream
func fanINonTrivial(c Case) bool {
	if hasOther(c) {
		// an other operation between a subscription and a later message
		nsub, oth := 0, false
		for _, e := range c.Script {
			switch {
			case e.E == "sub":
				nsub++
			case isOther(e.E) && nsub > 0:
				oth = true
			case e.E == "msg" && oth:
				return true
			}
		}
		return false
	}
	seen := map[int]bool{}    // streams that carried a message
	opAfter := map[int]bool{} // ... and a table operation since
	for _, e := range c.Script {
		switch e.E {
		case "msg":
			if opAfter[e.St] {
				return true
			}
			seen[e.St] = true
		case "sub", "unsub":
			for st := range seen {
				opAfter[st] = true
			}
		}
	}
	return false
}
