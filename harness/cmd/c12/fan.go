// Fan-out cases of the C12 runner: several inbound messages in flight at once.
//
// A table is built with Subscribe / UnSubscribe on the real Libp2pCommunication; then one or more
// inbound streams are handed to the real ProcessMessagesFromStream (one goroutine per stream, as
// libp2p does for stream handlers).  A stream hands the decoder one CHUNK per Read: a chunk holds one
// or several messages written back to back.  The harness decides when a chunk becomes readable and
// when which subscriber channel is read - a schedule that is part of the case - so the decoder can be
// arbitrarily far ahead of the receivers (nobody reads before the whole stream was decoded), level
// with them, or anything in between, also with GOMAXPROCS(1).
//
// Nothing sleeps for synchronisation:
//   - "the decoder has dispatched everything it was given" = it is back in Read for the next chunk
//     (the stream signals that) or ProcessMessagesFromStream returned;
//   - a scheduled receipt blocks until the message arrives (the real code sends from one goroutine per
//     (message, subscriber), so every expected receipt does arrive; how many are expected is taken
//     from the real GetSubscribers at the time the chunk is fed, for scheduling only);
//   - at the end every channel is read until all delivery goroutines have exited, which collects
//     whatever else was sent (duplicates, messages for the wrong channel).
//
// Deadlines exist only so that a changed implementation that loses a message or blocks cannot hang the
// run; the unchanged code never gets near them.  What is observed: per channel the messages received
// (session, type, payload, From mapped to the peer's number), compared as a multiset in Coq.
package main

import (
	"encoding/hex"
	"encoding/json"
	"fmt"
	"io"
	"runtime"
	"sort"
	"strconv"
	"strings"
	"sync"
	"time"

	"github.com/ChainSafe/sygma-relayer/comm"
	"github.com/ChainSafe/sygma-relayer/comm/p2p"
	"github.com/libp2p/go-libp2p/core/network"
	"github.com/libp2p/go-libp2p/core/peer"

	"verifharness/p2pfakes"
	"verifharness/vgen"
)

type Msg struct {
	S string `json:"s"`
	T uint8  `json:"t"`
	P string `json:"p"` // payload (printable ASCII); equal P = equal payload bytes
}

type StreamIn struct {
	Peer   int     `json:"peer"`           // number of the authenticated remote peer of the stream
	Chunks [][]Msg `json:"chunks"`         // one chunk = what one Read returns: messages back to back
	Idle   bool    `json:"idle,omitempty"` // no EOF until every scheduled receipt was made
}

// RMsg is what a channel received.
type RMsg struct {
	S string `json:"s"`
	T uint8  `json:"t"`
	P string `json:"p"`
	F int    `json:"f"`
}

const (
	fromUnknown  = 1000000 // From is none of the peers of the case
	fromMutated  = 2000000 // added when the received struct changed after it was received
	maxPeerNo    = 4
	longPatience = 20 * time.Second
)

// After the first deadline was hit (only a changed implementation gets there) the rest of the run
// does not wait that long again.  Giving up early on a scheduled receipt or on the decoder never
// loses an observation: whatever is sent later is still collected by the final read of all channels,
// whose own deadline stays generous.
var impatient, finalImpatient bool
var basePatience = longPatience

func patience() time.Duration {
	if impatient {
		return 25 * time.Millisecond
	}
	return basePatience
}

func finalPatience() time.Duration {
	if finalImpatient {
		return 2 * time.Second
	}
	return longPatience
}

// pstream is an inbound stream whose content becomes readable chunk by chunk, under the control of
// the harness.  Feeding never blocks and never drops data (a decoder that is busy finds the chunks
// queued); every time the reader comes back for more, `reads` is incremented and `sig` is poked.
type pstream struct {
	network.Stream
	conn    *p2pfakes.Conn
	mu      sync.Mutex
	cond    *sync.Cond
	queue   [][]byte
	closed  bool
	reads   int
	sig     chan struct{}
	pending []byte
}

func newPStream(remote peer.ID) *pstream {
	s := &pstream{conn: &p2pfakes.Conn{Remote: remote}, sig: make(chan struct{}, 1)}
	s.cond = sync.NewCond(&s.mu)
	return s
}

func (s *pstream) Read(p []byte) (int, error) {
	if len(s.pending) == 0 {
		s.mu.Lock()
		s.reads++
		select {
		case s.sig <- struct{}{}:
		default:
		}
		for len(s.queue) == 0 && !s.closed {
			s.cond.Wait()
		}
		if len(s.queue) == 0 {
			s.mu.Unlock()
			return 0, io.EOF
		}
		s.pending = s.queue[0]
		s.queue = s.queue[1:]
		s.mu.Unlock()
	}
	n := copy(p, s.pending)
	s.pending = s.pending[n:]
	return n, nil
}

func (s *pstream) push(b []byte) {
	s.mu.Lock()
	s.queue = append(s.queue, b)
	s.cond.Broadcast()
	s.mu.Unlock()
}

func (s *pstream) shut() {
	s.mu.Lock()
	s.closed = true
	s.cond.Broadcast()
	s.mu.Unlock()
}

// came back for more at least k times?
func (s *pstream) readsAtLeast(k int) bool {
	s.mu.Lock()
	defer s.mu.Unlock()
	return s.reads >= k
}

func (s *pstream) Conn() network.Conn { return s.conn }
func (s *pstream) Close() error       { return nil }

func printable(s string) string {
	for i := 0; i < len(s); i++ {
		if s[i] < 0x20 || s[i] > 0x7e {
			return "hex:" + hex.EncodeToString([]byte(s))
		}
	}
	return s
}

func wireLine(m Msg) []byte {
	line, err := json.Marshal(map[string]interface{}{
		"message_type": m.T, "message_id": m.S, "payload": []byte(m.P), "From": "smuggled", "from": "x",
	})
	if err != nil {
		panic(err)
	}
	return append(line, '\n')
}

type receipt struct {
	ptr  *comm.WrappedMessage
	snap RMsg
}

func runFan(c Case) (Obs, bool) {
	if c.Procs > 0 {
		old := runtime.GOMAXPROCS(c.Procs)
		defer runtime.GOMAXPROCS(old)
	}
	peerNo := map[peer.ID]int{}
	for i := 1; i <= maxPeerNo; i++ {
		peerNo[p2pfakes.PeerID(i)] = i
	}
	h := p2pfakes.NewHost(p2pfakes.PeerID(0))
	cm := p2p.NewCommunication(h, "p2p/sygma")

	// ---- the table
	chans := map[int]chan *comm.WrappedMessage{}
	num := map[chan *comm.WrappedMessage]int{}
	var order []int
	getChan := func(n int) chan *comm.WrappedMessage {
		if ch, ok := chans[n]; ok {
			return ch
		}
		ch := make(chan *comm.WrappedMessage, c.Cap)
		chans[n] = ch
		num[ch] = n
		order = append(order, n)
		return ch
	}
	var ids []comm.SubscriptionID
	seenID := map[comm.SubscriptionID]bool{}
	repeated := false
	obs := Obs{}
	for _, o := range c.Ops {
		oo := OpObs{}
		switch o.Op {
		case "sub":
			id := cm.Subscribe(o.S, comm.MessageType(o.T), getChan(o.C))
			if seenID[id] {
				repeated = true
			}
			seenID[id] = true
			ids = append(ids, id)
			oo.ID = string(id)
			if i := strings.LastIndex(oo.ID, "-"); i >= 0 {
				oo.U, _ = strconv.ParseUint(oo.ID[i+1:], 10, 64)
			}
		case "unsub":
			if o.K >= 0 && o.K < len(ids) {
				cm.UnSubscribe(ids[o.K])
			}
		default:
			panic("fan case: table operation " + o.Op)
		}
		obs.Ops = append(obs.Ops, oo)
	}
	sort.Ints(order)

	// ---- receipts
	var mu sync.Mutex
	got := map[int][]receipt{}
	record := func(n int, m *comm.WrappedMessage) {
		r := receipt{ptr: m}
		if m == nil {
			r.snap = RMsg{S: "<nil>", T: 255, P: "<nil>", F: fromUnknown}
		} else {
			f, ok := peerNo[m.From]
			if !ok {
				f = fromUnknown
			}
			r.snap = RMsg{S: m.SessionID, T: uint8(m.MessageType), P: string(m.Payload), F: f}
		}
		mu.Lock()
		got[n] = append(got[n], r)
		mu.Unlock()
	}

	// ---- the streams
	type liveStream struct {
		in     StreamIn
		ps     *pstream
		done   chan struct{}
		next   int
		closed bool
	}
	base := runtime.NumGoroutine()
	// the decoder consumed the chunks fed so far and is back in Read (or returned)
	awaitIdle := func(ls *liveStream) {
		timeout := time.After(patience())
		for !ls.ps.readsAtLeast(ls.next + 1) {
			select {
			case <-ls.ps.sig:
			case <-ls.done:
				return
			case <-timeout:
				impatient = true
				obs.Stuck++
				return
			}
		}
	}
	var streams []*liveStream
	for _, in := range c.Streams {
		if in.Peer < 1 || in.Peer > maxPeerNo {
			panic("fan case: peer number out of range")
		}
		ls := &liveStream{in: in, ps: newPStream(p2pfakes.PeerID(in.Peer)), done: make(chan struct{})}
		streams = append(streams, ls)
		go func() {
			cm.ProcessMessagesFromStream(ls.ps)
			close(ls.done)
		}()
		awaitIdle(ls)
	}
	closeStream := func(ls *liveStream) {
		if ls.closed {
			return
		}
		ls.closed = true
		ls.ps.shut()
		select {
		case <-ls.done:
		case <-time.After(patience()):
			impatient = true
			obs.Stuck++
		}
	}
	pending := map[int]int{}
	feed := func(ls *liveStream) {
		chunk := ls.in.Chunks[ls.next]
		ls.next++
		var data []byte
		for _, m := range chunk {
			data = append(data, wireLine(m)...)
			for _, ch := range cm.GetSubscribers(m.S, comm.MessageType(m.T)) {
				if n, ok := num[ch]; ok {
					pending[n]++
				}
			}
		}
		ls.ps.push(data)
		awaitIdle(ls)
		if ls.next == len(ls.in.Chunks) && !ls.in.Idle {
			closeStream(ls)
		}
	}
	recv := func(n int) {
		select {
		case m := <-chans[n]:
			record(n, m)
			pending[n]--
		case <-time.After(patience()):
			impatient = true
			obs.Lost++
			pending[n] = 0
		}
	}

	// ---- the schedule
	for step := 0; ; step++ {
		var feeds []*liveStream
		for _, ls := range streams {
			if ls.next < len(ls.in.Chunks) {
				feeds = append(feeds, ls)
			}
		}
		var recvs []int
		for _, n := range order {
			if pending[n] > 0 {
				recvs = append(recvs, n)
			}
		}
		if len(feeds)+len(recvs) == 0 {
			break
		}
		choice := 0
		if len(c.Sched) > 0 {
			choice = c.Sched[step%len(c.Sched)]
			if choice < 0 {
				choice = -choice
			}
		}
		switch {
		case c.Mode == "late" && len(feeds) > 0: // nobody reads before everything was decoded
			feed(feeds[choice%len(feeds)])
		case c.Mode == "eager" && len(recvs) > 0: // prompt receivers
			recv(recvs[choice%len(recvs)])
		default:
			k := choice % (len(feeds) + len(recvs))
			if k < len(feeds) {
				feed(feeds[k])
			} else {
				recv(recvs[k-len(feeds)])
			}
		}
	}
	for _, ls := range streams {
		closeStream(ls)
	}

	drainAll(order, chans, record, base, &obs)
	obs.Chans = order
	obs.Recv = recvObs(order, got, peerNo)
	return obs, repeated
}

// drainAll collects whatever else was sent: every channel is read until all delivery goroutines are
// gone (base = number of goroutines before the first stream was started).
func drainAll(order []int, chans map[int]chan *comm.WrappedMessage, record func(int, *comm.WrappedMessage), base int, obs *Obs) {
	stop := make(chan struct{})
	var wg sync.WaitGroup
	for _, n := range order {
		n, ch := n, chans[n]
		wg.Add(1)
		go func() {
			defer wg.Done()
			for {
				select {
				case m := <-ch:
					record(n, m)
				case <-stop:
					for {
						select {
						case m := <-ch:
							record(n, m)
						default:
							return
						}
					}
				}
			}
		}()
	}
	deadline := time.Now().Add(finalPatience())
	for runtime.NumGoroutine() > base+len(order) {
		if time.Now().After(deadline) {
			finalImpatient = true
			obs.Stuck++
			break
		}
		runtime.Gosched()
		time.Sleep(50 * time.Microsecond)
	}
	close(stop)
	wg.Wait()
}

// recvObs is the observation: per channel (in the given order) the sorted multiset of what it
// received; a struct that changed after it was received is marked.
func recvObs(order []int, got map[int][]receipt, peerNo map[peer.ID]int) [][]RMsg {
	out := make([][]RMsg, len(order))
	for i, n := range order {
		l := []RMsg{}
		for _, r := range got[n] {
			s := r.snap
			if r.ptr != nil {
				f, ok := peerNo[r.ptr.From]
				if !ok {
					f = fromUnknown
				}
				if r.ptr.SessionID != s.S || uint8(r.ptr.MessageType) != s.T || string(r.ptr.Payload) != s.P || f != s.F {
					s.F += fromMutated // the struct handed to the subscriber was overwritten afterwards
				}
			}
			s.S, s.P = printable(s.S), printable(s.P)
			l = append(l, s)
		}
		sort.Slice(l, func(a, b int) bool {
			x, y := l[a], l[b]
			if x.S != y.S {
				return x.S < y.S
			}
			if x.T != y.T {
				return x.T < y.T
			}
			if x.P != y.P {
				return x.P < y.P
			}
			return x.F < y.F
		})
		out[i] = l
	}
	return out
}

// ---- generation ----------------------------------------------------------------------------------

func genFan(r *vgen.Rng) Case {
	fam := vgen.Pick(r, families)
	sess := append([]string{}, fam[:r.Range(1, len(fam))]...)
	if r.Chance(1, 4) {
		sess = append(sess, vgen.Pick(r, vgen.Pick(r, families)))
	}
	types := make([]uint8, r.Range(1, 3))
	for i := range types {
		types[i] = uint8(r.Intn(14))
	}
	if r.Chance(1, 25) {
		types[0] = vgen.Pick(r, []uint8{14, 100, 127, 128, 200, 255})
	}
	c := Case{Kind: "fan"}
	// the table: several subscribers per (session, type), channels holding several subscriptions,
	// some cancelled
	type st struct {
		s string
		t uint8
	}
	var pairs []st
	nsub, nextChan := 0, 1
	nops := r.Range(1, 9)
	for i := 0; i < nops; i++ {
		if nsub > 0 && r.Chance(1, 5) {
			c.Ops = append(c.Ops, Op{Op: "unsub", K: r.Intn(nsub)})
			continue
		}
		p := st{vgen.Pick(r, sess), vgen.Pick(r, types)}
		if len(pairs) > 0 && r.Chance(1, 3) {
			p = vgen.Pick(r, pairs) // a further subscriber of an already subscribed pair
		}
		ch := nextChan
		if nextChan > 1 && r.Chance(1, 4) {
			ch = r.Range(1, nextChan-1)
		} else {
			nextChan++
		}
		c.Ops = append(c.Ops, Op{Op: "sub", S: p.s, T: p.t, C: ch})
		pairs = append(pairs, p)
		nsub++
	}
	// the messages
	nstreams := vgen.Pick(r, []int{1, 1, 1, 1, 1, 2, 2, 3})
	var all []Msg
	pno := 0
	for j := 0; j < nstreams; j++ {
		nm := r.Range(2, 6)
		if nstreams > 1 && r.Chance(1, 3) {
			nm = 1
		}
		var msgs []Msg
		for k := 0; k < nm; k++ {
			var m Msg
			switch {
			case len(all) > 0 && r.Chance(1, 6): // an equal message once more
				m = vgen.Pick(r, all)
			default:
				p := st{vgen.Pick(r, sess), vgen.Pick(r, types)}
				if len(pairs) > 0 && r.Chance(3, 4) {
					p = vgen.Pick(r, pairs)
				}
				m = Msg{S: p.s, T: p.t, P: fmt.Sprintf("p%d", pno)}
				pno++
				if len(all) > 0 && r.Chance(1, 8) { // the same payload for another session / type
					m.P = vgen.Pick(r, all).P
				}
			}
			msgs = append(msgs, m)
			all = append(all, m)
		}
		in := StreamIn{Peer: r.Range(1, 3), Idle: r.Chance(1, 3)}
		switch x := r.Intn(100); {
		case x < 45: // everything back to back
			in.Chunks = [][]Msg{msgs}
		case x < 75: // one message per Read
			for _, m := range msgs {
				in.Chunks = append(in.Chunks, []Msg{m})
			}
		default:
			cur := []Msg{}
			for _, m := range msgs {
				cur = append(cur, m)
				if r.Bool() {
					in.Chunks = append(in.Chunks, cur)
					cur = []Msg{}
				}
			}
			if len(cur) > 0 {
				in.Chunks = append(in.Chunks, cur)
			}
		}
		c.Streams = append(c.Streams, in)
	}
	c.Mode = vgen.Pick(r, []string{"late", "late", "late", "late", "mixed", "mixed", "mixed", "eager", "eager"})
	for i := 0; i < 16; i++ {
		c.Sched = append(c.Sched, r.Intn(1000))
	}
	switch x := r.Intn(100); {
	case x < 55:
		c.Cap = 0
	case x < 75:
		c.Cap = 1
	default:
		c.Cap = 2*len(all) + 8
	}
	if r.Chance(7, 20) {
		c.Procs = 1
	}
	return c
}

// ---- printing ------------------------------------------------------------------------------------

func msgCoq(s string, t uint8, p string, f int) string {
	return "(" + vgen.Str(s) + ", " + vgen.N(uint64(t)) + ", " + vgen.Str(p) + ", " + vgen.N(uint64(f)) + ")"
}

func fanCoq(c Case, o Obs) string {
	ops := make([]string, len(c.Ops))
	for i, op := range c.Ops {
		if op.Op == "sub" {
			ops[i] = "Sub " + vgen.Str(op.S) + " " + vgen.N(uint64(op.T)) + " " + vgen.N(o.Ops[i].U) + " " + vgen.N(uint64(op.C))
		} else {
			ops[i] = "Unsub " + vgen.Nat(op.K)
		}
	}
	var msgs []string
	for _, in := range c.Streams {
		for _, chunk := range in.Chunks {
			for _, m := range chunk {
				msgs = append(msgs, msgCoq(m.S, m.T, m.P, in.Peer))
			}
		}
	}
	recv := make([]string, len(o.Recv))
	for i, l := range o.Recv {
		recv[i] = vgen.ListOf(l, func(m RMsg) string { return msgCoq(m.S, m.T, m.P, m.F) })
	}
	return "Fan " + vgen.List(ops) + " " + vgen.List(msgs) + " " + ints(o.Chans) + " " + vgen.List(recv)
}

func fanNonTrivial(c Case) bool {
	nsub, nmsg := 0, 0
	for _, op := range c.Ops {
		if op.Op == "sub" {
			nsub++
		}
	}
	for _, in := range c.Streams {
		for _, chunk := range in.Chunks {
			nmsg += len(chunk)
		}
	}
	return nsub >= 1 && nmsg >= 2
}
