// The OTHER operations of the communication layer in the operation language of the table (ops) and
// interleaved (fani) cases: everything a holder of the Libp2pCommunication can call besides
// Subscribe / UnSubscribe / an inbound message -
//
//	close    CloseSession(s)                          (the tss coordinator calls it when a session ends)
//	bcast    Broadcast(peers, payload, type, s)       (over the fake host: reachable peers, a peer that
//	                                                   refuses the dial, a peer without address, itself)
//	health   comm.ExecuteCommHealthCheck(comm, peers) (Broadcast of an Unknown-type message per peer, then
//	                                                   CloseSession of its own session id)
//	handler  StreamHandlerFunc on an inbound stream that carries no complete message (empty, garbage,
//	         a line that is not JSON, an unterminated line)
//
// The property says who receives a message is decided by subscribe and cancel alone; the judge is the
// unchanged table / receipt judge (theorems C12_other_ops_frame, C12_xjudge_*, C12_fanix_*): after each
// of these operations the subscriber lists of the whole universe are looked up again, and later
// messages must still reach exactly the live subscriptions.
package main

import (
	"github.com/ChainSafe/sygma-relayer/comm"
	"github.com/ChainSafe/sygma-relayer/comm/p2p"
	"github.com/libp2p/go-libp2p/core/peer"

	"verifharness/p2pfakes"
	"verifharness/vgen"
)

// peer numbers of the outbound side: 0 = this relayer, 1..3 reachable, 4 refuses the dial, 5 has no address
const (
	peerRefusing = 4
	peerNoAddr   = 5
)

// what the inbound stream of a handler operation carries (named: the Coq term shows the name)
var handlerData = map[string]string{
	"empty":        "",
	"newline":      "\n",
	"garbage":      "garbage\n",
	"half-json":    "{\"message_type\":1\n",
	"unterminated": "{\"message_type\":1,\"message_id\":\"1-2-100\",\"payload\":\"bTA=\"}",
	"braces":       "{}",
}

func isOther(op string) bool {
	return op == "close" || op == "bcast" || op == "health" || op == "handler"
}

func newOutHost() *p2pfakes.OutHost {
	h := p2pfakes.NewOutHost(p2pfakes.PeerID(0))
	for i := 0; i <= peerRefusing; i++ {
		h.Know(p2pfakes.PeerID(i))
	}
	h.Refuse(p2pfakes.PeerID(peerRefusing))
	return h
}

func outPeers(to []int) peer.IDSlice {
	out := make(peer.IDSlice, 0, len(to))
	for _, n := range to {
		out = append(out, p2pfakes.PeerID(n))
	}
	return out
}

// doOther performs one of the other operations on the real communication object.
func doOther(cm p2p.Libp2pCommunication, op, s string, t uint8, to []int) {
	switch op {
	case "close":
		cm.CloseSession(s)
	case "bcast":
		_ = cm.Broadcast(outPeers(to), []byte("out"), comm.MessageType(t), s)
	case "health":
		_ = comm.ExecuteCommHealthCheck(cm, outPeers(to))
	case "handler":
		data, ok := handlerData[s]
		if !ok {
			panic("handler operation: unknown stream content " + s)
		}
		cm.StreamHandlerFunc(p2pfakes.NewStream(p2pfakes.PeerID(1), []byte(data)))
	default:
		panic("unknown other operation " + op)
	}
}

// genOther draws an other operation aimed at the sessions / types in use (and at confusable ones).
func genOther(r *vgen.Rng, sess []string, types []uint8) (op, s string, t uint8, to []int) {
	pickPeers := func() []int {
		n := r.Range(1, 3)
		var l []int
		for i := 0; i < n; i++ {
			l = append(l, vgen.Pick(r, []int{1, 2, 3, 1, 2, 3, 0, peerRefusing, peerNoAddr}))
		}
		return l
	}
	s = vgen.Pick(r, sess)
	if r.Chance(1, 6) {
		s = vgen.Pick(r, vgen.Pick(r, families))
	}
	t = vgen.Pick(r, types)
	switch x := r.Intn(100); {
	case x < 50:
		return "close", s, 0, nil
	case x < 75:
		if r.Chance(1, 4) {
			t = vgen.Pick(r, []uint8{uint8(comm.TssFailMsg), uint8(comm.CoordinatorLeaveMsg), uint8(comm.Unknown)})
		}
		return "bcast", s, t, pickPeers()
	case x < 90:
		return "health", "", 0, pickPeers()
	default:
		return "handler", vgen.Pick(r, []string{"empty", "newline", "garbage", "half-json", "unterminated", "braces"}), 0, nil
	}
}

func otherCoq(op, s string, t uint8, to []int) string {
	switch op {
	case "close":
		return "OClose " + vgen.Str(s)
	case "bcast":
		return "OBcast " + vgen.Str(s) + " " + vgen.N(uint64(t)) + " " + ints(to)
	case "health":
		return "OHealth " + ints(to)
	}
	return "OHandler " + vgen.Str(s)
}
