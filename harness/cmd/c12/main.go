// C12 correspondence runner: drives the REAL comm/p2p.Libp2pCommunication (Subscribe / UnSubscribe /
// GetSubscribers and the fan-out of ProcessMessagesFromStream over an inbound stream) on operation
// lists over several sessions, and the real comm.SubscriptionID.Unwrap on built and arbitrary ids.
// Fan cases (fan.go): several messages in flight on one or more streams while the subscribers read
// late / in an arbitrary order; per channel the multiset of messages received is judged.
package main

import (
	"encoding/json"
	"fmt"
	"os"
	"runtime"
	"sort"
	"strconv"
	"strings"
	"time"

	"github.com/ChainSafe/sygma-relayer/comm"
	"github.com/ChainSafe/sygma-relayer/comm/p2p"
	"github.com/rs/zerolog"

	"verifharness/p2pfakes"
	"verifharness/vgen"
)

type Op struct {
	Op string `json:"op"` // sub | unsub | deliver | other operations (other.go): close | bcast | health | handler
	S  string `json:"s,omitempty"`
	T  uint8  `json:"t,omitempty"`
	C  int    `json:"c,omitempty"`  // channel number (sub)
	K  int    `json:"k,omitempty"`  // index of the Sub whose returned id is cancelled (unsub)
	To []int  `json:"to,omitempty"` // bcast / health: the addressees (peer numbers, see other.go)
}

type ST struct {
	S string `json:"s"`
	T uint8  `json:"t"`
}

type Case struct {
	Kind  string `json:"kind"` // ops | fan | fani | conc | race | unw | raw
	Ops   []Op   `json:"ops,omitempty"`
	Extra []ST   `json:"extra,omitempty"` // further (session,type) pairs whose subscriber lists are watched
	S     string `json:"s,omitempty"`     // unw
	T     uint8  `json:"t,omitempty"`
	U     uint32 `json:"u,omitempty"`
	ID    string `json:"id,omitempty"` // raw
	// fan (see fan.go): Ops (sub / unsub only) build the table, then the streams are decoded
	Streams []StreamIn `json:"streams,omitempty"`
	Mode    string     `json:"mode,omitempty"`  // late | mixed | eager: who goes first, decoder or receivers
	Sched   []int      `json:"sched,omitempty"` // the choices among the enabled feed / receive actions
	Cap     int        `json:"cap,omitempty"`   // capacity of the subscriber channels (0 = unbuffered)
	Procs   int        `json:"procs,omitempty"` // GOMAXPROCS during the case (0 = unchanged)
	// fani (see fani.go): a script of table operations, messages on the streams of Peers, idle periods
	Script []Ev  `json:"script,omitempty"`
	Peers  []int `json:"peers,omitempty"` // the authenticated remote peer (number) of every stream
	// conc / race (see conc.go): one sequential program per goroutine, all on one Libp2pCommunication
	Threads [][]Op `json:"threads,omitempty"` // ops: sub (C owned by the thread) | unsub (K-th sub of THIS thread) | get | deliver
	Round   int    `json:"round,omitempty"`   // the threads meet at a barrier every Round operations (0 = only at the start)
}

type OpObs struct {
	ID   string  `json:"id,omitempty"`
	U    uint64  `json:"u,omitempty"`
	View [][]int `json:"view"`
	Got  []int   `json:"got,omitempty"`
}

type Res struct {
	S string `json:"s"`
	T uint8  `json:"t"`
	I string `json:"i"`
}

type Obs struct {
	Ops      []OpObs `json:"ops,omitempty"`
	Universe []ST    `json:"universe,omitempty"`
	Repeated bool    `json:"repeated_id,omitempty"` // Subscribe returned an id twice in all 3 attempts
	Res      *Res    `json:"res,omitempty"`
	Err      string  `json:"err,omitempty"`
	// fan
	Chans []int    `json:"chans,omitempty"`
	Recv  [][]RMsg `json:"recv,omitempty"`
	Lost  int      `json:"lost,omitempty"`  // scheduled receipts that never arrived (deadline)
	Stuck int      `json:"stuck,omitempty"` // decoder / delivery goroutines that did not finish (deadline)
	// conc / race
	Conc      [][]COp `json:"conc,omitempty"`       // per thread, per operation
	Final     [][]int `json:"final,omitempty"`      // the table when all threads have finished, per universe pair
	Crash     string  `json:"crash,omitempty"`      // the child process died: first line of the fatal error
	Races     int     `json:"races,omitempty"`      // race detector reports involving the repo's comm packages
	RaceNote  string  `json:"race_note,omitempty"`  // the first of them
	RaceBuilt bool    `json:"race_built,omitempty"` // the child was the -race build
	Note      string  `json:"note,omitempty"`
}

const badOffset = 1000000 // a receipt whose content is not the delivered message

func universe(c Case) []ST {
	var u []ST
	seen := map[ST]bool{}
	add := func(p ST) {
		if !seen[p] {
			seen[p] = true
			u = append(u, p)
		}
	}
	for _, o := range c.Ops {
		if o.Op == "sub" || o.Op == "deliver" {
			add(ST{o.S, o.T})
		}
	}
	for _, p := range c.Extra {
		add(p)
	}
	return u
}

func waitQuiet(base int) {
	deadline := time.Now().Add(20 * time.Second)
	for runtime.NumGoroutine() > base {
		if time.Now().After(deadline) {
			panic("fan-out goroutines did not finish")
		}
		runtime.Gosched()
		time.Sleep(50 * time.Microsecond)
	}
}

func runOps(c Case) (Obs, bool) {
	uni := universe(c)
	remote := p2pfakes.PeerID(1)
	cm := p2p.NewCommunication(newOutHost(), "p2p/sygma")
	chans := map[int]chan *comm.WrappedMessage{}
	num := map[chan *comm.WrappedMessage]int{}
	var order []int
	getChan := func(n int) chan *comm.WrappedMessage {
		if ch, ok := chans[n]; ok {
			return ch
		}
		ch := make(chan *comm.WrappedMessage, 2*len(c.Ops)+8)
		chans[n] = ch
		num[ch] = n
		order = append(order, n)
		return ch
	}
	var ids []comm.SubscriptionID
	seenID := map[comm.SubscriptionID]bool{}
	repeated := false
	view := func() [][]int {
		v := make([][]int, len(uni))
		for i, p := range uni {
			l := []int{}
			for _, ch := range cm.GetSubscribers(p.S, comm.MessageType(p.T)) {
				n, ok := num[ch]
				if !ok {
					n = badOffset
				}
				l = append(l, n)
			}
			sort.Ints(l)
			v[i] = l
		}
		return v
	}
	obs := Obs{Universe: uni}
	for seq, o := range c.Ops {
		oo := OpObs{}
		switch o.Op {
		case "sub":
			id := cm.Subscribe(o.S, comm.MessageType(o.T), getChan(o.C))
			if seenID[id] {
				repeated = true
			}
			seenID[id] = true
			ids = append(ids, id)
			oo.ID = string(id)
			if i := strings.LastIndex(oo.ID, "-"); i >= 0 {
				oo.U, _ = strconv.ParseUint(oo.ID[i+1:], 10, 64)
			}
		case "unsub":
			if o.K >= 0 && o.K < len(ids) {
				cm.UnSubscribe(ids[o.K])
			}
		case "deliver":
			payload := []byte(fmt.Sprintf("m%d", seq))
			line, err := json.Marshal(map[string]interface{}{
				"message_type": o.T, "message_id": o.S, "payload": payload, "From": "smuggled", "from": "x",
			})
			if err != nil {
				panic(err)
			}
			base := runtime.NumGoroutine()
			cm.ProcessMessagesFromStream(p2pfakes.NewStream(remote, append(line, '\n')))
			waitQuiet(base)
			got := []int{}
			for _, n := range order {
				ch := chans[n]
				for len(ch) > 0 {
					m := <-ch
					if m != nil && m.SessionID == o.S && uint8(m.MessageType) == o.T &&
						string(m.Payload) == string(payload) && m.From == remote {
						got = append(got, n)
					} else {
						got = append(got, n+badOffset)
					}
				}
			}
			sort.Ints(got)
			oo.Got = got
		default:
			if !isOther(o.Op) {
				panic("unknown op " + o.Op)
			}
			doOther(cm, o.Op, o.S, o.T, o.To)
		}
		oo.View = view()
		obs.Ops = append(obs.Ops, oo)
	}
	return obs, repeated
}

// guarded runs a sequential case with a watchdog: a table operation that never returns (a changed
// implementation that keeps the mutex on some path) is reported as this case's failure after 30 s
// instead of hanging the runner until the orchestrator's timeout.
func guarded(f func() (Obs, bool)) (Obs, bool) {
	type res struct {
		o   Obs
		rep bool
		p   interface{}
	}
	ch := make(chan res, 1)
	go func() {
		var r res
		defer func() {
			r.p = recover()
			ch <- r
		}()
		r.o, r.rep = f()
	}()
	select {
	case r := <-ch:
		if r.p != nil {
			panic(r.p)
		}
		return r.o, r.rep
	case <-time.After(30 * time.Second):
		panic("a subscription table operation did not return within 30 s (blocked)")
	}
}

func run(c Case) Obs {
	switch c.Kind {
	case "ops", "fan":
		// uint32(time.Now().UnixNano()) is assumed fresh; an accidental repetition (2^-32 per pair) is
		// retried, a systematic one is reported through the judge (a subscriber is displaced).
		var o Obs
		for attempt := 0; attempt < 3; attempt++ {
			var rep bool
			if c.Kind == "fan" {
				o, rep = runFan(c)
			} else {
				o, rep = guarded(func() (Obs, bool) { return runOps(c) })
			}
			if !rep {
				return o
			}
		}
		o.Repeated = true
		return o
	case "fani":
		if hasIdle(c) {
			o := runSlow(c) // in a child process (started with the other slow cases of the batch)
			if o.Crash != "" {
				panic("slow case: " + o.Crash)
			}
			return o
		}
		var o Obs
		for attempt := 0; attempt < 3; attempt++ {
			var rep bool
			o, rep = runFanI(c)
			if !rep {
				return o
			}
		}
		o.Repeated = true
		return o
	case "conc", "race":
		return runConc(c)
	case "unw", "raw":
		id := comm.SubscriptionID(c.ID)
		if c.Kind == "unw" {
			id = comm.SubscriptionID(fmt.Sprintf("%s-%d-%d", c.S, comm.MessageType(c.T), c.U))
		}
		s, t, i, err := id.Unwrap()
		if err != nil {
			if id.SessionID() != "" || id.SubscriptionIdentifier() != "" {
				panic("accessors disagree with Unwrap")
			}
			return Obs{Err: "error"}
		}
		if id.SessionID() != s || id.SubscriptionIdentifier() != i || id.MessageType() != t {
			panic("accessors disagree with Unwrap")
		}
		return Obs{Res: &Res{S: s, T: uint8(t), I: i}}
	}
	panic("unknown kind " + c.Kind)
}

// ---- generation ----------------------------------------------------------------------------------

const hex64 = "9f86d081884c7d659a2feaa0c55ad015a3bf4f1b2b0b822cd15d6c15b0f00a08"

// families of session ids in which one id is a prefix / looks like a sub-id of another
var families = [][]string{
	{"1", "2", "1-2", "1-2-100"},
	{"1-2-100-104-0", "1-2-100-104-1", "1-2-100-104", "1-2-100-104-0-1"},
	{"keygen-17", "keygen-1", "frost-keygen-17", "keygen"},
	{"resharing-5", "resharing-55", "resharing-", "resharing"},
	{hex64, hex64[:40], "1-2-7-" + hex64, "1-2-7"},
	{"", "-", "--", "-1"},
	{"1-", "1--2", "1-0-5", "1"},
	{"a-b-c", "a-b", "a", "A-b"},
	{"session with space", "s\"q", "0-0-0", "0"},
}

// genOpsX: an operation list with the other operations of the communication layer among the table
// operations and deliveries (about a quarter of the operations; always at least one after a subscription
// and before a delivery or lookup of the same session)
func genOpsX(r *vgen.Rng, maxOps int) Case {
	c := genOps(r, maxOps)
	var sess []string
	var types []uint8
	seenS, seenT := map[string]bool{}, map[uint8]bool{}
	for _, o := range c.Ops {
		if o.Op == "sub" || o.Op == "deliver" {
			if !seenS[o.S] {
				seenS[o.S] = true
				sess = append(sess, o.S)
			}
			if !seenT[o.T] {
				seenT[o.T] = true
				types = append(types, o.T)
			}
		}
	}
	other := func() Op {
		op, s, t, to := genOther(r, sess, types)
		return Op{Op: op, S: s, T: t, To: to}
	}
	var out []Op
	lastSub := ""
	placed := false
	for _, o := range c.Ops {
		out = append(out, o)
		if o.Op == "sub" {
			lastSub = o.S
		}
		if r.Chance(1, 3) {
			out = append(out, other())
			placed = true
		}
		if o.Op == "sub" && r.Chance(1, 4) {
			// the session that was just subscribed to is closed, then a message for it arrives
			out = append(out, Op{Op: "close", S: o.S}, Op{Op: "deliver", S: o.S, T: o.T})
			placed = true
		}
	}
	if !placed {
		out = append(out, Op{Op: "close", S: lastSub})
	}
	c.Ops = out
	return c
}

func genOps(r *vgen.Rng, maxOps int) Case {
	fam := vgen.Pick(r, families)
	nsess := r.Range(1, len(fam))
	sess := fam[:nsess]
	if r.Chance(1, 4) {
		sess = append([]string{}, sess...)
		sess = append(sess, vgen.Pick(r, vgen.Pick(r, families)))
	}
	ntypes := r.Range(1, 3)
	types := make([]uint8, ntypes)
	for i := range types {
		types[i] = uint8(r.Intn(14))
	}
	if r.Chance(1, 15) {
		// an undeclared message type: outside the property (the judge abstains), but the model must
		// still follow the code (Unwrap refuses it, such subscriptions share the identifier "")
		types[0] = vgen.Pick(r, []uint8{14, 100, 127, 128, 200, 255})
	}
	n := r.Range(1, maxOps)
	c := Case{Kind: "ops"}
	nsub, nextChan := 0, 1
	for i := 0; i < n; i++ {
		x := r.Intn(100)
		switch {
		case x < 45 || nsub == 0:
			ch := nextChan
			if nextChan > 1 && r.Chance(1, 8) {
				ch = r.Range(1, nextChan-1) // a channel subscribed more than once
			} else {
				nextChan++
			}
			c.Ops = append(c.Ops, Op{Op: "sub", S: vgen.Pick(r, sess), T: vgen.Pick(r, types), C: ch})
			nsub++
		case x < 70:
			k := r.Intn(nsub)
			if r.Chance(1, 25) {
				k = nsub + r.Intn(3) // an id that does not exist (yet)
			}
			c.Ops = append(c.Ops, Op{Op: "unsub", K: k})
		default:
			c.Ops = append(c.Ops, Op{Op: "deliver", S: vgen.Pick(r, sess), T: vgen.Pick(r, types)})
		}
	}
	if r.Chance(1, 2) {
		c.Extra = append(c.Extra, ST{vgen.Pick(r, fam), vgen.Pick(r, types)})
	}
	return c
}

func gen(r *vgen.Rng, tier string) []Case {
	var out []Case
	nlists, maxOps, nraw, nfan, nconc, nrace := 260, 40, 150, 240, 40, 6
	nfani, nslow, idleMs := 150, 4, 5000
	nlistsX, nfaniX := 90, 45
	if tier == "thorough" {
		nlists, maxOps, nraw, nfan, nconc, nrace = 4000, 60, 3000, 6000, 600, 60
		nfani, nslow, idleMs = 4000, 8, 15000
		nlistsX, nfaniX = 2000, 1500
	}
	// Unwrap of built ids: every family member x boundary types x boundary unique components
	for _, fam := range families {
		for _, s := range fam {
			for _, t := range []uint8{0, 1, 9, 10, 12, 13, 14, 127, 128, 255} {
				out = append(out, Case{Kind: "unw", S: s, T: t, U: vgen.Pick(r, []uint32{0, 1, 9, 10, 4294967295, uint32(r.U64())})})
			}
		}
	}
	alphabet := []byte("--+0123456789ax _")
	for i := 0; i < nraw; i++ {
		n := r.Intn(14)
		b := make([]byte, n)
		for j := range b {
			b[j] = alphabet[r.Intn(len(alphabet))]
		}
		id := string(b)
		if r.Chance(1, 3) {
			id = vgen.Pick(r, vgen.Pick(r, families)) + "-" + vgen.Pick(r, []string{"+5", "05", "13", "14", "-1", "", "1_0", "0x1", " 1", "127", "128", "00000000000000000000003"}) + "-" + vgen.Pick(r, []string{"7", "", "x y", "4294967295"})
		}
		out = append(out, Case{Kind: "raw", ID: id})
	}
	for i := 0; i < nlists; i++ {
		m := maxOps
		if i%4 == 0 {
			m = 8
		}
		out = append(out, genOps(r, m))
	}
	for i := 0; i < nlistsX; i++ {
		m := maxOps / 2
		if i%4 == 0 {
			m = 8
		}
		out = append(out, genOpsX(r, m))
	}
	for i := 0; i < nfaniX; i++ {
		out = append(out, genFanIX(r))
	}
	for i := 0; i < nfan; i++ {
		out = append(out, genFan(r))
		if i*nfani/nfan != (i+1)*nfani/nfan {
			out = append(out, genFanI(r))
		}
	}
	var slow []Case
	for i := 0; i < nslow; i++ {
		slow = append(slow, genSlow(r, idleMs))
	}
	prefetchSlow(slow) // they run in child processes while the other cases are driven, and come last
	// concurrent cases (conc.go) are spread evenly over the list: they are the expensive ones to
	// evaluate, and the shards are evaluated in parallel
	var cc []Case
	for i := 0; i < nrace; i++ {
		cc = append(cc, genConc(r, "race"))
	}
	for i := 0; i < nconc; i++ {
		cc = append(cc, genConc(r, "conc"))
	}
	var mixed []Case
	step := len(out)/len(cc) + 1
	for i, c := range out {
		if i%step == 0 && len(cc) > 0 {
			mixed = append(mixed, cc[0])
			cc = cc[1:]
		}
		mixed = append(mixed, c)
	}
	return append(append(mixed, cc...), slow...)
}

// ---- printing ------------------------------------------------------------------------------------

func ints(l []int) string {
	return vgen.ListOf(l, func(x int) string { return vgen.N(uint64(x)) })
}

func resCoq(o Obs) string {
	if o.Res == nil {
		return "None"
	}
	return vgen.Some("(" + vgen.Str(o.Res.S) + ", " + vgen.N(uint64(o.Res.T)) + ", " + vgen.Str(o.Res.I) + ")")
}

func coq(c Case, o Obs) string {
	switch c.Kind {
	case "unw":
		return "Unw " + vgen.Str(c.S) + " " + vgen.N(uint64(c.T)) + " " + vgen.N(uint64(c.U)) + " " + resCoq(o)
	case "raw":
		return "Raw " + vgen.Str(c.ID) + " " + resCoq(o)
	case "fan":
		return fanCoq(c, o)
	case "fani":
		return fanICoq(c, o)
	case "conc", "race":
		return concCoq(c, o)
	}
	uni := vgen.ListOf(o.Universe, func(p ST) string { return vgen.Pair(vgen.Str(p.S), vgen.N(uint64(p.T))) })
	ops := make([]string, len(c.Ops))
	obs := make([]string, len(c.Ops))
	others := hasOther(c)
	for i, op := range c.Ops {
		oo := o.Ops[i]
		switch op.Op {
		case "sub":
			ops[i] = "Sub " + vgen.Str(op.S) + " " + vgen.N(uint64(op.T)) + " " + vgen.N(oo.U) + " " + vgen.N(uint64(op.C))
		case "unsub":
			ops[i] = "Unsub " + vgen.Nat(op.K)
		case "deliver":
			ops[i] = "Deliver " + vgen.Str(op.S) + " " + vgen.N(uint64(op.T))
		default:
			ops[i] = "XOther (" + otherCoq(op.Op, op.S, op.T, op.To) + ")"
		}
		if others && !isOther(op.Op) {
			ops[i] = "XOp (" + ops[i] + ")"
		}
		obs[i] = "mk_obs " + vgen.Str(oo.ID) + " " + vgen.ListOf(oo.View, ints) + " " + ints(oo.Got)
	}
	if others {
		return "OpsX " + uni + " " + vgen.List(ops) + " " + vgen.List(obs)
	}
	return "Ops " + uni + " " + vgen.List(ops) + " " + vgen.List(obs)
}

// hasOther: the case contains one of the other operations of the communication layer (other.go)
func hasOther(c Case) bool {
	for _, o := range c.Ops {
		if isOther(o.Op) {
			return true
		}
	}
	for _, e := range c.Script {
		if isOther(e.E) {
			return true
		}
	}
	return false
}

func hyphen(c Case) bool {
	if c.Kind == "unw" {
		return strings.Contains(c.S, "-")
	}
	for _, o := range c.Ops {
		if o.Op == "sub" && strings.Contains(o.S, "-") {
			return true
		}
	}
	return false
}

func main() {
	zerolog.SetGlobalLevel(zerolog.Disabled)
	if os.Getenv(childEnv) != "" {
		concChildMain()
		return
	}
	vgen.Main(vgen.Spec[Case, Obs]{
		Property:  "C12",
		RunModule: "C12",
		Gen:       gen,
		Run:       run,
		Coq:       coq,
		ShardSize: 60,
		Kind: func(c Case) string {
			if c.Kind == "raw" {
				return "raw"
			}
			if c.Kind == "fan" {
				return "fan-" + c.Mode
			}
			if c.Kind == "fani" {
				if hasIdle(c) {
					return "slow"
				}
				if hasOther(c) {
					return "fani-other-" + c.Mode
				}
				return "fani-" + c.Mode
			}
			if c.Kind == "conc" || c.Kind == "race" {
				return c.Kind
			}
			if c.Kind == "ops" && hasOther(c) {
				return "ops-other"
			}
			if hyphen(c) {
				return c.Kind + "-hyphen"
			}
			return c.Kind + "-plain"
		},
		NonTrivial: func(c Case, o Obs) bool {
			switch c.Kind {
			case "unw":
				return true
			case "raw":
				return strings.Count(c.ID, "-") >= 2
			case "fan":
				return fanNonTrivial(c)
			case "fani":
				return fanINonTrivial(c)
			case "conc", "race":
				return concNonTrivial(c)
			}
			if hasOther(c) {
				// an other operation while somebody is subscribed
				nsub := 0
				for _, op := range c.Ops {
					if op.Op == "sub" {
						nsub++
					} else if isOther(op.Op) && nsub > 0 {
						return true
					}
				}
				return false
			}
			nsub, other := 0, 0
			for _, op := range c.Ops {
				if op.Op == "sub" {
					nsub++
				} else {
					other++
				}
			}
			return nsub >= 2 && other >= 1
		},
		Rule: "Unwrap on ids built for every session-family member x boundary types x boundary unique components, Unwrap on random/malformed strings, and random operation lists (sub/unsub/deliver, 1..40 ops quick, 1..60 thorough) over 1..5 sessions of a family of mutually confusable ids (prefixes, trailing/leading/double hyphens, empty, hex digests, production-style message ids) and 1..3 declared message types; fan cases: a table of 1..9 subscriptions / cancellations (several subscribers per pair, channels holding several subscriptions), then 1..3 inbound streams of 1..6 messages each (different and equal sessions / types / payloads) handed to ProcessMessagesFromStream back to back, one per Read or in random chunks, with unbuffered / capacity-1 / large subscriber channels read late (nobody reads before everything was decoded), interleaved or promptly in a random order, a third of them under GOMAXPROCS(1); fani cases: scripts of 5..16 table operations and messages over 1..2 hot (session, type) pairs and others on 1..3 long-lived streams (messages mostly on the same stream and of the same pair, a quarter joined into one Read; subscriptions of new / already used channels and cancellations of live / already cancelled subscriptions strictly between the messages), receivers late / mixed / prompt, unbuffered / capacity-1 / large channels, a quarter under GOMAXPROCS(1), 4 fixed corpus scripts; slow cases: 1..3 subscribers of a pair (+ possibly one of another pair, + a late subscriber), 2..6 messages pending on unbuffered / capacity-1 channels, 5 s (thorough 15 s) of nobody reading or feeding, then 0..3 more messages / a subscription / a cancellation, then the readers catch up - each in a child process, all started together; conc / race cases: 8..16 goroutines (race: 8..12) x 2..5 rounds x 2..5 operations (subscribe own channel, cancel own subscription - possibly cancelled before -, GetSubscribers, deliver one message through ProcessMessagesFromStream) on one Libp2pCommunication held by value in interfaces, over a session shared by all, one session created per round, sessions of the thread's own and of other threads, 1..3 declared message types of a family of hyphenated ids; the goroutines enter every round together (spinning barrier) and start it with a common action drawn per round: all subscribe to the pair created in this round, all cancel what they subscribed at the previous barrier, a mix of subscribe / cancel / lookup of one pair, or nothing in common; a fifth of the cases under GOMAXPROCS 2 / 4 / 8; each case in a child process, race cases in a child built with -race; 4 fixed corpus cases (subscribe-lookup-cancel storms on one pair; subscribe at one barrier, cancel at the next); ops-other / fani-other cases: the same operation lists and interleaved scripts with the other operations of the communication layer between the table operations, deliveries and stream messages - CloseSession (of the sessions in use, half of them right after a subscription to that session and before a message for it, and of confusable sessions), Broadcast over the fake host (reachable peers, a peer refusing the dial, a peer without address, itself; the types in use, TssFailMsg, CoordinatorLeaveMsg, Unknown), comm.ExecuteCommHealthCheck, StreamHandlerFunc on streams without a complete message - the subscriber lists of the whole universe are looked up after each of them; distinct = distinct input JSON; non-trivial = every built-id Unwrap, malformed ids with at least two separators, operation lists with at least two subscriptions and one cancellation or delivery, fan cases with a subscription and at least two messages, interleaved cases with a table operation strictly between two messages of one stream, concurrent cases with at least two threads and eight operations",
	})
}
