// Started runs that fail with an error of a chosen class, and abnormal termination (panics).
//
// faulty wraps a REAL process (the real constructor made it, its lock discipline is the real one):
//   - Err != nil: the error the real Run returns after it has begun is replaced by Err the first time
//     (a *comm.CommunicationError, a tss.Error, a SubsetError, a CoordinatorError: the classes the
//     coordinator treats as retryable);
//   - At: the method named panics (validcoordinators, ready, startparams, retryable), or the call of
//     Run panics before the process's own Run is entered (run-early), or after it returned (run-late),
//     or the goroutine exits there (goexit).
//
// failingComm makes the broadcast of the protocol's own messages fail with a CommunicationError (the
// real first round message of a started process cannot be sent).
//
// selflessHost: a host whose peerstore does not list the host itself - a started ECDSA keygen then
// gets an invalid party id and threshlib's Party.Start() returns a real tss.Error at once (no safe
// prime generation), with the key-share lock already taken inside Run.
package main

import (
	"context"
	"encoding/json"
	"errors"
	"fmt"
	"os"
	"runtime"
	"sync/atomic"
	"time"

	"github.com/ChainSafe/sygma-relayer/comm"
	"github.com/ChainSafe/sygma-relayer/tss"
	tssmsg "github.com/ChainSafe/sygma-relayer/tss/message"
	tsslib "github.com/binance-chain/tss-lib/tss"
	"github.com/libp2p/go-libp2p/core/peer"

	"verifharness/tssfakes"
	"verifharness/vgen"
)

type faulty struct {
	tss.TssProcess
	Err error
	At  string
	// Params2: the start parameters this relayer hands out when it has become the coordinator of a
	// retry (nil: the process's own)
	Params2 []byte
	runs    atomic.Int32
}

const scripted = "scripted panic of a tss process method: "

func (f *faulty) Run(ctx context.Context, coordinator bool, resultChn chan interface{}, params []byte) error {
	n := f.runs.Add(1)
	if f.At == "run-early" {
		panic(scripted + "Run, before the process began")
	}
	err := f.TssProcess.Run(ctx, coordinator, resultChn, params)
	switch f.At {
	case "run-late":
		panic(scripted + "Run, after the process began")
	case "goexit":
		runtime.Goexit()
	}
	if n == 1 && f.Err != nil && err != nil {
		return f.Err
	}
	return err
}

func (f *faulty) ValidCoordinators() []peer.ID {
	if f.At == "validcoordinators" {
		panic(scripted + "ValidCoordinators")
	}
	return f.TssProcess.ValidCoordinators()
}

func (f *faulty) Ready(readyPeers []peer.ID, excludedPeers []peer.ID) (bool, error) {
	if f.At == "ready" {
		panic(scripted + "Ready")
	}
	return f.TssProcess.Ready(readyPeers, excludedPeers)
}

func (f *faulty) StartParams(readyPeers []peer.ID) []byte {
	if f.At == "startparams" {
		panic(scripted + "StartParams")
	}
	if f.Params2 != nil && f.runs.Load() >= 1 {
		return f.Params2
	}
	return f.TssProcess.StartParams(readyPeers)
}

func (f *faulty) Retryable() bool {
	if f.At == "retryable" {
		panic(scripted + "Retryable")
	}
	return f.TssProcess.Retryable()
}

// failureOf: an error of the class named.
func failureOf(class string, coordinator peer.ID) error {
	switch class {
	case "comm":
		return &comm.CommunicationError{Peer: coordinator, Err: errors.New("stream reset")}
	case "tss":
		return tsslib.NewError(errors.New("scripted protocol failure"), "task", 1, nil)
	case "subset":
		return &tss.SubsetError{Peer: ids[0]}
	case "coordinator":
		return &tss.CoordinatorError{Peer: coordinator}
	}
	panic("failure class " + class)
}

func failureName(class string) string {
	switch class {
	case "comm":
		return "FComm"
	case "tss":
		return "FTss"
	case "subset":
		return "FSubset"
	case "coordinator":
		return "FCoordinator"
	}
	return "FPlain"
}

// failingComm: Broadcast of the protocol messages (not of the coordinator's initiate / start / ready /
// fail messages) fails.
type failingComm struct {
	*tssfakes.RecComm
	peer peer.ID
}

func (c *failingComm) Broadcast(peers peer.IDSlice, msg []byte, mt comm.MessageType, sid string) error {
	switch mt {
	case comm.TssKeyGenMsg, comm.TssKeySignMsg, comm.TssReshareMsg:
		c.Led.Add(tssfakes.Event{Kind: "Bcast", SID: sid, Msg: mt})
		return &comm.CommunicationError{Peer: c.peer, Err: errors.New("stream reset")}
	}
	return c.RecComm.Broadcast(peers, msg, mt, sid)
}

var _ comm.Communication = (*failingComm)(nil)

// unknownPeers: peer ids nobody's peerstore knows.
var unknownPeers = tssfakes.PeerIDs(2)

// executeRecovering calls Execute and turns a panic that leaves it into a value.
type execEnd struct {
	err      error
	panicked bool
	what     string
}

func executeRecovering(c *tss.Coordinator, ctx context.Context, procs []tss.TssProcess, res chan interface{}) (end execEnd) {
	defer func() {
		if r := recover(); r != nil {
			end = execEnd{panicked: true, what: fmt.Sprint(r)}
			if len(end.what) > 160 {
				end.what = end.what[:160]
			}
		}
	}()
	return execEnd{err: c.Execute(ctx, procs, res)}
}

func abnormalOutcome(o string) bool {
	switch o {
	case "FailedRetryable", "PanicBeforeStart", "PanicInRunLate", "PanicAfterRun":
		return true
	}
	return false
}

// slowSess: the session cannot end before a FROST process has slept its ten seconds.
func slowSess(s Sess) bool {
	return s.How == "bcast" && frostKind(s.Kind)
}

// sessionAbnormal drives a session of party p whose started Run fails with an error of a chosen
// class, or in which a method of the process panics.
func (p *party) sessionAbnormal(s Sess) string {
	role := "peer"
	if s.At == "ready" || s.At == "startparams" {
		role = "coord"
	}
	sid, coordinator := pickSid(s.Kind, role)
	p.c.CoordinatorTimeout, p.c.TssTimeout, p.c.InitiatePeriod = long, long, long
	// the other relayers answer every initiate message - except where a retry of a retryable (signing)
	// process is to find nobody (a peer of the first attempt does not broadcast initiate messages)
	p.answerInitiate(!(s.Outcome == "FailedRetryable" && signing(s.Kind) && !s.Answer))
	p.prepare(s)
	ctx, cancel := context.WithCancel(context.Background())
	defer cancel()
	note := ""

	// ---- how the process's own Run is made to begin and to come back ----
	threshold := 1
	params := goodParams(s.Kind, coordinator)
	host := p.host
	var cm comm.Communication = p.comm
	switch {
	case s.How == "selfless":
		host = tssfakes.NewFakeHost(ids[0], ids[1:])
	case s.How == "bcast":
		cm = &failingComm{RecComm: p.comm, peer: coordinator}
	case s.At == "real" && s.Kind == "FrostResharing":
		params = []byte("{}")
	case s.At == "real" && s.Kind == "EcdsaResharing":
		params, _ = json.Marshal(map[string]interface{}{"oldThreshold": 1,
			"oldSubset": []peer.ID{ids[1], ids[2], unknownPeers[0], unknownPeers[1]}})
	case s.Outcome == "PanicBeforeStart":
	default:
		// begins and fails at once: a threshold the protocol library refuses inside Run / a signing
		// committee of one
		if signing(s.Kind) {
			params, _ = json.Marshal([]peer.ID{ids[0]})
		} else {
			threshold = 3
		}
	}
	proc, err := p.constructWith(func() (tss.TssProcess, error) {
		return p.mkOn(host, cm, p.es, p.fs, "", s.Kind, sid, threshold, s.Tweak)
	})
	if err == errHeld {
		fmt.Println("REAL_HELD")
		os.Exit(0)
	}
	if err != nil {
		return "constructor failed: " + err.Error()
	}
	f := &faulty{TssProcess: proc}
	switch s.Outcome {
	case "FailedRetryable":
		if s.How == "" {
			f.Err = failureOf(s.Err, coordinator)
		}
		if signing(s.Kind) {
			// (the second attempt of a retry ends by itself: a real signing that is cancelled while its
			// party is still starting does not come back, and a FROST one sleeps ten seconds first)
			f.Params2, _ = json.Marshal([]peer.ID{ids[0]})
		}
	case "PanicAfterRun":
		f.At = "retryable"
	default:
		if s.At != "real" {
			f.At = s.At
		}
	}
	done := make(chan execEnd, 1)
	go func() { done <- executeRecovering(p.c, ctx, []tss.TssProcess{f}, make(chan interface{}, 4)) }()

	var end execEnd
	ended := false
	back := func() bool {
		if !ended {
			select {
			case end = <-done:
				ended = true
			default:
			}
		}
		return ended
	}
	startMsg := func(params []byte) []byte {
		b, _ := tssmsg.MarshalStartMessage(params)
		return b
	}
	if role == "peer" && s.At != "validcoordinators" {
		tssfakes.WaitP("Execute to subscribe", func() bool { return back() || p.comm.Subscribers(sid, comm.TssStartMsg) >= 1 })
		p.comm.Deliver(sid, comm.TssStartMsg, coordinator, startMsg(params))
	}
	patience := tssfakes.Patience()
	if slowSess(s) {
		patience = 90 * time.Second
	}
	if s.Outcome == "FailedRetryable" {
		// What follows the failure.  A retryable process (the signing kinds): Coordinator.handleError
		// goes on - after a SubsetError it waits for another start message from anybody, after the other
		// classes it holds a bully election and this relayer initiates.  Answer: the retry gets its second
		// Run (a second start message with undecodable parameters arrives / the others are ready and
		// this relayer hands out a committee of one - either way the second Run ends by itself); no
		// Answer: nobody reacts and the caller gives up.  The other kinds are not run again - should an
		// implementation do it all the same, it is treated like an answered retry.
		initiates := func() int {
			n := 0
			for _, e := range p.led.Snapshot() {
				if e.Kind == "Bcast" && e.SID == sid && e.Msg == comm.TssInitiateMsg {
					n++
				}
			}
			return n
		}
		second := false
		tssfakes.WaitFor(patience, func() bool {
			if back() {
				return true
			}
			waiting := p.startSubscriptions(sid) >= 2 && p.comm.Subscribers(sid, comm.TssStartMsg) >= 1
			if signing(s.Kind) && !s.Answer {
				if waiting || initiates() >= 1 {
					cancel()
					return true
				}
				return false
			}
			if waiting && !second {
				second = true
				if signing(s.Kind) {
					p.comm.Deliver(sid, comm.TssStartMsg, ids[1], startMsg([]byte("x")))
				} else {
					p.comm.Deliver(sid, comm.TssStartMsg, ids[1], startMsg(params))
				}
			}
			return false
		})
	}
	if !tssfakes.WaitFor(patience, back) {
		tssfakes.Expired("Execute to return or panic")
		note += "Execute did not return; "
	}
	// how the session ended, for the record (not judged): a panic that left Execute / the class of
	// the error returned
	switch {
	case !ended:
		p.ends = append(p.ends, "did not end")
	case end.panicked:
		p.ends = append(p.ends, "panic: "+end.what)
	default:
		p.ends = append(p.ends, "returned: "+errClass(end.err))
	}
	return note
}

func errClass(err error) string {
	if err == nil {
		return "nil"
	}
	var (
		ce *tss.CoordinatorError
		me *comm.CommunicationError
		te *tsslib.Error
		se *tss.SubsetError
	)
	cls := "plain"
	switch {
	case errors.As(err, &ce):
		cls = "CoordinatorError"
	case errors.As(err, &me):
		cls = "CommunicationError"
	case errors.As(err, &te):
		cls = "tss.Error"
	case errors.As(err, &se):
		cls = "SubsetError"
	}
	msg := err.Error()
	if len(msg) > 100 {
		msg = msg[:100]
	}
	return cls + ": " + msg
}

// ---- generation ------------------------------------------------------------------------------------

var failureClasses = []string{"comm", "tss", "subset", "coordinator"}
var panicOutcomes = []string{"PanicBeforeStart", "PanicInRunLate", "PanicAfterRun"}

func atsOf(outcome string, coordOK bool) []string {
	switch outcome {
	case "PanicBeforeStart":
		if coordOK {
			return []string{"validcoordinators", "ready", "startparams", "run-early"}
		}
		return []string{"validcoordinators", "run-early"}
	case "PanicInRunLate":
		return []string{"run-late", "goexit"}
	}
	return []string{""}
}

// fillAbnormal completes a session of one of the new outcomes with a random choice of its details.
func fillAbnormal(r *vgen.Rng, s Sess) Sess {
	switch s.Outcome {
	case "FailedRetryable":
		s.Err = vgen.Pick(r, failureClasses)
		if signing(s.Kind) {
			s.Answer = r.Bool()
		}
	case "PanicBeforeStart", "PanicInRunLate":
		s.At = vgen.Pick(r, atsOf(s.Outcome, !(s.Share != "" && resharing(s.Kind))))
	}
	s.Role = "peer"
	if s.At == "ready" || s.At == "startparams" {
		s.Role = "coord"
	}
	return s
}

func genAbnormal(r *vgen.Rng, tier string) []Case {
	var out []Case
	one := func(s Sess, real bool) {
		s.Role = "peer"
		if s.At == "ready" || s.At == "startparams" {
			s.Role = "coord"
		}
		out = append(out, Case{Sessions: []Sess{s}, Real: real})
	}
	for ki, k := range kinds {
		// a started Run fails with an error of every retryable class
		for ei, e := range failureClasses {
			one(Sess{Kind: k, Outcome: "FailedRetryable", Err: e}, (ki+ei)%3 == 0)
			if signing(k) {
				one(Sess{Kind: k, Outcome: "FailedRetryable", Err: e, Answer: true}, (ki+ei)%3 == 1)
			}
		}
		// a method of the process panics
		for _, oc := range panicOutcomes {
			for ai, at := range atsOf(oc, true) {
				one(Sess{Kind: k, Outcome: oc, At: at}, (ki+ai)%2 == 0)
			}
		}
	}
	// the ECDSA keygen on a host that does not list itself: a real tss.Error from Party.Start, with
	// the lock taken inside Run
	one(Sess{Kind: "EcdsaKeygen", Outcome: "FailedRetryable", Err: "tss", How: "selfless"}, true)
	// the real first protocol message cannot be broadcast (FROST: after the ten second pause - these
	// run in the background with the complete runs)
	for _, k := range []string{"EcdsaSigning", "EcdsaResharing", "FrostKeygen", "FrostResharing", "FrostSigning"} {
		s := Sess{Kind: k, Outcome: "FailedRetryable", Err: "comm", How: "bcast", Role: "peer"}
		c := Case{Sessions: []Sess{s}}
		if slowSess(s) {
			slowPlanned = append(slowPlanned, c)
		}
		out = append(out, c)
	}
	// the process's own Run panics: a share-less relayer is sent start parameters it cannot use
	one(Sess{Kind: "FrostResharing", Outcome: "PanicInRunLate", At: "real", Share: "missing"}, true)
	one(Sess{Kind: "EcdsaResharing", Outcome: "PanicInRunLate", At: "real", Share: "missing"}, true)
	one(Sess{Kind: "FrostResharing", Outcome: "PanicInRunLate", At: "real", Share: "corrupt"}, false)
	return out
}

// ---- sessions that cannot be quick: run in the background, all started together -------------------

var (
	slowPlanned []Case
	slowFutures = map[string]chan Obs{}
)

func slowKey(c Case) string { b, _ := json.Marshal(c); return string(b) }

// startSlow (futMu held): start every planned slow case that is not running yet.
func startSlow() {
	for _, c := range slowPlanned {
		startSlowOne(c)
	}
}

func startSlowOne(c Case) chan Obs {
	k := slowKey(c)
	if ch, ok := slowFutures[k]; ok {
		return ch
	}
	ch := make(chan Obs, 1)
	slowFutures[k] = ch
	go func() {
		p := newParty(0, nil, false)
		defer p.cleanup()
		var o Obs
		for _, s := range c.Sessions {
			o.Note += p.session(s)
		}
		o.Ledger = lockEvents(p.led)
		o.Ends = p.ends
		ch <- o
	}()
	return ch
}

func slowFuture(c Case) Obs {
	futMu.Lock()
	for _, k := range prefetch {
		startFuture(k)
	}
	startSlow()
	ch := startSlowOne(c)
	delete(slowFutures, slowKey(c))
	futMu.Unlock()
	return <-ch
}

func coqOutcome(s Sess) string {
	if s.Outcome == "FailedRetryable" {
		if signing(s.Kind) && s.Answer {
			return "Rerun"
		}
		return "RanFailed"
	}
	return s.Outcome
}
