// Contention cases: sessions that OVERLAP on one key-share store whose Lock really blocks.
//
// Sessions[0] (a kind that takes the lock in its constructor) holds the lock from its constructor
// until the harness ends its session; while it holds, every other session of the case is started in
// a goroutine of its own - real constructor, real tss.Coordinator.Execute - and asks for the same
// lock: in its constructor (FROST keygen, resharing, signing: the caller waits there) or inside Run
// (ECDSA keygen), where the session can be cancelled or hit the TSS timeout while it waits.  Then the
// holder's session is ended, everybody else gets the lock in some order and goes on to its outcome.
//
// Every process sees the store through a view of its own, so each ledger entry says which session
// it belongs to.  The ledger is read only when all goroutines the processes started have come to
// rest (no goroutine waits for the lock, nothing has been recorded for a while - bounded), then a
// probe tries to take both locks.  Timing decides only WHICH interleaving is observed: the judge
// accepts every interleaving of correct sessions (theorem C10_contention_ok_model), so a slow
// machine can lose detection power but cannot raise a false alarm.
package main

import (
	"context"
	"encoding/json"
	"fmt"
	"strconv"
	"sync"
	"time"

	"github.com/ChainSafe/sygma-relayer/comm"
	"github.com/ChainSafe/sygma-relayer/comm/elector"
	"github.com/ChainSafe/sygma-relayer/config/relayer"
	"github.com/ChainSafe/sygma-relayer/keyshare"
	"github.com/ChainSafe/sygma-relayer/tss"
	tssmsg "github.com/ChainSafe/sygma-relayer/tss/message"
	"github.com/libp2p/go-libp2p/core/peer"

	"verifharness/tssfakes"
	"verifharness/vgen"
)

type concWorld struct {
	p      *party
	elock  *tssfakes.BlockingLock
	flock  *tssfakes.BlockingLock
	mu     sync.Mutex
	answer map[string]bool   // session id -> the other relayers answer its initiate messages
	sids   map[string]string // session tag -> session id (set by drive)
}

func (w *concWorld) views(tag string) (ecdsaStore, frostStore) {
	return &tssfakes.BlockingECDSAView{Lock: w.elock, Tag: tag, File: keyshare.NewECDSAKeyshareStore(w.p.epath)},
		&tssfakes.BlockingFrostView{Lock: w.flock, Tag: tag, File: keyshare.NewFrostKeyshareStore(w.p.fpath)}
}

func (w *concWorld) setAnswer(sid string, on bool) {
	w.mu.Lock()
	w.answer[sid] = on
	w.mu.Unlock()
}

func (w *concWorld) lockOf(kind string) *tssfakes.BlockingLock {
	if frostKind(kind) {
		return w.flock
	}
	return w.elock
}

// settle waits until nothing has been recorded for `quiet` (at most Patience()).
func settle(led *tssfakes.Ledger, quiet time.Duration) {
	deadline := time.Now().Add(tssfakes.Patience())
	n, since := led.Len(), time.Now()
	for time.Now().Before(deadline) {
		time.Sleep(5 * time.Millisecond)
		if m := led.Len(); m != n {
			n, since = m, time.Now()
		} else if time.Since(since) >= quiet {
			return
		}
	}
}

// contender drives one session on a coordinator of its own (the relayer's host, communication and
// stores are shared).  ctl.cancel is called by the driver for While = cancel.
type contCtl struct {
	cancel context.CancelFunc
	done   chan string // the session has ended (note)
}

func (w *concWorld) drive(tag string, s Sess, ctx context.Context, holder bool) string {
	p := w.p
	es, fs := w.views(tag)
	ef := elector.NewCoordinatorElectorFactory(p.host, relayer.BullyConfig{})
	c := tss.NewCoordinator(p.host, p.comm, ef)
	c.CoordinatorTimeout, c.TssTimeout, c.InitiatePeriod = long, long, long
	sid, coordinator := pickSid(s.Kind, s.Role)
	w.mu.Lock()
	if w.sids == nil {
		w.sids = map[string]string{}
	}
	w.sids[tag] = sid
	w.mu.Unlock()
	threshold := 1
	note := ""
	answer := true
	switch s.Outcome {
	case "NeverTimeout":
		c.TssTimeout = 30 * time.Millisecond
		answer = false
	case "NeverCancelled", "CancelledBeforeEntry":
		answer = false
	case "RanFailed":
		if !signing(s.Kind) {
			threshold = 3
		}
	}
	if s.While == "timeout" {
		c.TssTimeout = whileTimeout
	}
	w.setAnswer(sid, answer)

	var blocker *tssfakes.RecProcess
	var blockerDone chan error
	if s.Outcome == "Refused" {
		blocker = tssfakes.NewRecProcess(sid, []peer.ID{ids[0]}, 2)
		blockerDone = make(chan error, 1)
		go func() {
			blockerDone <- c.Execute(context.Background(), []tss.TssProcess{blocker}, make(chan interface{}, 1))
		}()
		if !tssfakes.WaitP("the blocking session to start", func() bool { return blocker.Runs() > 0 }) {
			note += "blocker did not start; "
		}
	}
	// the constructor: waits for the lock if it takes it and somebody else holds it
	proc, err := p.mkWith(es, fs, tag, s.Kind, sid, threshold)
	if err != nil {
		return note + "constructor failed: " + err.Error()
	}
	if s.Outcome == "CancelledBeforeEntry" && !holder {
		// the constructor has got the lock; the caller gives up before it calls Execute
		if s.Entry == "deadline" {
			var c2 context.CancelFunc
			ctx, c2 = context.WithDeadline(ctx, time.Now().Add(-time.Second))
			defer c2()
		} else if cf, ok := ctx.Value(cancelKey{}).(context.CancelFunc); ok {
			cf()
		}
	}
	done := make(chan error, 1)
	go func() { done <- c.Execute(ctx, []tss.TssProcess{proc}, make(chan interface{}, 4)) }()
	subscribed := func(mt comm.MessageType) {
		tssfakes.WaitP("Execute to subscribe", func() bool { return p.comm.Subscribers(sid, mt) >= 1 })
	}
	deliverStart := func(payload []byte) {
		subscribed(comm.TssStartMsg)
		p.comm.Deliver(sid, comm.TssStartMsg, coordinator, payload)
	}
	startMsg := func(params []byte) []byte {
		b, _ := tssmsg.MarshalStartMessage(params)
		return b
	}
	switch s.Outcome {
	case "NeverCancelled":
		if s.Role == "coord" {
			subscribed(comm.TssReadyMsg)
		} else {
			subscribed(comm.TssStartMsg)
		}
		subscribed(comm.TssFailMsg)
		if !holder {
			// (the holder's session is ended by the driver)
			if cf, ok := ctx.Value(cancelKey{}).(context.CancelFunc); ok {
				cf()
			}
		}
	case "StartMalformed":
		deliverStart([]byte("\x00 not a start message"))
		// (an implementation may go on waiting for a well-formed start message instead of giving the
		// session up: then the caller gives up - either way Run is never called)
		select {
		case e := <-done:
			done <- e
		case <-time.After(time.Second):
			if cf, ok := ctx.Value(cancelKey{}).(context.CancelFunc); ok {
				cf()
			}
		}
	case "ParamsRejected":
		deliverStart(startMsg(badParams(s.Kind)))
	case "RanFailed":
		if s.Role == "peer" {
			params := goodParams(s.Kind, coordinator)
			if signing(s.Kind) {
				params, _ = json.Marshal([]peer.ID{ids[0]})
			}
			deliverStart(startMsg(params))
		}
	case "Rerun":
		deliverStart(startMsg(othersParams()))
		tssfakes.WaitP("Execute to wait for the second start message", func() bool {
			return p.startSubscriptions(sid) >= 2 && p.comm.Subscribers(sid, comm.TssStartMsg) >= 1
		})
		p.comm.Deliver(sid, comm.TssStartMsg, ids[1], startMsg(secondParams(s.Second)))
	}
	if _, ok := tssfakes.RecvP("Execute to return", done); !ok {
		note += "stuck:" + tag + "; "
	}
	if blocker != nil {
		blocker.Release()
		if _, ok := tssfakes.RecvP("the blocking session to return", blockerDone); !ok {
			note += "blocker stuck; "
		}
	}
	return note
}

// concPatience: how long a contention case waits for its sessions to end - 10 s, halved with every
// case in which they did not (a change that leaks the lock leaves sessions waiting for ever).
var concExpiries int

func concPatience() time.Duration {
	d := 10 * time.Second
	for i := 0; i < concExpiries && d > 300*time.Millisecond; i++ {
		d /= 2
	}
	return d
}

type cancelKey struct{}

// whileTimeout: the TSS timeout of a session that is to time out while its Run waits for the lock
// (long enough for the start message to arrive and Run to be entered first, on a loaded machine too)
const whileTimeout = 400 * time.Millisecond

func runContention(c Case) Obs {
	p := newParty(0, nil, false)
	defer p.cleanup()
	w := &concWorld{p: p, elock: tssfakes.NewBlockingLock(p.led), flock: tssfakes.NewBlockingLock(p.led), answer: map[string]bool{}}
	p.comm.OnBroadcast = func(_ peer.IDSlice, _ []byte, mt comm.MessageType, sid string) {
		if mt != comm.TssInitiateMsg {
			return
		}
		w.mu.Lock()
		on := w.answer[sid]
		w.mu.Unlock()
		if on {
			for j, id := range ids {
				if j != 0 {
					p.comm.Deliver(sid, comm.TssReadyMsg, id, []byte{})
				}
			}
		}
	}
	var o Obs
	hs := c.Sessions[0]
	lock := w.lockOf(hs.Kind)

	// 1. the holder
	ctls := make([]*contCtl, len(c.Sessions))
	start := func(i int, s Sess) {
		ctx, cancel := context.WithCancel(context.Background())
		ctx = context.WithValue(ctx, cancelKey{}, cancel)
		ctl := &contCtl{cancel: cancel, done: make(chan string, 1)}
		ctls[i] = ctl
		go func() { ctl.done <- w.drive(strconv.Itoa(i), s, ctx, i == 0) }()
	}
	start(0, hs)
	// the holder's session never starts: whatever lock it holds it took in its constructor, i.e. before
	// its Execute subscribed.  A process kind that asks for the lock only once it runs (as the ECDSA
	// keygen does) holds nothing here - that is an observation, not a wait that ran out.
	holderWaits := func() bool {
		w.mu.Lock()
		hsid, ok := w.sids["0"]
		w.mu.Unlock()
		if !ok {
			return false
		}
		return p.comm.Subscribers(hsid, comm.TssFailMsg) >= 1 &&
			(p.comm.Subscribers(hsid, comm.TssStartMsg) >= 1 || p.comm.Subscribers(hsid, comm.TssReadyMsg) >= 1)
	}
	if !tssfakes.WaitP("the holder to take the lock or to wait for its session to start", func() bool { return lock.Held() || holderWaits() }) || !lock.Held() {
		o.Note += "the holder did not take the lock; "
	}
	settle(p.led, 40*time.Millisecond)

	// 2. everybody else asks for the lock while it is held
	for i := 1; i < len(c.Sessions); i++ {
		start(i, c.Sessions[i])
	}
	settle(p.led, 120*time.Millisecond)

	// 3. sessions waiting inside Run are cancelled / hit their TSS timeout (events, not sleeps, decide
	// when: Run has been entered; the timeout itself is waited out)
	launched := time.Now()
	any := false
	for i := 1; i < len(c.Sessions); i++ {
		wh := c.Sessions[i].While
		if wh == "" {
			continue
		}
		any = true
		tag := strconv.Itoa(i)
		tssfakes.WaitP("the contender to enter Run", func() bool {
			for _, e := range p.led.Snapshot() {
				if e.Kind == "RunBegin" && e.SID == tag {
					return true
				}
			}
			return false
		})
		if wh == "cancel" {
			ctls[i].cancel()
		} else if d := whileTimeout + 100*time.Millisecond - time.Since(launched); d > 0 {
			time.Sleep(d)
		}
	}
	if any {
		settle(p.led, 120*time.Millisecond)
	}

	// 4. the holder's session ends (cancelled: Execute returns, its deferred clean-up calls Stop)
	ctls[0].cancel()
	stuck := ""
	deadline := time.NewTimer(concPatience())
	defer deadline.Stop()
	expired := false
	for i, ctl := range ctls {
		var n string
		got := false
		select {
		case n = <-ctl.done:
			got = true
		default:
			if !expired {
				select {
				case n = <-ctl.done:
					got = true
				case <-deadline.C:
					// (one expiry per case, however many sessions are stuck behind a leaked lock; it does
					// not end the run: the ledger and the probe show the leak and the judge decides)
					expired = true
					concExpiries++
				}
			}
		}
		if !got {
			stuck += fmt.Sprintf("session %d did not end; ", i)
			continue
		}
		if len(n) >= 6 && n[:6] == "stuck:" {
			stuck += n
		} else {
			o.Note += n
		}
	}

	// 5. everything has come to rest: nobody waits for a lock, nothing is recorded any more
	if !expired {
		tssfakes.WaitFor(concPatience(), func() bool { return w.elock.Waiters() == 0 && w.flock.Waiters() == 0 })
	}
	settle(p.led, 150*time.Millisecond)

	// 6. can both locks be taken?
	o.Real = 1
	pd := 2 * time.Second
	if concExpiries > 0 {
		pd = 300 * time.Millisecond
	}
	if !w.elock.Probe(pd) || !w.flock.Probe(pd) {
		o.Real = 3
		concExpiries++
	}
	_ = stuck // a session that never ended shows in the ledger and in the probe: the judge decides
	for _, e := range p.led.Snapshot() {
		switch e.Kind {
		case "L", "U", "Get", "Store", "RunBegin", "RunEnd":
			t, err := strconv.Atoi(e.SID)
			if err != nil {
				o.Note += "untagged ledger entry; "
				continue
			}
			o.Ledger = append(o.Ledger, e.Kind)
			o.Threads = append(o.Threads, t)
		}
	}
	return o
}

// holders: the kinds that hold the lock from their constructor on.  (An ECDSA keygen holds it only
// inside Run, where the protocol library first computes safe primes for a minute of all cores and
// cannot be interrupted: not a holder the quick tier can afford; as a CONTENDER it is covered.)
var holders = []string{"EcdsaResharing", "FrostKeygen", "FrostResharing"}

func sameStore(a, b string) bool { return frostKind(a) == frostKind(b) }

// contenderChoices: what a session of `kind` can be driven to while it competes for the lock.
func contenderChoices(kind string) []Sess {
	var out []Sess
	add := func(oc, role, while string) {
		if feasible(kind, oc) {
			out = append(out, Sess{Kind: kind, Outcome: oc, Role: role, While: while})
		}
	}
	if kind == "EcdsaKeygen" {
		// asks for the lock inside Run: cancelled / timed out while it waits, or left alone
		add("RanFailed", "peer", "cancel")
		add("RanFailed", "peer", "timeout")
		add("RanFailed", "coord", "cancel")
		add("RanFailed", "peer", "")
	}
	add("NeverCancelled", "peer", "")
	add("NeverCancelled", "coord", "")
	add("NeverTimeout", "peer", "")
	add("StartMalformed", "peer", "")
	add("ParamsRejected", "peer", "")
	if kind != "EcdsaKeygen" {
		add("RanFailed", "peer", "")
	}
	add("Refused", "coord", "")
	add("Rerun", "peer", "")
	add("CancelledBeforeEntry", "peer", "")
	add("CancelledBeforeEntry", "coord", "")
	return out
}

func genContention(r *vgen.Rng, tier string) []Case {
	var out []Case
	hold := func(k string) Sess { return Sess{Kind: k, Outcome: "NeverCancelled", Role: "peer"} }
	// every holder x every kind on its store at once (the ECDSA keygen is cancelled while it waits
	// inside Run, the others wait in their constructors and are then cancelled)
	for _, h := range holders {
		var ss []Sess
		ss = append(ss, hold(h))
		for _, k := range kinds {
			if sameStore(h, k) {
				ss = append(ss, contenderChoices(k)[0])
			}
		}
		out = append(out, Case{Sessions: ss, Contention: true})
	}
	// the ECDSA keygen (the kind that waits inside Run) in every way, one at a time and together
	for _, ch := range contenderChoices("EcdsaKeygen")[:4] {
		out = append(out, Case{Sessions: []Sess{hold("EcdsaResharing"), ch}, Contention: true})
	}
	n := 6
	if tier == "thorough" {
		n = 120
	}
	for i := 0; i < n; i++ {
		h := vgen.Pick(r, holders)
		ss := []Sess{hold(h)}
		if r.Bool() {
			ss[0].Role = "coord"
		}
		for m := r.Range(1, 4); len(ss) <= m; {
			k := vgen.Pick(r, kinds)
			if !sameStore(h, k) { // one case = one store = one mutex (the ECDSA and the FROST store are independent)
				continue
			}
			ss = append(ss, vgen.Pick(r, contenderChoices(k)))
		}
		out = append(out, Case{Sessions: ss, Contention: true})
	}
	return out
}
