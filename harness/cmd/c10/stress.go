// Stress cases: the stores' OWN LockKeyshare / UnlockKeyshare as a mutex.
//
// Every other case of this runner replaces the store's mutex by a counting or a blocking fake (or
// replays a session on the real store without contention), so a store whose Lock / Unlock pair is no
// longer a plain mutex - a "hardened" Unlock that can swallow a balanced release, a lock that lets
// two holders in - is invisible to them: the callers stay perfectly balanced.  Here the REAL
// keyshare.ECDSAKeyshareStore / keyshare.FrostKeyshareStore object is driven directly, in a child
// process: `workers` goroutines, each doing `pairs` times
//
//	LockKeyshare(); v := counter; [yield]; counter = v + 1; UnlockKeyshare()
//
// (a NON-atomic increment of a shared counter: an increment is lost as soon as two goroutines are
// inside at once).  A monitor ends the run when no goroutine has completed a pair for a while (a lost
// release leaves everybody waiting for ever); when all workers are done a final Lock must succeed
// within its deadline.  The judge (Model.stress_ok, theorem C10_store_stress) is schedule
// independent: whatever the interleaving, a correct mutex gives dones = pairs for every worker,
// counter = workers * pairs and a free lock - a loaded machine cannot raise a false alarm.
package main

import (
	"encoding/json"
	"fmt"
	"os"
	"os/exec"
	"runtime"
	"strings"
	"sync"
	"sync/atomic"
	"time"

	"github.com/ChainSafe/sygma-relayer/keyshare"

	"verifharness/vgen"
)

type locker interface {
	LockKeyshare()
	UnlockKeyshare()
}

type stressOut struct {
	Dones   []int `json:"dones"`
	Counter int   `json:"counter"`
	Free    bool  `json:"free"`
	Stalled bool  `json:"stalled"`
}

// stallAfter: no goroutine has completed a pair for this long = nobody will any more (a pair takes
// well under a microsecond; the bound only has to survive a badly overloaded machine).
const stallAfter = 4 * time.Second

func stressChild(js string) {
	var st Stress
	if err := json.Unmarshal([]byte(js), &st); err != nil {
		panic(err)
	}
	if st.Procs > 0 {
		runtime.GOMAXPROCS(st.Procs)
	}
	dir, err := os.MkdirTemp("", "c10stress")
	if err != nil {
		panic(err)
	}
	defer os.RemoveAll(dir)
	var store locker
	if st.Store == "frost" {
		store = keyshare.NewFrostKeyshareStore(dir + "/frost.keyshare")
	} else {
		store = keyshare.NewECDSAKeyshareStore(dir + "/ecdsa.keyshare")
	}
	type shared struct{ counter int }
	sh := &shared{}
	dones := make([]atomic.Int64, st.Workers)
	var wg sync.WaitGroup
	start := make(chan struct{})
	for w := 0; w < st.Workers; w++ {
		wg.Add(1)
		go func(w int) {
			defer wg.Done()
			<-start
			for i := 0; i < st.Pairs; i++ {
				store.LockKeyshare()
				v := sh.counter
				if st.Yield && i%64 == w%64 {
					runtime.Gosched()
				}
				sh.counter = v + 1
				store.UnlockKeyshare()
				dones[w].Add(1)
			}
		}(w)
	}
	finished := make(chan struct{})
	go func() { wg.Wait(); close(finished) }()
	close(start)
	total := func() int64 {
		var n int64
		for i := range dones {
			n += dones[i].Load()
		}
		return n
	}
	out := stressOut{}
	last, since := int64(-1), time.Now()
	tick := time.NewTicker(50 * time.Millisecond)
	defer tick.Stop()
loop:
	for {
		select {
		case <-finished:
			break loop
		case <-tick.C:
			if n := total(); n != last {
				last, since = n, time.Now()
			} else if time.Since(since) > stallAfter {
				out.Stalled = true
				break loop
			}
		}
	}
	if !out.Stalled {
		free := make(chan struct{})
		go func() {
			store.LockKeyshare()
			store.UnlockKeyshare()
			close(free)
		}()
		select {
		case <-free:
			out.Free = true
		case <-time.After(stallAfter):
		}
		out.Counter = sh.counter // (every worker is done: nobody writes any more)
	}
	for i := range dones {
		out.Dones = append(out.Dones, int(dones[i].Load()))
	}
	b, _ := json.Marshal(out)
	fmt.Println("STRESS_RESULT " + string(b))
	os.Exit(0) // (stalled workers are still parked on the lock)
}

func runStress(c Case) Obs {
	self, err := os.Executable()
	if err != nil {
		return Obs{Note: "no executable"}
	}
	in, _ := json.Marshal(c.Stress)
	cmd := exec.Command(self)
	cmd.Env = append(os.Environ(), "VERIF_C10_STRESS="+string(in))
	done := make(chan struct{})
	var outb []byte
	go func() { outb, err = cmd.CombinedOutput(); close(done) }()
	select {
	case <-done:
	case <-time.After(120 * time.Second):
		_ = cmd.Process.Kill()
		<-done
		return Obs{Real: 3, Dones: make([]int, c.Stress.Workers)}
	}
	s := string(outb)
	o := Obs{Real: 3, Dones: make([]int, c.Stress.Workers)}
	if strings.Contains(s, "sync: unlock of unlocked mutex") || strings.Contains(s, "sync: Unlock of unlocked") {
		o.Real = 2
		return o
	}
	i := strings.LastIndex(s, "STRESS_RESULT ")
	if i < 0 {
		// the child died some other way: observed as "did not complete" (the judge rejects it; the tail of
		// its output goes to the runner's log)
		fmt.Fprintln(os.Stderr, "c10 stress child: "+tailStr(s, 400))
		return o
	}
	line := s[i+len("STRESS_RESULT "):]
	if k := strings.IndexByte(line, '\n'); k >= 0 {
		line = line[:k]
	}
	var so stressOut
	if json.Unmarshal([]byte(line), &so) != nil {
		return o
	}
	o.Dones, o.Counter = so.Dones, so.Counter
	if so.Free && !so.Stalled {
		o.Real = 1
	}
	return o
}

func tailStr(s string, n int) string {
	if len(s) > n {
		return s[len(s)-n:]
	}
	return s
}

func genStress(r *vgen.Rng, tier string) []Case {
	var out []Case
	pairs := 60000
	if tier == "thorough" {
		pairs = 400000
	}
	for _, store := range []string{"ecdsa", "frost"} {
		// 8 goroutines on all processors; the same with the holders yielding inside the critical section
		// (waiters pile up in the mutex's queue: hand-overs to parked goroutines); 2 goroutines (pure
		// spinning) and 32 on 4 processors (long queues)
		out = append(out,
			Case{Stress: &Stress{Store: store, Workers: 8, Pairs: pairs}},
			Case{Stress: &Stress{Store: store, Workers: 8, Pairs: pairs / 4, Yield: true}},
			Case{Stress: &Stress{Store: store, Workers: 2, Pairs: pairs * 2, Procs: 2}},
			Case{Stress: &Stress{Store: store, Workers: 32, Pairs: pairs / 8, Procs: 4}},
		)
		if tier == "thorough" {
			for i := 0; i < 6; i++ {
				out = append(out, Case{Stress: &Stress{Store: store, Workers: r.Range(2, 24), Pairs: pairs/4 + r.Intn(pairs), Yield: r.Bool(), Procs: vgen.Pick(r, []int{0, 2, 4, 8})}})
			}
		}
	}
	return out
}
