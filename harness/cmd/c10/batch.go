// batch cases: ONE session with SEVERAL real processes - Coordinator.Execute(ctx, []TssProcess{p0..pN-1}, ...)
// (the Execute contract: "array of processes can be passed if all the processes have to have the same peer
// subset"; the bitcoin executor passes one signing process per transaction input, a key refresh may reshare
// the ECDSA and the FROST key in one session).  Every process of the batch is made by its real constructor
// on a key-share store OF ITS OWN (a counting store with its own ledger; in the replay a real
// keyshare.*Store with its real sync.Mutex), so the ledger says per process - per store - what was locked
// and what was given back: every lock taken must be released exactly once, no lock released that is not
// held, whichever way the session ends and however many processes it has.
package main

import (
	"context"
	"encoding/json"
	"fmt"
	"os"
	"path/filepath"
	"runtime"
	"time"

	"github.com/ChainSafe/sygma-relayer/comm"
	"github.com/ChainSafe/sygma-relayer/keyshare"
	"github.com/ChainSafe/sygma-relayer/tss"
	tssmsg "github.com/ChainSafe/sygma-relayer/tss/message"
	"github.com/libp2p/go-libp2p/core/peer"

	"verifharness/tssfakes"
	"verifharness/vgen"
)

type BatchSpec struct {
	Kinds   []string `json:"kinds"`
	Outcome string   `json:"outcome"` // NeverSilent NeverTimeout NeverCancelled CancelledBeforeEntry StartMalformed ParamsRejected RanFailed Refused Rerun
	Role    string   `json:"role"`
	Entry   string   `json:"entry,omitempty"`
	Second  string   `json:"second,omitempty"`
	Procs   int      `json:"procs,omitempty"` // 1: the session runs under GOMAXPROCS(1)
}

func batchSid(sid string, i int) string {
	if i == 0 {
		return sid
	}
	return fmt.Sprintf("%s-in%d", sid, i)
}

// batch drives one session with a batch of processes; returns the per-process ledgers (counting stores)
// and the stores (for the final probe of the replay on the real ones).
func (p *party) batch(b BatchSpec) (ledgers [][]string, stores []locker, note string) {
	if b.Procs > 0 {
		defer runtime.GOMAXPROCS(runtime.GOMAXPROCS(b.Procs))
	}
	n := len(b.Kinds)
	sid, coordinator := pickSid(b.Kinds[0], b.Role)
	p.c.CoordinatorTimeout, p.c.TssTimeout, p.c.InitiatePeriod = long, long, long
	p.answerInitiate(true)
	ctx, cancel := context.WithCancel(context.Background())
	defer cancel()

	var blocker *tssfakes.RecProcess
	var blockerDone chan error
	if b.Outcome == "Refused" {
		blocker = tssfakes.NewRecProcess(sid, []peer.ID{ids[0]}, 2)
		blockerDone = make(chan error, 1)
		go func() {
			blockerDone <- p.c.Execute(context.Background(), []tss.TssProcess{blocker}, make(chan interface{}, 1))
		}()
		if !tssfakes.WaitP("the blocking session to start", func() bool { return blocker.Runs() > 0 }) {
			note += "blocker did not start; "
		}
	}
	switch b.Outcome {
	case "NeverSilent":
		p.c.CoordinatorTimeout = 30 * time.Millisecond
		p.c.TssTimeout = 600 * time.Millisecond
		p.answerInitiate(false)
	case "NeverTimeout":
		p.c.TssTimeout = 30 * time.Millisecond
		p.answerInitiate(false)
	case "NeverCancelled":
		p.answerInitiate(false)
	case "CancelledBeforeEntry":
		p.answerInitiate(false)
		if b.Entry == "deadline" {
			var c2 context.CancelFunc
			ctx, c2 = context.WithDeadline(ctx, time.Now().Add(-time.Second))
			defer c2()
		} else {
			cancel()
		}
	}
	// the real constructors, each on a store of its own
	procs := make([]tss.TssProcess, n)
	leds := make([]*tssfakes.Ledger, n)
	for i, kind := range b.Kinds {
		var es ecdsaStore
		var fs frostStore
		leds[i] = tssfakes.NewLedger()
		if p.real {
			ep, fp := filepath.Join(p.dir, fmt.Sprintf("ecdsa-b%d.keyshare", i)), filepath.Join(p.dir, fmt.Sprintf("frost-b%d.keyshare", i))
			copyFile(fixture(p.idx, false), ep)
			copyFile(fixture(p.idx, true), fp)
			res, rfs := keyshare.NewECDSAKeyshareStore(ep), keyshare.NewFrostKeyshareStore(fp)
			es, fs = res, rfs
			stores = append(stores, res, rfs)
		} else {
			ces := tssfakes.NewCountingECDSAStorer(leds[i])
			ces.File = keyshare.NewECDSAKeyshareStore(p.epath)
			cfs := tssfakes.NewCountingFrostStorer(leds[i])
			cfs.File = keyshare.NewFrostKeyshareStore(p.fpath)
			es, fs = ces, cfs
			stores = append(stores, ces, cfs)
		}
		proc, err := p.mkOn(p.host, p.comm, es, fs, "", kind, batchSid(sid, i), 1)
		if err != nil {
			return nil, stores, note + "constructor failed: " + err.Error()
		}
		proc.(*wrapped).led = leds[i]
		procs[i] = proc
	}
	done := make(chan error, 1)
	go func() { done <- p.c.Execute(ctx, procs, make(chan interface{}, 4*n+4)) }()

	subscribed := func(mt comm.MessageType) {
		tssfakes.WaitP("Execute to subscribe", func() bool { return p.comm.Subscribers(sid, mt) >= 1 || len(done) > 0 })
	}
	deliverStart := func(payload []byte) {
		subscribed(comm.TssStartMsg)
		p.comm.Deliver(sid, comm.TssStartMsg, coordinator, payload)
	}
	startMsg := func(params []byte) []byte {
		m, _ := tssmsg.MarshalStartMessage(params)
		return m
	}
	switch b.Outcome {
	case "NeverCancelled":
		if b.Role == "coord" {
			subscribed(comm.TssReadyMsg)
		} else {
			subscribed(comm.TssStartMsg)
		}
		subscribed(comm.TssFailMsg)
		cancel()
	case "StartMalformed":
		deliverStart([]byte("\x00 not a start message"))
		select {
		case e := <-done:
			done <- e
		case <-time.After(time.Second):
			cancel()
		}
	case "ParamsRejected":
		deliverStart(startMsg([]byte("x")))
	case "RanFailed":
		// (batches of one signing kind) a committee of one: decodes fine, the protocol library refuses it inside Run
		params, _ := json.Marshal([]peer.ID{ids[0]})
		deliverStart(startMsg(params))
	case "Rerun":
		deliverStart(startMsg(othersParams()))
		tssfakes.WaitP("Execute to wait for the second start message", func() bool {
			return len(done) > 0 || (p.startSubscriptions(sid) >= 2 && p.comm.Subscribers(sid, comm.TssStartMsg) >= 1)
		})
		p.comm.Deliver(sid, comm.TssStartMsg, ids[1], startMsg(secondParams(b.Second)))
	}
	if _, ok := tssfakes.RecvP("Execute to return", done); !ok {
		note += "Execute did not return; "
	}
	if blocker != nil {
		blocker.Release()
		if _, ok := tssfakes.RecvP("the blocking session to return", blockerDone); !ok {
			note += "blocker stuck; "
		}
	}
	for _, l := range leds {
		ev := lockEvents(l)
		if ev == nil {
			ev = []string{}
		}
		ledgers = append(ledgers, ev)
	}
	return ledgers, stores, note
}

func runBatch(c Case) Obs {
	p := newParty(0, nil, false)
	defer p.cleanup()
	var o Obs
	o.Ledgers, _, o.Note = p.batch(*c.Batch)
	if c.Real && heldReplays < 4 {
		o.Real, o.Note = realReplay(c, o.Note)
		if o.Real == 3 {
			heldReplays++
		}
	}
	return o
}

// batchChild: the same session in the child process, every process on a REAL store of its own; then
// every one of these stores must be free.
func batchChild(p *party, c Case) {
	_, stores, note := p.batch(*c.Batch)
	if note != "" {
		fmt.Println("note:", note)
	}
	free := make(chan struct{})
	go func() {
		for _, s := range stores {
			s.LockKeyshare()
			s.UnlockKeyshare()
		}
		close(free)
	}()
	select {
	case <-free:
		fmt.Println("REAL_FREE")
	case <-time.After(3 * time.Second):
		fmt.Println("REAL_HELD")
	}
	os.Stdout.Sync()
}

// ---- generation -------------------------------------------------------------------------------------

// batchFeasible: the outcomes a batch of these kinds can be driven to (every process of the batch gets
// the same start message).
func batchFeasible(kinds []string, oc string) bool {
	allSigning, sameKind := true, true
	for _, k := range kinds {
		allSigning = allSigning && signing(k)
		sameKind = sameKind && k == kinds[0]
		if !feasible(k, oc) {
			return false
		}
	}
	switch oc {
	case "RanFailed":
		return allSigning && sameKind
	case "Rerun":
		return allSigning
	}
	return true
}

func batchRoles(kinds []string, oc string) []string {
	switch oc {
	case "NeverSilent", "StartMalformed", "ParamsRejected", "Rerun", "RanFailed":
		return []string{"peer"}
	case "Refused":
		return []string{"coord"}
	}
	return []string{"coord", "peer"}
}

var batchOutcomes = []string{"NeverSilent", "NeverTimeout", "NeverCancelled", "CancelledBeforeEntry", "StartMalformed", "ParamsRejected", "RanFailed", "Refused", "Rerun"}

func genBatch(r *vgen.Rng, tier string) []Case {
	var out []Case
	add := func(kinds []string, oc string, real bool) {
		if !batchFeasible(kinds, oc) {
			return
		}
		b := &BatchSpec{Kinds: kinds, Outcome: oc, Role: vgen.Pick(r, batchRoles(kinds, oc))}
		if oc == "CancelledBeforeEntry" {
			b.Entry = vgen.Pick(r, entries)
		}
		if oc == "Rerun" {
			b.Second = vgen.Pick(r, seconds)
		}
		if r.Intn(3) == 0 {
			b.Procs = 1
		}
		out = append(out, Case{Batch: b, Real: real})
	}
	// a key refresh that reshares both keys in one session, in both orders; with a signing process in front
	// / behind; the bitcoin executor's batch of signings; keygens of both keys
	fixed := [][]string{
		{"EcdsaResharing", "FrostResharing"},
		{"FrostResharing", "EcdsaResharing"},
		{"FrostKeygen", "EcdsaKeygen"},
		{"EcdsaKeygen", "FrostKeygen"},
		{"FrostSigning", "FrostSigning", "FrostSigning"},
		{"EcdsaSigning", "EcdsaSigning"},
		{"EcdsaResharing", "FrostResharing", "FrostSigning"},
		{"FrostSigning", "EcdsaResharing", "FrostKeygen", "EcdsaSigning"},
	}
	for i, ks := range fixed {
		for j, oc := range batchOutcomes {
			if tier != "thorough" && oc == "NeverSilent" && signing(ks[0]) {
				continue // (a retryable first process waits out the 600 ms TSS timeout)
			}
			add(ks, oc, (i+j)%3 == 0)
		}
	}
	// random batches of 2..6 processes of any kinds
	nrand := 24
	if tier == "thorough" {
		nrand = 400
	}
	for i := 0; i < nrand; i++ {
		n := r.Range(2, 6)
		ks := make([]string, n)
		for j := range ks {
			ks[j] = vgen.Pick(r, kinds)
		}
		if i%4 == 0 { // signings only: every outcome is feasible
			for j := range ks {
				ks[j] = vgen.Pick(r, []string{"EcdsaSigning", "FrostSigning"})
			}
		}
		oc := vgen.Pick(r, batchOutcomes)
		for try := 0; try < 8 && (!batchFeasible(ks, oc) || (tier != "thorough" && oc == "NeverSilent" && signing(ks[0]))); try++ {
			oc = vgen.Pick(r, batchOutcomes)
		}
		add(ks, oc, i%4 == 1)
	}
	return out
}

func coqBatch(c Case, o Obs) string {
	b := c.Batch
	leds := o.Ledgers
	if o.Note != "" || len(leds) != len(b.Kinds) {
		// the harness could not drive the session as asked: fail as a broken correspondence
		leds = make([][]string, len(b.Kinds))
		o.Real = 0
	}
	oc := b.Outcome
	return "Batch " + vgen.ListOf(b.Kinds, func(s string) string { return s }) + " " + oc + " " +
		vgen.ListOf(leds, func(l []string) string { return vgen.ListOf(l, func(s string) string { return s }) }) + " " + vgen.Nat(o.Real)
}

func kindBatch(c Case) string {
	k := fmt.Sprintf("batch/n%d/%s", len(c.Batch.Kinds), c.Batch.Outcome)
	if c.Batch.Procs == 1 {
		k += "/p1"
	}
	return k
}
