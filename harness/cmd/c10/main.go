// C10 correspondence runner: the REAL process constructors (ECDSA/FROST x keygen/resharing/signing)
// driven through the REAL tss.Coordinator.Execute to every session outcome, with a counting,
// non-blocking key-share store (ledger of L/U/Get/Store) and a thin wrapper that brackets Run.
// Selected sessions are replayed in a child process on the real sync.Mutex store.
package main

import (
	"context"
	"encoding/json"
	"fmt"
	"io"
	"math/big"
	"os"
	"os/exec"
	"path/filepath"
	"strings"
	"sync"
	"sync/atomic"
	"time"

	"github.com/ChainSafe/sygma-relayer/comm"
	"github.com/ChainSafe/sygma-relayer/comm/elector"
	"github.com/ChainSafe/sygma-relayer/config/relayer"
	"github.com/ChainSafe/sygma-relayer/keyshare"
	"github.com/ChainSafe/sygma-relayer/tss"
	ekeygen "github.com/ChainSafe/sygma-relayer/tss/ecdsa/keygen"
	eresharing "github.com/ChainSafe/sygma-relayer/tss/ecdsa/resharing"
	esigning "github.com/ChainSafe/sygma-relayer/tss/ecdsa/signing"
	fkeygen "github.com/ChainSafe/sygma-relayer/tss/frost/keygen"
	fresharing "github.com/ChainSafe/sygma-relayer/tss/frost/resharing"
	fsigning "github.com/ChainSafe/sygma-relayer/tss/frost/signing"
	tssmsg "github.com/ChainSafe/sygma-relayer/tss/message"
	"github.com/ChainSafe/sygma-relayer/tss/util"
	"github.com/libp2p/go-libp2p/core/peer"
	"github.com/rs/zerolog"

	"verifharness/tssfakes"
	"verifharness/vgen"
)

// ---- case / observation -----------------------------------------------------------------------

type Sess struct {
	Kind    string `json:"kind"`    // EcdsaKeygen FrostKeygen EcdsaResharing FrostResharing EcdsaSigning FrostSigning
	Outcome string `json:"outcome"` // NeverSilent NeverTimeout NeverCancelled StartMalformed ParamsRejected RanFailed RanSucceeded Refused Rerun ConstructorFails
	Role    string `json:"role"`    // coord | peer (this relayer's role in the session)
	// Share: the state the key-share file of the process's store is put in before the constructor
	// runs: "" readable | missing | corrupt | unreadable
	Share string `json:"share,omitempty"`
	// Tweak (FROST signing): "" a valid tweak | nothex | short
	Tweak string `json:"tweak,omitempty"`
	// Second (outcome Rerun): what the second Run on the same object is given: "" undecodable
	// parameters | one (a committee of one, refused inside Run) | subset (again a committee without
	// this relayer)
	Second string `json:"second,omitempty"`
	// While (contention cases, kinds that ask for the lock inside Run): the session is cancelled
	// (cancel) or hits the TSS timeout (timeout) while its Run waits for the lock
	While string `json:"while,omitempty"`
	// Entry (outcome CancelledBeforeEntry): the state of the context handed to Execute: "" already
	// cancelled | deadline (a deadline that has already passed)
	Entry string `json:"entry,omitempty"`
	// outcome FailedRetryable: a STARTED Run fails with an error of class Err (comm | tss | subset |
	// coordinator).  How: "" the error the real Run returns after it began is replaced by one of that
	// class | bcast (the real first protocol message cannot be broadcast: a real CommunicationError) |
	// selfless (ECDSA keygen on a host that does not list itself: a real tss.Error from Party.Start).
	// Answer: the peers answer the initiate messages of a retry (signing kinds; the other kinds are
	// never retried and always answered)
	Err    string `json:"err,omitempty"`
	How    string `json:"how,omitempty"`
	Answer bool   `json:"answer,omitempty"`
	// outcomes PanicBeforeStart (At: validcoordinators | ready | startparams | run-early),
	// PanicInRunLate (At: run-late | goexit | real - the process's own Run panics: FROST resharing of a
	// share-less relayer that is sent "{}", ECDSA resharing of a share-less relayer that is sent an old
	// subset of unknown peers), PanicAfterRun (Retryable() panics after Run failed)
	At string `json:"at,omitempty"`
}

// Stress: the REAL store object under contention (stress.go)
type Stress struct {
	Store   string `json:"store"` // ecdsa | frost
	Workers int    `json:"workers"`
	Pairs   int    `json:"pairs"`
	Yield   bool   `json:"yield,omitempty"` // workers yield the processor inside the critical section
	Procs   int    `json:"procs,omitempty"` // GOMAXPROCS of the child (0 = all)
}

type Case struct {
	Sessions []Sess `json:"sessions"` // one = Session case, several = Sequence case
	Real     bool   `json:"real,omitempty"`
	// Contention: the sessions OVERLAP on one store whose Lock really blocks (conc.go): Sessions[0]
	// holds the lock while the others ask for it
	Contention bool `json:"contention,omitempty"`
	// Stress: no session at all - balanced Lock/Unlock pairs on the real store in a child process
	Stress *Stress `json:"stress,omitempty"`
	// Batch: ONE session with several real processes, each on a store of its own (batch.go)
	Batch *BatchSpec `json:"batch,omitempty"`
}

type Obs struct {
	Ledger []string `json:"ledger"`
	// contention cases: Ledger[i] belongs to session Threads[i]
	Threads []int `json:"threads,omitempty"`
	// batch cases: one ledger per process of the batch (each process has a store of its own)
	Ledgers [][]string `json:"ledgers,omitempty"`
	// stress cases: pairs completed per worker and the final value of the shared counter
	Dones   []int `json:"dones,omitempty"`
	Counter int   `json:"counter,omitempty"`
	// how the sessions with a failing / panicking process ended (for the record, not judged)
	Ends []string `json:"ends,omitempty"`
	Real int      `json:"real"` // 0 not replayed, 1 completed + lock free, 2 fatal unlock, 3 lock not free (a constructor or the final probe blocked)
	Note string   `json:"note,omitempty"`
}

// ---- parties ------------------------------------------------------------------------------------

const long = time.Hour

var repo = func() string {
	if r := os.Getenv("VERIF_REPO"); r != "" {
		return r
	}
	return "/repo"
}()

var ids []peer.ID

type ecdsaStore interface {
	StoreKeyshare(keyshare.ECDSAKeyshare) error
	LockKeyshare()
	UnlockKeyshare()
	GetKeyshare() (keyshare.ECDSAKeyshare, error)
}
type frostStore interface {
	StoreKeyshare(keyshare.FrostKeyshare) error
	LockKeyshare()
	UnlockKeyshare()
	GetKeyshare() (keyshare.FrostKeyshare, error)
}

type party struct {
	idx  int
	host *tssfakes.FakeHost
	comm *tssfakes.RecComm
	led  *tssfakes.Ledger
	c    *tss.Coordinator
	es   ecdsaStore
	fs   frostStore
	real bool
	// the party's own copies of the key-share fixtures (the files behind es / fs)
	dir          string
	epath, fpath string
	// the state the harness last put each file in (prepare)
	eState, fState string
	ends           []string
}

func (p *party) cleanup() {
	if p.dir != "" {
		os.RemoveAll(p.dir)
	}
}

// setShare puts the key-share file at path into the given state.
func setShare(path, fixturePath, state string) {
	os.RemoveAll(path)
	switch state {
	case "":
		copyFile(fixturePath, path)
	case "missing":
	case "corrupt":
		// the beginning of the real file, cut in the middle of the JSON document
		b, err := os.ReadFile(fixturePath)
		if err != nil {
			panic(err)
		}
		if err := os.WriteFile(path, b[:len(b)/3], 0o600); err != nil {
			panic(err)
		}
	case "unreadable":
		// reading fails with something else than "no such file"; (file modes do not stop root, a
		// directory in the file's place stops everybody)
		if err := os.Mkdir(path, 0o700); err != nil {
			panic(err)
		}
	default:
		panic("share state " + state)
	}
}

func frostKind(kind string) bool { return strings.HasPrefix(kind, "Frost") }

// prepare puts the key-share file of the store the session's process uses into the state asked for
// (and the other one back to readable).
func (p *party) prepare(s Sess) {
	es, fs := "", ""
	if frostKind(s.Kind) {
		fs = s.Share
	} else {
		es = s.Share
	}
	setShare(p.epath, fixture(p.idx, false), es)
	setShare(p.fpath, fixture(p.idx, true), fs)
	// The harness has replaced a key-share file behind the store's back (on a relayer this is an
	// operator restoring / losing the file while the relayer is down): the relayer comes up with a new
	// store object - what a store may have kept in memory is gone.  The mutex of the old object must
	// be free at that point (a leaked lock is reported, as at every constructor).
	if es != p.eState {
		p.eState = es
		switch st := p.es.(type) {
		case *tssfakes.CountingECDSAStorer:
			st.File = keyshare.NewECDSAKeyshareStore(p.epath)
		case *keyshare.ECDSAKeyshareStore:
			p.mustBeFree(st)
			p.es = keyshare.NewECDSAKeyshareStore(p.epath)
		}
	}
	if fs != p.fState {
		p.fState = fs
		switch st := p.fs.(type) {
		case *tssfakes.CountingFrostStorer:
			st.File = keyshare.NewFrostKeyshareStore(p.fpath)
		case *keyshare.FrostKeyshareStore:
			p.mustBeFree(st)
			p.fs = keyshare.NewFrostKeyshareStore(p.fpath)
		}
	}
}

// mustBeFree (child process on the real stores): the store's lock can be taken within 5 s.
func (p *party) mustBeFree(st interface {
	LockKeyshare()
	UnlockKeyshare()
}) {
	free := make(chan struct{})
	go func() {
		st.LockKeyshare()
		st.UnlockKeyshare()
		close(free)
	}()
	select {
	case <-free:
	case <-time.After(5 * time.Second):
		fmt.Println("REAL_HELD")
		os.Exit(0)
	}
}

func fixture(i int, frost bool) string {
	n := fmt.Sprintf("%d.keyshare", i)
	if frost {
		n = fmt.Sprintf("%d-frost.keyshare", i)
	}
	return filepath.Join(repo, "tss", "test", "keyshares", n)
}

func copyFile(src, dst string) {
	in, err := os.Open(src)
	if err != nil {
		panic(err)
	}
	defer in.Close()
	f, err := os.OpenFile(dst, os.O_CREATE|os.O_WRONLY|os.O_TRUNC, 0o600)
	if err != nil {
		panic(err)
	}
	if _, err := io.Copy(f, in); err != nil {
		panic(err)
	}
	f.Close()
}

func newParty(i int, hub *tssfakes.Hub, real bool) *party {
	p := &party{idx: i, led: tssfakes.NewLedger()}
	p.host = tssfakes.NewFakeHost(ids[i], ids)
	p.comm = tssfakes.NewRecComm(ids[i], p.led)
	if hub != nil {
		hub.Join(p.comm)
	}
	ef := elector.NewCoordinatorElectorFactory(p.host, relayer.BullyConfig{})
	p.c = tss.NewCoordinator(p.host, p.comm, ef)
	p.c.CoordinatorTimeout, p.c.TssTimeout, p.c.InitiatePeriod = long, long, long
	var err error
	if p.dir, err = os.MkdirTemp("", "c10shares"); err != nil {
		panic(err)
	}
	p.epath, p.fpath = filepath.Join(p.dir, "ecdsa.keyshare"), filepath.Join(p.dir, "frost.keyshare")
	copyFile(fixture(i, false), p.epath)
	copyFile(fixture(i, true), p.fpath)
	p.real = real
	if real {
		p.es = keyshare.NewECDSAKeyshareStore(p.epath)
		p.fs = keyshare.NewFrostKeyshareStore(p.fpath)
		return p
	}
	// the counting stores replace only the mutex: the share is really read from the party's file
	es := tssfakes.NewCountingECDSAStorer(p.led)
	es.File = keyshare.NewECDSAKeyshareStore(p.epath)
	fs := tssfakes.NewCountingFrostStorer(p.led)
	fs.File = keyshare.NewFrostKeyshareStore(p.fpath)
	p.es, p.fs = es, fs
	return p
}

// answerInitiate: the other two relayers answer every initiate message with "ready".
func (p *party) answerInitiate(on bool) {
	if !on {
		p.comm.OnBroadcast = nil
		return
	}
	cm := p.comm
	cm.OnBroadcast = func(_ peer.IDSlice, _ []byte, mt comm.MessageType, sid string) {
		if mt == comm.TssInitiateMsg {
			for j, id := range ids {
				if j != p.idx {
					cm.Deliver(sid, comm.TssReadyMsg, id, []byte{})
				}
			}
		}
	}
}

// wrapped brackets Run in the ledger.
type wrapped struct {
	tss.TssProcess
	led *tssfakes.Ledger
	tag string
}

func (w *wrapped) Run(ctx context.Context, coordinator bool, resultChn chan interface{}, params []byte) error {
	w.led.Add(tssfakes.Event{Kind: "RunBegin", SID: w.tag})
	defer w.led.Add(tssfakes.Event{Kind: "RunEnd", SID: w.tag})
	return w.TssProcess.Run(ctx, coordinator, resultChn, params)
}

const tweak = "c82aa6ae534bb28aaafeb3660c31d6a52e187d8f05d48bb6bdb9b733a9b42212"

func (p *party) mk(kind, sid string, threshold int, tweaks ...string) (tss.TssProcess, error) {
	return p.mkWith(p.es, p.fs, "", kind, sid, threshold, tweaks...)
}

// mkWith: the real constructor of `kind` on the given stores; tag marks the process's ledger entries.
func (p *party) mkWith(es ecdsaStore, fs frostStore, tag, kind, sid string, threshold int, tweaks ...string) (tss.TssProcess, error) {
	return p.mkOn(p.host, p.comm, es, fs, tag, kind, sid, threshold, tweaks...)
}

// mkOn: the same on another host / communication (a host that does not list itself, a communication
// whose protocol broadcasts fail); the coordinator keeps the party's own.
func (p *party) mkOn(h *tssfakes.FakeHost, cm comm.Communication, es ecdsaStore, fs frostStore, tag, kind, sid string, threshold int, tweaks ...string) (tss.TssProcess, error) {
	tweak := tweak
	if len(tweaks) > 0 {
		switch tweaks[0] {
		case "nothex":
			tweak = "this is not hex"
		case "short":
			tweak = "c82aa6ae534bb28a"
		}
	}
	var proc tss.TssProcess
	var err error
	switch kind {
	case "EcdsaKeygen":
		proc = ekeygen.NewKeygen(sid, threshold, h, cm, es)
	case "FrostKeygen":
		proc = fkeygen.NewKeygen(sid, threshold, h, cm, fs)
	case "EcdsaResharing":
		proc = eresharing.NewResharing(sid, threshold, h, cm, es)
	case "FrostResharing":
		proc = fresharing.NewResharing(sid, threshold, h, cm, fs)
	case "EcdsaSigning":
		var s *esigning.Signing
		s, err = esigning.NewSigning(big.NewInt(0x1234567), "m"+sid, sid, h, cm, es)
		proc = s
	case "FrostSigning":
		var s *fsigning.Signing
		s, err = fsigning.NewSigning(1, []byte("Message"), tweak, "m"+sid, sid, h, cm, fs)
		proc = s
	default:
		panic("kind " + kind)
	}
	if err != nil {
		return nil, err
	}
	return &wrapped{TssProcess: proc, led: p.led, tag: tag}, nil
}

func runMsgType(kind string) comm.MessageType {
	switch kind {
	case "EcdsaKeygen", "FrostKeygen":
		return comm.TssKeyGenMsg
	case "EcdsaResharing", "FrostResharing":
		return comm.TssReshareMsg
	}
	return comm.TssKeySignMsg
}

var sidCtr atomic.Int64

// pickSid returns a fresh session id for which the static coordinator is (role coord) or is not
// (role peer) party 0, together with that coordinator.
func pickSid(kind, role string) (string, peer.ID) {
	for {
		sid := fmt.Sprintf("c10%s%d", kind, sidCtr.Add(1))
		co := util.SortPeersForSession(ids, sid)[0].ID
		if (co == ids[0]) == (role == "coord") {
			return sid, co
		}
	}
}

func goodParams(kind string, coordinator peer.ID) []byte {
	switch kind {
	case "EcdsaResharing":
		b, _ := json.Marshal(map[string]interface{}{"oldThreshold": 1, "oldSubset": ids})
		return b
	case "FrostResharing":
		// what a coordinator that holds a share sends (Resharing.StartParams): the public key and the
		// verification shares.  (A relayer WITHOUT a share that is sent "{}" instead panics in Run with
		// "assignment to entry in nil map", resharing.go:113 - an input validation matter outside this
		// property; the harness sends what a real coordinator sends.)
		k, err := keyshare.NewFrostKeyshareStore(fixture(1, true)).GetKeyshare()
		if err != nil {
			panic(err)
		}
		b, _ := json.Marshal(map[string]interface{}{"PublicKey": k.Key.PublicKey, "VerificationShares": k.Key.VerificationShares})
		return b
	case "EcdsaSigning", "FrostSigning":
		b, _ := json.Marshal([]peer.ID{ids[0], coordinator})
		return b
	}
	return []byte{}
}

// othersParams: a signing committee that does not contain this relayer.
func othersParams() []byte {
	b, _ := json.Marshal([]peer.ID{ids[1], ids[2]})
	return b
}

// secondParams: the parameters of the second start message of a Rerun session.
func secondParams(second string) []byte {
	switch second {
	case "one":
		b, _ := json.Marshal([]peer.ID{ids[0]})
		return b
	case "subset":
		return othersParams()
	}
	return []byte("x")
}

// startSubscriptions: how often Execute has subscribed to the start messages of the session so far.
func (p *party) startSubscriptions(sid string) int {
	n := 0
	for _, e := range p.led.Snapshot() {
		if e.Kind == "Sub" && e.SID == sid && e.Msg == comm.TssStartMsg {
			n++
		}
	}
	return n
}

func badParams(kind string) []byte {
	if kind == "EcdsaResharing" {
		return []byte(`{"oldThreshold":0,"oldSubset":[]}`)
	}
	return []byte("x")
}

// errHeld: a constructor did not come back - it waits for a key-share mutex that is still held.
var errHeld = fmt.Errorf("constructor blocked on the key-share lock")

// construct runs the real constructor; on the real stores (child process) with a bounded wait,
// because a constructor blocks for ever on a mutex a predecessor leaked.
func (p *party) construct(s Sess, sid string, threshold int) (tss.TssProcess, error) {
	return p.constructWith(func() (tss.TssProcess, error) { return p.mk(s.Kind, sid, threshold, s.Tweak) })
}

func (p *party) constructWith(mk func() (tss.TssProcess, error)) (tss.TssProcess, error) {
	if !p.real {
		return mk()
	}
	type res struct {
		proc tss.TssProcess
		err  error
	}
	ch := make(chan res, 1)
	go func() {
		proc, err := mk()
		ch <- res{proc, err}
	}()
	select {
	case r := <-ch:
		return r.proc, r.err
	case <-time.After(5 * time.Second):
		return nil, errHeld
	}
}

// session drives one session of party p (the other relayers are played by the harness).
func (p *party) session(s Sess) string {
	if abnormalOutcome(s.Outcome) {
		return p.sessionAbnormal(s)
	}
	if s.Share != "" && resharing(s.Kind) {
		s.Role = "peer" // see rolesIn
	}
	sid, coordinator := pickSid(s.Kind, s.Role)
	p.c.CoordinatorTimeout, p.c.TssTimeout, p.c.InitiatePeriod = long, long, long
	p.answerInitiate(true)
	p.prepare(s)
	threshold := 1
	ctx, cancel := context.WithCancel(context.Background())
	defer cancel()
	note := ""

	if s.Outcome == "ConstructorFails" {
		_, err := p.construct(s, sid, threshold)
		switch {
		case err == errHeld:
			fmt.Println("REAL_HELD")
			os.Exit(0)
		case err == nil:
			return "the constructor did not fail; "
		}
		return ""
	}

	var blocker *tssfakes.RecProcess
	var blockerDone chan error
	if s.Outcome == "Refused" {
		// a session with the same id is already running (it does not touch the key share)
		blocker = tssfakes.NewRecProcess(sid, []peer.ID{ids[0]}, 2)
		blockerDone = make(chan error, 1)
		go func() {
			blockerDone <- p.c.Execute(context.Background(), []tss.TssProcess{blocker}, make(chan interface{}, 1))
		}()
		if !tssfakes.WaitP("the blocking session to start", func() bool { return blocker.Runs() > 0 }) {
			note += "blocker did not start; "
		}
	}
	switch s.Outcome {
	case "NeverSilent":
		// (a retryable process - signing - goes through a bully election after the coordinator
		// error; whoever is coordinator then, nobody answers, and the global timeout ends it)
		p.c.CoordinatorTimeout = 30 * time.Millisecond
		p.c.TssTimeout = 600 * time.Millisecond
		p.answerInitiate(false)
	case "NeverTimeout":
		p.c.TssTimeout = 30 * time.Millisecond
		p.answerInitiate(false)
	case "NeverCancelled":
		p.answerInitiate(false)
	case "CancelledBeforeEntry":
		// the caller has given up before Execute is called (the executor cancelled its execution
		// context: the proposal is already executed; a shared pool context cancelled by a sibling; a
		// deadline that has passed).  Nobody answers: whichever branch of the wait loops is taken, Run
		// is not called.
		p.answerInitiate(false)
		if s.Entry == "deadline" {
			var c2 context.CancelFunc
			ctx, c2 = context.WithDeadline(ctx, time.Now().Add(-time.Second))
			defer c2()
		} else {
			cancel()
		}
	case "RanFailed":
		switch s.Kind {
		case "EcdsaKeygen", "FrostKeygen", "EcdsaResharing", "FrostResharing":
			threshold = 3 // not below the number of parties: the protocol library rejects it inside Run
		}
	}
	proc, err := p.construct(s, sid, threshold)
	if err == errHeld {
		fmt.Println("REAL_HELD")
		os.Exit(0)
	}
	if err != nil {
		return note + "constructor failed: " + err.Error()
	}
	done := make(chan error, 1)
	go func() { done <- p.c.Execute(ctx, []tss.TssProcess{proc}, make(chan interface{}, 4)) }()

	subscribed := func(mt comm.MessageType) {
		tssfakes.WaitP("Execute to subscribe", func() bool { return p.comm.Subscribers(sid, mt) >= 1 })
	}
	deliverStart := func(payload []byte) {
		subscribed(comm.TssStartMsg)
		p.comm.Deliver(sid, comm.TssStartMsg, coordinator, payload)
	}
	startMsg := func(params []byte) []byte {
		b, _ := tssmsg.MarshalStartMessage(params)
		return b
	}
	switch s.Outcome {
	case "NeverCancelled":
		if s.Role == "coord" {
			subscribed(comm.TssReadyMsg)
		} else {
			subscribed(comm.TssStartMsg)
		}
		subscribed(comm.TssFailMsg)
		cancel()
	case "StartMalformed":
		deliverStart([]byte("\x00 not a start message"))
		// (an implementation may go on waiting for a well-formed start message instead of giving the
		// session up: then the caller gives up - either way Run is never called)
		select {
		case e := <-done:
			done <- e
		case <-time.After(time.Second):
			cancel()
		}
	case "ParamsRejected":
		deliverStart(startMsg(badParams(s.Kind)))
	case "RanFailed":
		if s.Role == "peer" {
			params := goodParams(s.Kind, coordinator)
			if s.Kind == "EcdsaSigning" || s.Kind == "FrostSigning" {
				// a signing committee of one: decodes fine, the protocol library refuses it inside Run
				params, _ = json.Marshal([]peer.ID{ids[0]})
			}
			deliverStart(startMsg(params))
		}
	case "Rerun":
		// first start message: a committee without this relayer -> Run returns SubsetError ->
		// Coordinator.handleError waits for the next start message (from anybody) and calls Run again
		// on the SAME process object
		deliverStart(startMsg(othersParams()))
		tssfakes.WaitP("Execute to wait for the second start message", func() bool {
			return p.startSubscriptions(sid) >= 2 && p.comm.Subscribers(sid, comm.TssStartMsg) >= 1
		})
		p.comm.Deliver(sid, comm.TssStartMsg, ids[1], startMsg(secondParams(s.Second)))
	}
	if _, ok := tssfakes.RecvP("Execute to return", done); !ok {
		note += "Execute did not return; "
	}
	if blocker != nil {
		blocker.Release()
		if _, ok := tssfakes.RecvP("the blocking session to return", blockerDone); !ok {
			note += "blocker stuck; "
		}
	}
	return note
}

// ---- ran and succeeded: three real parties in one process ------------------------------------------

// succeedDeadline bounds a complete three-party run (set by the generator: the quick tier runs
// nothing slower than the FROST protocols with their ten second start-up pause; the thorough tier
// runs the ECDSA keygen with its safe prime generation).
var succeedDeadline = 25 * time.Minute

func succeed(kind string) (*tssfakes.Ledger, string) {
	hub := tssfakes.NewHub()
	ps := make([]*party, 3)
	for i := range ps {
		ps[i] = newParty(i, hub, false)
		defer ps[i].cleanup()
		ps[i].c.InitiatePeriod = 100 * time.Millisecond
	}
	sid := fmt.Sprintf("c10ok%s%d", kind, sidCtr.Add(1))
	ctx, cancel := context.WithCancel(context.Background())
	defer cancel()
	done := make(chan error, 3)
	res := make(chan interface{}, 8)
	note := ""
	// the static coordinator is started last, when the others already listen for its messages
	// (a start message sent before a relayer subscribed would be lost, as on the real network)
	coordinator := util.SortPeersForSession(ids, sid)[0].ID
	order := []int{}
	for i := range ps {
		if ids[i] != coordinator {
			order = append(order, i)
		}
	}
	for i := range ps {
		if ids[i] == coordinator {
			order = append(order, i)
		}
	}
	for _, i := range order {
		proc, err := ps[i].mk(kind, sid, 1)
		if err != nil {
			return ps[0].led, "constructor failed: " + err.Error()
		}
		i := i
		go func() { done <- ps[i].c.Execute(ctx, []tss.TssProcess{proc}, res) }()
		if ids[i] != coordinator && !ps[i].comm.WaitSubscribed(sid, comm.TssStartMsg, 1, tssfakes.Patience()) {
			note += "party did not subscribe; "
		}
	}
	deadline := time.After(succeedDeadline)
	if kind == "EcdsaSigning" || kind == "FrostSigning" {
		// threshold+1 = 2 relayers sign; the third one keeps waiting for a possible retry, so the
		// caller ends the sessions once both signers have reported their result
		for k := 0; k < 2; k++ {
			select {
			case <-res:
			case <-deadline:
				return ps[0].led, note + "no signature"
			}
		}
		cancel()
	}
	for k := 0; k < 3; k++ {
		select {
		case err := <-done:
			if err != nil {
				note += "party error: " + err.Error() + "; "
			}
		case <-deadline:
			return ps[0].led, note + "did not finish"
		}
	}
	return ps[0].led, note
}

// The complete runs are slow for reasons that have nothing to do with the lock (FROST processes
// sleep ten seconds, ECDSA keygen generates safe primes), so all the ones the generator asked for
// are started together the first time one of them is needed.
var (
	futMu    sync.Mutex
	futures  = map[string]chan Obs{}
	prefetch []string
)

func startFuture(kind string) chan Obs {
	if ch, ok := futures[kind]; ok {
		return ch
	}
	ch := make(chan Obs, 1)
	futures[kind] = ch
	go func() {
		led, note := succeed(kind)
		ch <- Obs{Ledger: lockEvents(led), Note: note}
	}()
	return ch
}

func succeedFuture(kind string) Obs {
	futMu.Lock()
	for _, k := range prefetch {
		startFuture(k)
	}
	startSlow()
	ch := startFuture(kind)
	futMu.Unlock()
	o := <-ch
	ch <- o
	return o
}

// ---- dispatch ------------------------------------------------------------------------------------

func lockEvents(led *tssfakes.Ledger) []string {
	var out []string
	for _, e := range led.Snapshot() {
		switch e.Kind {
		case "L", "U", "Get", "Store", "RunBegin", "RunEnd":
			out = append(out, e.Kind)
		}
	}
	return out
}

func run(c Case) Obs {
	var o Obs
	if len(c.Sessions) == 1 && c.Sessions[0].Outcome == "RanSucceeded" {
		return succeedFuture(c.Sessions[0].Kind)
	}
	if c.Stress != nil {
		return runStress(c)
	}
	if c.Batch != nil {
		return runBatch(c)
	}
	if len(c.Sessions) == 1 && slowSess(c.Sessions[0]) {
		return slowFuture(c)
	}
	if c.Contention {
		futMu.Lock()
		for _, k := range prefetch {
			startFuture(k)
		}
		startSlow()
		futMu.Unlock()
		return runContention(c)
	}
	p := newParty(0, nil, false)
	defer p.cleanup()
	for _, s := range c.Sessions {
		o.Note += p.session(s)
	}
	o.Ledger = lockEvents(p.led)
	o.Ends = p.ends
	if c.Real && heldReplays < 4 {
		// (after a few replays that ended with the real mutex held the point is made: each of them
		// costs seconds of waiting for a lock that does not come back)
		o.Real, o.Note = realReplay(c, o.Note)
		if o.Real == 3 {
			heldReplays++
		}
	}
	return o
}

var heldReplays int

// realReplay runs the same sessions in a child process on the real (sync.Mutex) stores.
func realReplay(c Case, note string) (int, string) {
	self, err := os.Executable()
	if err != nil {
		return 0, note + "no executable; "
	}
	in, _ := json.Marshal(c)
	cmd := exec.Command(self)
	cmd.Env = append(os.Environ(), "VERIF_C10_CHILD="+string(in))
	done := make(chan struct{})
	var out []byte
	go func() { out, err = cmd.CombinedOutput(); close(done) }()
	select {
	case <-done:
	case <-time.After(60 * time.Second):
		// (the child bounds its own waits; this is the last resort)
		_ = cmd.Process.Kill()
		<-done
		return 3, note
	}
	s := string(out)
	switch {
	case strings.Contains(s, "sync: unlock of unlocked mutex"):
		return 2, note
	case strings.Contains(s, "REAL_FREE"):
		return 1, note
	case strings.Contains(s, "REAL_HELD"):
		return 3, note
	}
	if len(s) > 300 {
		s = s[len(s)-300:]
	}
	return 3, note + "real replay: " + s
}

func child(js string) {
	var c Case
	if err := json.Unmarshal([]byte(js), &c); err != nil {
		panic(err)
	}
	p := newParty(0, nil, true)
	defer p.cleanup()
	tssfakes.MaxExpiries = 1 << 30 // (the parent bounds the child as a whole)
	go func() {
		time.Sleep(50 * time.Second)
		fmt.Println("CHILD_TIMEOUT")
		os.Exit(0)
	}()
	if c.Batch != nil {
		batchChild(p, c)
		return
	}
	for _, s := range c.Sessions {
		if n := p.session(s); n != "" {
			fmt.Println("note:", n)
		}
	}
	free := make(chan struct{})
	go func() {
		p.es.LockKeyshare()
		p.es.UnlockKeyshare()
		p.fs.LockKeyshare()
		p.fs.UnlockKeyshare()
		close(free)
	}()
	select {
	case <-free:
		fmt.Println("REAL_FREE")
	case <-time.After(3 * time.Second):
		fmt.Println("REAL_HELD")
	}
}

// ---- generation / printing -----------------------------------------------------------------------

var kinds = []string{"EcdsaKeygen", "FrostKeygen", "EcdsaResharing", "FrostResharing", "EcdsaSigning", "FrostSigning"}
var cheap = []string{"NeverSilent", "NeverTimeout", "NeverCancelled", "StartMalformed", "ParamsRejected", "RanFailed", "Refused", "Rerun", "CancelledBeforeEntry"}
var seqOutcomes = append(append([]string{}, cheap...), "FailedRetryable", "PanicBeforeStart", "PanicInRunLate", "PanicAfterRun")
var entries = []string{"", "deadline"}
var badShares = []string{"missing", "corrupt", "unreadable"}
var seconds = []string{"", "one", "subset"}

func signing(kind string) bool { return kind == "EcdsaSigning" || kind == "FrostSigning" }

func feasible(kind, outcome string) bool {
	if outcome == "ConstructorFails" || outcome == "Rerun" {
		// (only the signing kinds are Retryable: tss.Coordinator runs nothing else a second time)
		return signing(kind)
	}
	return !(outcome == "ParamsRejected" && (kind == "EcdsaKeygen" || kind == "FrostKeygen"))
}

// slow: the FROST processes sleep ten seconds (STARTUP_PAUSE) once their protocol has started and
// ECDSA keygen / resharing generate safe primes
func slow(kind, outcome string) bool {
	switch outcome {
	case "RanSucceeded":
		return true
	}
	return false
}

func resharing(kind string) bool { return kind == "EcdsaResharing" || kind == "FrostResharing" }

// rolesIn: the roles this relayer can have in a session that finds its share file in state sh.
// A resharing process without a readable share goes on with an empty one, which names no valid
// coordinators: such a relayer is never the coordinator (it waits for anybody's start message).
func rolesIn(kind, outcome, sh string) []string {
	if sh != "" && resharing(kind) && outcome != "Refused" {
		return []string{"peer"}
	}
	return roles(kind, outcome)
}

func roles(kind, outcome string) []string {
	if outcome == "RanFailed" && signing(kind) {
		return []string{"peer"} // as coordinator a signing process computes a valid committee itself
	}
	switch outcome {
	case "NeverSilent", "StartMalformed", "ParamsRejected", "Rerun":
		return []string{"peer"}
	case "RanFailed":
		return []string{"peer", "coord"}
	case "Refused", "ConstructorFails":
		return []string{"coord"}
	}
	return []string{"coord", "peer"}
}

func gen(r *vgen.Rng, tier string) []Case {
	var out []Case
	if tier == "thorough" {
		tssfakes.StartWatchdog("c10", 90*time.Minute)
	} else {
		succeedDeadline = 90 * time.Second
		tssfakes.StartWatchdog("c10", 4*time.Minute)
	}
	for _, k := range kinds {
		for _, oc := range append(append([]string{}, cheap...), "RanSucceeded") {
			if !feasible(k, oc) {
				continue
			}
			if slow(k, oc) {
				// the ECDSA keygen (safe prime generation, seconds to minutes of all cores) runs to
				// completion only in the thorough tier
				if tier != "thorough" && k == "EcdsaKeygen" {
					continue
				}
				out = append(out, Case{Sessions: []Sess{{Kind: k, Outcome: oc, Role: "coord"}}})
				prefetch = append(prefetch, k)
				continue
			}
			if oc == "Rerun" {
				// retried attempts: Run twice on the same object, the second time with undecodable
				// parameters / a committee the library refuses / again a committee without this relayer
				for _, sec := range seconds {
					out = append(out, Case{Sessions: []Sess{{Kind: k, Outcome: oc, Role: "peer", Second: sec}}, Real: sec == ""})
				}
				continue
			}
			if oc == "CancelledBeforeEntry" {
				// the state in which Execute is ENTERED: both roles x {already cancelled, deadline passed}
				for i, role := range roles(k, oc) {
					for j, en := range entries {
						out = append(out, Case{Sessions: []Sess{{Kind: k, Outcome: oc, Role: role, Entry: en}}, Real: i == j})
					}
				}
				continue
			}
			for _, role := range roles(k, oc) {
				out = append(out, Case{Sessions: []Sess{{Kind: k, Outcome: oc, Role: role}}, Real: role == roles(k, oc)[0]})
			}
		}
	}
	// the constructor meets a key-share file that cannot be read (missing, corrupt, unreadable):
	// the signing constructors fail; resharing goes on with an empty share and keygen does not
	// read it, so their sessions take every usual course
	for _, k := range kinds {
		for i, sh := range badShares {
			if signing(k) {
				out = append(out, Case{Sessions: []Sess{{Kind: k, Outcome: "ConstructorFails", Role: "coord", Share: sh}}, Real: true})
				continue
			}
			for j, oc := range cheap {
				if !feasible(k, oc) {
					continue
				}
				// every outcome with the missing file; two each with the others (all in the thorough tier)
				if tier != "thorough" && i > 0 && (i+j)%3 != 0 {
					continue
				}
				role := vgen.Pick(r, rolesIn(k, oc, sh))
				out = append(out, Case{Sessions: []Sess{{Kind: k, Outcome: oc, Role: role, Share: sh}}, Real: j%2 == 0})
			}
		}
	}
	// FROST signing: a readable share and a tweak that cannot be decoded
	for _, tw := range []string{"nothex", "short"} {
		out = append(out, Case{Sessions: []Sess{{Kind: "FrostSigning", Outcome: "ConstructorFails", Role: "coord", Tweak: tw}}, Real: true})
	}
	// started runs that fail with an error of every retryable class; panics (abnormal.go)
	out = append(out, genAbnormal(r, tier)...)
	// sessions that overlap on one store whose Lock really blocks (conc.go); they come first and the
	// slow complete runs are started in the background when the first of them is reached
	out = append(genContention(r, tier), out...)
	out = append(out, genStress(r, tier)...)
	// sessions with a batch of processes, each on a store of its own
	out = append(out, genBatch(r, tier)...)
	nseq := 40
	if tier == "thorough" {
		nseq = 600
	}
	for i := 0; i < nseq; i++ {
		var ss []Sess
		for n := r.Range(2, 7); len(ss) < n; {
			k, oc := vgen.Pick(r, kinds), vgen.Pick(r, seqOutcomes)
			sh := ""
			if r.Intn(3) == 0 {
				sh = vgen.Pick(r, badShares)
				if signing(k) {
					oc = "ConstructorFails"
				}
			}
			if !feasible(k, oc) || slow(k, oc) {
				continue
			}
			sec, en := "", ""
			if oc == "Rerun" {
				sec = vgen.Pick(r, seconds)
			}
			if oc == "CancelledBeforeEntry" {
				en = vgen.Pick(r, entries)
			}
			if abnormalOutcome(oc) {
				ss = append(ss, fillAbnormal(r, Sess{Kind: k, Outcome: oc, Share: sh}))
				continue
			}
			ss = append(ss, Sess{Kind: k, Outcome: oc, Role: vgen.Pick(r, rolesIn(k, oc, sh)), Share: sh, Second: sec, Entry: en})
		}
		// every fifth sequence is replayed on the real stores
		out = append(out, Case{Sessions: ss, Real: i%5 == 0})
	}
	return out
}

func shareName(s string) string {
	switch s {
	case "missing":
		return "Missing"
	case "corrupt":
		return "Corrupt"
	case "unreadable":
		return "Unreadable"
	}
	return "Readable"
}

func coq(c Case, o Obs) string {
	if c.Batch != nil {
		return coqBatch(c, o)
	}
	if c.Stress != nil {
		return "StoreStress " + vgen.Bool(c.Stress.Store == "frost") + " " + vgen.N(uint64(c.Stress.Workers)) + " " + vgen.N(uint64(c.Stress.Pairs)) + " " +
			vgen.ListOf(o.Dones, func(d int) string { return vgen.N(uint64(d)) }) + " " + vgen.N(uint64(o.Counter)) + " " + vgen.Nat(o.Real)
	}
	led := vgen.ListOf(o.Ledger, func(s string) string { return s })
	if o.Note != "" {
		// the harness could not drive the session as asked: make the case fail as a broken
		// correspondence rather than pass
		led = "[L; U; L; U; L; U; L; U; L; U]"
		o.Real = 0
	}
	if c.Contention {
		type te struct {
			t int
			e string
		}
		var tr []te
		for i, e := range o.Ledger {
			tr = append(tr, te{o.Threads[i], e})
		}
		if o.Note != "" {
			// the harness could not drive the sessions as asked: an empty ledger passes the judge and
			// differs from the model (the holder's session alone has events) - a broken correspondence
			tr = nil
			o.Real = 0
		}
		return "Contention " + vgen.ListOf(c.Sessions, func(s Sess) string { return vgen.Pair(s.Kind, s.Outcome) }) + " " +
			vgen.ListOf(tr, func(x te) string { return vgen.Pair(vgen.Nat(x.t), x.e) }) + " " + vgen.Nat(o.Real)
	}
	if len(c.Sessions) == 1 && c.Sessions[0].Outcome == "FailedRetryable" {
		s := c.Sessions[0]
		return "Failed " + s.Kind + " " + failureName(s.Err) + " " + vgen.Bool(s.Answer) + " " + shareName(s.Share) + " " + led + " " + vgen.Nat(o.Real)
	}
	if len(c.Sessions) == 1 {
		s := c.Sessions[0]
		return "Session " + s.Kind + " " + s.Outcome + " " + shareName(s.Share) + " " + led + " " + vgen.Nat(o.Real)
	}
	return "Sequence " + vgen.ListOf(c.Sessions, func(s Sess) string {
		return vgen.Pair(shareName(s.Share), vgen.Pair(s.Kind, coqOutcome(s)))
	}) + " " + led + " " + vgen.Nat(o.Real)
}

func kindOf(c Case) string {
	if c.Batch != nil {
		return kindBatch(c)
	}
	if c.Stress != nil {
		k := "stress/" + c.Stress.Store
		if c.Stress.Yield {
			k += "/yield"
		}
		return k
	}
	if len(c.Sessions) == 1 {
		k := c.Sessions[0].Kind + "/" + c.Sessions[0].Outcome
		if c.Sessions[0].Share != "" {
			k += "/share-" + c.Sessions[0].Share
		}
		if c.Sessions[0].Tweak != "" {
			k += "/tweak-" + c.Sessions[0].Tweak
		}
		if c.Sessions[0].Second != "" {
			k += "/second-" + c.Sessions[0].Second
		}
		if c.Sessions[0].Entry != "" {
			k += "/entry-" + c.Sessions[0].Entry
		}
		if c.Sessions[0].Err != "" {
			k += "/" + c.Sessions[0].Err
		}
		if c.Sessions[0].How != "" {
			k += "/" + c.Sessions[0].How
		}
		if c.Sessions[0].Answer {
			k += "/answered"
		}
		if c.Sessions[0].At != "" {
			k += "/at-" + c.Sessions[0].At
		}
		return k
	}
	if c.Contention {
		return "contention/" + c.Sessions[0].Kind
	}
	for _, s := range c.Sessions {
		if s.Share != "" {
			return "sequence/bad-shares"
		}
	}
	return "sequence"
}

func main() {
	zerolog.SetGlobalLevel(zerolog.Disabled)
	var err error
	ids, err = tssfakes.RepoPeerIDs(repo, 3)
	if err != nil {
		panic(err)
	}
	if js := os.Getenv("VERIF_C10_STRESS"); js != "" {
		stressChild(js)
		return
	}
	if js := os.Getenv("VERIF_C10_CHILD"); js != "" {
		child(js)
		return
	}
	vgen.Main(vgen.Spec[Case, Obs]{
		Property:  "C10",
		RunModule: "C10",
		Gen:       gen,
		Run:       run,
		Coq:       coq,
		Kind:      kindOf,
		NonTrivial: func(c Case, o Obs) bool {
			return len(o.Ledger) > 0 || len(c.Sessions) > 0 || c.Stress != nil || c.Batch != nil
		},
		Rule: "every process kind x every feasible outcome x the roles in which it can arise, each on a fresh counting store (half of them replayed on the real sync.Mutex store in a child process); every kind x {missing, corrupt, unreadable key-share file}: the signing constructors fail, keygen/resharing sessions take their usual courses; FROST signing with undecodable tweaks; random sequences of 2..7 sessions on one store, a third of the sessions on an unreadable share file, every fifth sequence replayed on the real stores; retried attempts (Run twice on the same signing object through Coordinator.handleError, three kinds of second start message); contention: a constructor-locking holder x 1..4 overlapping sessions of the kinds on its store (cancelled / timed out while waiting inside Run, waiting in their constructors, refused, retried) on a store whose Lock blocks, merged ledger with one tag per session; the state in which Execute is entered: every kind x both roles x {context already cancelled, deadline already passed}, alone, replayed on the real stores, in the sequences and as contenders; stress: 2..32 goroutines x tens of thousands of balanced LockKeyshare/UnlockKeyshare pairs with a non-atomic counter increment inside, on the REAL ECDSA and FROST store objects in a child process (stall detector, final Lock with a deadline); batch: ONE session with 2..6 real processes (ECDSA + FROST resharing in both orders, keygens of both keys, batches of signings, mixed and random kinds), each on a store of its own, x {coordinator silent, global timeout, cancelled, cancelled before entry, malformed start, rejected parameters, started and failed, refused duplicate, retried}, a third under GOMAXPROCS(1), one ledger per process, a third replayed with every process on a real sync.Mutex store of its own; distinct = distinct input JSON; every case is non-trivial (a real constructor and the real Execute run in each)",
	})
}
