// Thorough tier only: the concurrent cases once more in a child process built with the race detector.
// A data race reported inside the relayer's own code while goroutines use one PropStore on different
// deposits is supporting evidence (it breaks the correspondence, it is not a judge rejection).
package main

import (
	"context"
	"fmt"
	"os"
	"os/exec"
	"path/filepath"
	"strings"
	"time"

	"verifharness/vgen"
)

const raceEnv = "VERIF_C17_RACE_CHILD"

type RaceObs struct {
	Ran   bool   `json:"ran"`
	Races int    `json:"races"`
	Note  string `json:"note,omitempty"`
}

// raceChild is what the child process does: run generated concurrent cases, print nothing.
func raceChild(rounds int) {
	r := vgen.NewRng(uint64(rounds) + 17)
	for i := 0; i < rounds; i++ {
		runConc(genConc(r, "conc", r.Range(2, 8), r.Range(3, 10), i%3, false))
	}
}

func tail(s string, n int) string {
	if len(s) > n {
		return s[len(s)-n:]
	}
	return s
}

func runRace(c Case) Obs {
	work, dir := os.Getenv("VERIF_WORK"), os.Getenv("VERIF_DIR")
	if work == "" || dir == "" {
		return Obs{Race: &RaceObs{Note: "no VERIF_WORK/VERIF_DIR: race run skipped"}}
	}
	exe := filepath.Join(work, "implrun_race")
	bctx, bcancel := context.WithTimeout(context.Background(), 15*time.Minute)
	defer bcancel()
	cmd := exec.CommandContext(bctx, "go", "build", "-race", "-modfile", filepath.Join(work, "go.mod"), "-tags", "verif",
		"-overlay", filepath.Join(work, "overlay.json"), "-o", exe, "./cmd/c17")
	cmd.Dir = filepath.Join(dir, "harness")
	cmd.Env = os.Environ()
	if out, err := cmd.CombinedOutput(); err != nil {
		return Obs{Race: &RaceObs{Note: "race build failed: " + tail(string(out), 400)}}
	}
	rctx, rcancel := context.WithTimeout(context.Background(), 3*time.Minute+time.Duration(c.Race)*time.Second)
	defer rcancel()
	run := exec.CommandContext(rctx, exe)
	run.WaitDelay = 5 * time.Second
	run.Env = append(os.Environ(), fmt.Sprintf("%s=%d", raceEnv, c.Race), "GORACE=halt_on_error=0 exitcode=0")
	out, err := run.CombinedOutput()
	o := &RaceObs{Ran: true}
	// only reports that involve the relayer's own code count (every block of the report that names it)
	for _, blk := range strings.Split(string(out), "==================") {
		if strings.Contains(blk, "WARNING: DATA RACE") && strings.Contains(blk, "github.com/ChainSafe/sygma-relayer/") {
			if o.Races == 0 {
				o.Note = tail(blk[:min(len(blk), 1500)], 1500)
			}
			o.Races++
		}
	}
	if err != nil && o.Races == 0 {
		o.Ran = false
		o.Note = "race child failed: " + err.Error() + ": " + tail(string(out), 400)
	}
	return Obs{Race: o}
}

func coqRace(o Obs) string {
	return "RaceRun " + vgen.Bool(o.Race != nil && o.Race.Ran) + " " + vgen.Nat(func() int {
		if o.Race == nil {
			return 0
		}
		return o.Race.Races
	}())
}
