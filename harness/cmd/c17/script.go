// Scripted interleavings of the C17 runner: "executed is final under EVERY interleaving of one
// operation's store calls with another execution's end".
//
// The operations of the other cases are made one after the other (or by goroutines on different
// deposits).  Here two operations on the SAME deposits, made by two goroutines through ONE BTC executor
// over ONE real PropStore, meet inside a call: the in-memory backend PARKS the chosen store call of the
// first operation (the main operation: the k-th read / write it makes - before the call is made, or
// when it has been served and is about to return) and, while it is parked, the second operation (the
// intruder: the end of an older execution - storeProposalsStatus(executed / failed) - or another
// delivery) is started.  If the intruder completes, it happened in between; if it cannot - the
// unchanged code holds propMutex around the whole proposalsForExecution / storeProposalsStatus, so the
// intruder blocks in Mutex.Lock, which is read off the goroutine's wait state - the main operation is
// resumed and the intruder follows it: no alarm, the code serialised the two.  Every wait is bounded.
//
// The result is a linear history (prefix, the two operations in the order in which they COMPLETED,
// suffix) with the store contents after every operation, compared with the atomic model of that order
// and judged by the sequential judge: a key observed executed stays executed, is not re-emitted and
// not re-admitted (Coq: C17_script_executed_absorbing / C17_script_judge_accepts for the two admissible
// atomic orders; C17_split_admission_refuted for an admission that reads first and writes later).
package main

import (
	"fmt"
	"runtime"
	"strings"
	"sync"
	"sync/atomic"
	"time"

	btcexec "github.com/ChainSafe/sygma-relayer/chains/btc/executor"
	"github.com/ChainSafe/sygma-relayer/store"
	"github.com/sygmaprotocol/sygma-core/relayer/proposal"
	"github.com/syndtr/goleveldb/leveldb"

	"github.com/ChainSafe/sygma-relayer/relayer/transfer"

	"verifharness/vgen"
)

type Script struct {
	Prefix   []Op `json:"prefix,omitempty"`
	Main     Op   `json:"main"`
	Intruder Op   `json:"intruder"`
	Suffix   []Op `json:"suffix,omitempty"`
	ParkAt   int  `json:"park_at"`         // the store call of the main operation that is parked (0-based, reads and writes counted together)
	After    bool `json:"after,omitempty"` // parked when the call has been served (before it returns) instead of before it is made
}

// ---- the parking key-value backend -------------------------------------------------------------------

type scriptKV struct {
	mu sync.Mutex
	m  map[string][]byte

	mainID, intrID atomic.Uint64 // goroutine ids of the two racing operations (0 = none)
	calls          int           // store calls of the main operation so far
	armed          bool
	parkAt         int
	after          bool
	parked, resume chan struct{}
	// the intruder's store calls wait while the main operation, resumed, finishes and its result and
	// the store contents are recorded
	hold     atomic.Bool
	released chan struct{}
}

func newScriptKV(init []Entry) *scriptKV {
	kv := &scriptKV{m: map[string][]byte{}, parked: make(chan struct{}), resume: make(chan struct{}), released: make(chan struct{})}
	for _, e := range init {
		kv.m[fmt.Sprintf(store.KEY, e.Src, e.Dst, e.Nonce)] = []byte(e.Status)
	}
	return kv
}

// enter: a store call begins; for the main operation: its number
func (kv *scriptKV) enter(id uint64) int {
	if id == 0 || id != kv.mainID.Load() {
		return -1
	}
	kv.mu.Lock()
	defer kv.mu.Unlock()
	i := kv.calls
	kv.calls++
	return i
}

func (kv *scriptKV) maybePark(idx int, after bool) {
	if idx < 0 {
		return
	}
	kv.mu.Lock()
	park := kv.armed && kv.parkAt == idx && kv.after == after
	if park {
		kv.armed = false
	}
	kv.mu.Unlock()
	if park {
		close(kv.parked)
		select {
		case <-kv.resume:
		case <-time.After(60 * time.Second):
		}
	}
}

func (kv *scriptKV) gate(id uint64) {
	if id != 0 && id == kv.intrID.Load() && kv.hold.Load() {
		select {
		case <-kv.released:
		case <-time.After(10 * time.Second):
		}
	}
}

func (kv *scriptKV) GetByKey(k []byte) ([]byte, error) {
	id := goid()
	idx := kv.enter(id)
	kv.maybePark(idx, false)
	kv.gate(id)
	kv.mu.Lock()
	v, ok := kv.m[string(k)]
	v = append([]byte(nil), v...)
	kv.mu.Unlock()
	kv.maybePark(idx, true)
	if !ok {
		return nil, leveldb.ErrNotFound
	}
	return v, nil
}

func (kv *scriptKV) SetByKey(k, v []byte) error {
	id := goid()
	idx := kv.enter(id)
	kv.maybePark(idx, false)
	kv.gate(id)
	kv.mu.Lock()
	kv.m[string(k)] = append([]byte(nil), v...)
	kv.mu.Unlock()
	kv.maybePark(idx, true)
	return nil
}

func (kv *scriptKV) snapshot() []Entry {
	kv.mu.Lock()
	defer kv.mu.Unlock()
	out := make([]Entry, 0, len(kv.m))
	for k, v := range kv.m {
		out = append(out, Entry{Key: parseKey([]byte(k)), Status: string(v)})
	}
	sortEntries(out)
	return out
}

// waitState is what the runtime says the goroutine is doing ("running", "runnable",
// "sync.Mutex.Lock", "chan receive", ...; "" = no such goroutine).
func waitState(id uint64) string {
	buf := make([]byte, 1<<16)
	for {
		n := runtime.Stack(buf, true)
		if n < len(buf) {
			buf = buf[:n]
			break
		}
		buf = make([]byte, 2*len(buf))
	}
	s := "\n" + string(buf)
	tag := fmt.Sprintf("\ngoroutine %d [", id)
	i := strings.Index(s, tag)
	if i < 0 {
		return ""
	}
	s = s[i+len(tag):]
	if j := strings.IndexAny(s, "],"); j >= 0 {
		return s[:j]
	}
	return s
}

func blockedOnLock(state string) bool {
	return strings.Contains(state, "Mutex") || strings.Contains(state, "semacquire")
}

// ---- running a script --------------------------------------------------------------------------------

var scriptStuckSeen atomic.Int32

func scriptDeadline() time.Duration {
	if scriptStuckSeen.Load() > 0 {
		return 2 * time.Second
	}
	return 30 * time.Second
}

// scriptRun holds the one store / executor of a script and the deliveries made so far (in the order in
// which they completed: the batch numbers of ExecOk / ExecFail).
type scriptRun struct {
	kv        *scriptKV
	ps        *store.PropStore
	e         *btcexec.Executor
	mu        sync.Mutex // completion: result, store contents and delivery list are recorded atomically
	delivered [][]*btcexec.BtcTransferProposal
	ops       []Op
	obs       []OpObs
}

// exec makes one operation on the real code (on the calling goroutine) and records it on completion.
func (s *scriptRun) exec(op Op, onDone func()) {
	var o OpObs
	var sel []*btcexec.BtcTransferProposal
	delivered := false
	switch op.Kind {
	case "retry":
		o.Emitted, o.RetryErr = doRetry(s.ps, op)
	case "deliver":
		props := make([]*proposal.Proposal, len(op.Keys))
		for i, k := range op.Keys {
			props[i] = proposal.NewProposal(k.Src, k.Dst, btcexec.BtcTransferProposalData{
				Amount: 1000, Recipient: "r", DepositNonce: k.Nonce, ResourceId: resID(1)}, "m", transfer.TransferProposalType)
		}
		var err error
		sel, err = s.e.VerifProposalsForExecution(props, "m")
		if err != nil {
			o.Err = true
		} else {
			delivered = true
			for _, p := range sel {
				o.Selected = append(o.Selected, Key{p.Source, p.Destination, p.Data.DepositNonce})
			}
		}
	case "execok", "execfail":
		s.mu.Lock()
		var batch []*btcexec.BtcTransferProposal
		if op.Batch >= 0 && op.Batch < len(s.delivered) {
			batch = s.delivered[op.Batch]
		}
		s.mu.Unlock()
		status := store.ExecutedProp
		if op.Kind == "execfail" {
			status = store.FailedProp
		}
		s.e.VerifStoreProposalsStatus(batch, status)
	default:
		panic("unknown op " + op.Kind)
	}
	s.mu.Lock()
	o.Store = s.kv.snapshot()
	if delivered {
		s.delivered = append(s.delivered, sel)
	}
	s.ops = append(s.ops, op)
	s.obs = append(s.obs, o)
	if onDone != nil {
		onDone()
	}
	s.mu.Unlock()
}

// stuck records an operation that did not return
func (s *scriptRun) stuck(op Op) {
	scriptStuckSeen.Add(1)
	s.mu.Lock()
	s.ops = append(s.ops, op)
	s.obs = append(s.obs, OpObs{Stuck: true, Store: s.kv.snapshot()})
	s.mu.Unlock()
}

// one operation by itself, with a deadline
func (s *scriptRun) sequential(op Op) {
	done := make(chan struct{})
	go func() { s.exec(op, nil); close(done) }()
	select {
	case <-done:
	case <-time.After(scriptDeadline()):
		s.stuck(op)
	}
}

func runScript(c Case) Obs {
	sc := c.Script
	kv := newScriptKV(c.Init)
	ps := store.NewPropStore(kv)
	s := &scriptRun{kv: kv, ps: ps, e: newExecutor(ps)}
	obs := Obs{}
	for _, op := range sc.Prefix {
		s.sequential(op)
	}

	// the main operation, parked at its chosen store call
	kv.mu.Lock()
	kv.armed, kv.parkAt, kv.after, kv.calls = true, sc.ParkAt, sc.After, 0
	kv.mu.Unlock()
	doneA, doneB := make(chan struct{}), make(chan struct{})
	go func() {
		kv.mainID.Store(goid())
		s.exec(sc.Main, func() { kv.mainID.Store(0); close(kv.released) })
		close(doneA)
	}()
	startB := func() {
		idB := make(chan uint64, 1)
		go func() {
			id := goid()
			kv.intrID.Store(id)
			idB <- id
			s.exec(sc.Intruder, func() { kv.intrID.Store(0) })
			close(doneB)
		}()
		id := <-idB
		// until the intruder has completed (it happened in between) or is blocked in a lock (the main
		// operation holds it: the code serialises the two) - or, whatever it is doing, 2 s have passed
		begin, blocked := time.Now(), 0
		for {
			select {
			case <-doneB:
				obs.Between = true
				return
			default:
			}
			if blockedOnLock(waitState(id)) {
				blocked++
				if blocked >= 3 {
					return
				}
			} else {
				blocked = 0
			}
			if time.Since(begin) > 2*time.Second {
				return
			}
			time.Sleep(200 * time.Microsecond)
		}
	}
	aDone, bStarted := false, false
	select {
	case <-kv.parked:
		obs.Parked = true
		bStarted = true
		startB()
		kv.hold.Store(true)
		close(kv.resume)
	case <-doneA:
		aDone = true
	case <-time.After(scriptDeadline()):
	}
	if !aDone {
		select {
		case <-doneA:
			aDone = true
		case <-time.After(scriptDeadline()):
			s.stuck(sc.Main)
			kv.mu.Lock()
			kv.armed = false
			kv.mu.Unlock()
			kv.hold.Store(false)
		}
	}
	if !bStarted {
		// the main operation made fewer store calls: the intruder simply follows it
		go func() {
			s.exec(sc.Intruder, nil)
			close(doneB)
		}()
	}
	select {
	case <-doneB:
	case <-time.After(scriptDeadline()):
		s.stuck(sc.Intruder)
	}
	kv.hold.Store(false)

	for _, op := range sc.Suffix {
		s.sequential(op)
	}
	s.mu.Lock()
	obs.Ops = append([]OpObs(nil), s.obs...)
	obs.Linear = append([]Op(nil), s.ops...)
	s.mu.Unlock()
	// a stuck operation's goroutine may still complete later and append to the history: cut it to the
	// number of operations of the script
	total := len(sc.Prefix) + 2 + len(sc.Suffix)
	if len(obs.Ops) > total {
		obs.Ops, obs.Linear = obs.Ops[:total], obs.Linear[:total]
	}
	return obs
}

// ---- generation ----------------------------------------------------------------------------------------

func scriptKeys(n int, base uint64) []Key {
	var ks []Key
	for i := 0; i < n; i++ {
		ks = append(ks, Key{1, 2, base + uint64(i)})
	}
	return ks
}

func retryFor(r *vgen.Rng, ks []Key) Op {
	var ds []Dep
	for _, k := range ks {
		ds = append(ds, Dep{Dst: k.Dst, Nonce: k.Nonce, Res: 1})
	}
	return Op{Kind: "retry", Path: vgen.Pick(r, paths), Src: 1, Res: 1, Dest: 2, Deps: ds}
}

func genScripts(r *vgen.Rng, mult int) []Case {
	var out []Case
	add := func(class string, sc Script, init []Entry) {
		s := sc
		out = append(out, Case{Class: class, Init: init, Script: &s})
	}
	ok, fail := func(b int) Op { return Op{Kind: "execok", Batch: b} }, func(b int) Op { return Op{Kind: "execfail", Batch: b} }
	deliver := func(ks []Key) Op { return Op{Kind: "deliver", Keys: ks} }
	positions := func(ncalls int, f func(k int, after bool)) {
		for k := 0; k < ncalls; k++ {
			f(k, false)
			f(k, true)
		}
	}
	for nk := 1; nk <= 3; nk++ {
		ks := scriptKeys(nk, uint64(r.Range(1, 5)))
		ret := retryFor(r, ks)
		// A. the admission of a redelivery (proposalsForExecution: a read and a write per proposal) meets
		//    the end of the older execution of the same proposals
		positions(2*nk, func(k int, after bool) {
			for _, intr := range []Op{ok(0), fail(0)} {
				if nk == 3 && (k+len(out))%2 == 0 {
					continue
				}
				suffix := []Op{fail(1), ret, deliver(ks)}
				if r.Chance(1, 3) {
					suffix = []Op{ok(1), ret, deliver(ks), fail(2)}
				}
				add("script-admission", Script{Prefix: []Op{deliver(ks), ret}, Main: deliver(ks), Intruder: intr, Suffix: suffix, ParkAt: k, After: after}, nil)
			}
		})
		if nk == 3 {
			continue
		}
		// B. the end of the newer execution meets the end of the older one (storeProposalsStatus(failed):
		//    a guard read and a write per proposal; (executed): a write per proposal)
		positions(2*nk, func(k int, after bool) {
			add("script-exec-end", Script{Prefix: []Op{deliver(ks), ret, deliver(ks)}, Main: fail(1), Intruder: ok(0), Suffix: []Op{ret, deliver(ks)}, ParkAt: k, After: after}, nil)
			add("script-exec-end", Script{Prefix: []Op{deliver(ks), ret, deliver(ks)}, Main: fail(0), Intruder: ok(1), Suffix: []Op{ret, deliver(ks)}, ParkAt: k, After: after}, nil)
		})
		positions(nk, func(k int, after bool) {
			add("script-exec-end", Script{Prefix: []Op{deliver(ks), ret, deliver(ks)}, Main: ok(0), Intruder: fail(1), Suffix: []Op{ret, deliver(ks), fail(2)}, ParkAt: k, After: after}, nil)
		})
		// C. the end of an execution meets the redelivery
		positions(nk, func(k int, after bool) {
			add("script-end-admission", Script{Prefix: []Op{deliver(ks), ret}, Main: ok(0), Intruder: deliver(ks), Suffix: []Op{fail(1), ret, deliver(ks)}, ParkAt: k, After: after}, nil)
		})
		positions(2*nk, func(k int, after bool) {
			if after {
				return
			}
			add("script-end-admission", Script{Prefix: []Op{deliver(ks), ret}, Main: fail(0), Intruder: deliver(ks), Suffix: []Op{ok(1), ret, deliver(ks)}, ParkAt: k, After: true}, nil)
		})
		// D. two deliveries of the same proposals
		positions(2*nk, func(k int, after bool) {
			if k%2 == 1 && !after {
				return
			}
			init := []Entry{}
			if r.Bool() {
				init = append(init, Entry{Key: ks[0], Status: "failed"})
			}
			add("script-two-admissions", Script{Main: deliver(ks), Intruder: deliver(ks[:1+r.Intn(nk)]), Suffix: []Op{ok(0), fail(1), ret}, ParkAt: k, After: after}, init)
		})
	}
	// E. random: a history on three proposals, then two operations that take the mutex, parked anywhere
	for i := 0; i < 36*mult; i++ {
		pool := scriptKeys(3, 1)
		sub := func() []Key {
			var ks []Key
			for _, k := range pool {
				if r.Bool() {
					ks = append(ks, k)
				}
			}
			if len(ks) == 0 {
				ks = []Key{vgen.Pick(r, pool)}
			}
			r.Shuffle(len(ks), func(a, b int) { ks[a], ks[b] = ks[b], ks[a] })
			return ks
		}
		var sc Script
		var init []Entry
		for _, k := range pool {
			if st := vgen.Pick(r, []string{"missing", "missing", "pending", "failed", "executed"}); st != "missing" {
				init = append(init, Entry{Key: k, Status: st})
			}
		}
		ndeliv := 0
		ops := func(n int, dst *[]Op) {
			for j := 0; j < n; j++ {
				switch x := r.Intn(10); {
				case x < 3:
					*dst = append(*dst, retryFor(r, sub()))
				case x < 6 || ndeliv == 0:
					*dst = append(*dst, deliver(sub()))
					ndeliv++
				case x < 8:
					*dst = append(*dst, ok(r.Intn(ndeliv)))
				default:
					*dst = append(*dst, fail(r.Intn(ndeliv)))
				}
			}
		}
		ops(r.Range(1, 6), &sc.Prefix)
		racer := func() Op {
			switch x := r.Intn(4); {
			case x == 0 || ndeliv == 0:
				return deliver(sub())
			case x == 1:
				return ok(r.Intn(ndeliv))
			default:
				return fail(r.Intn(ndeliv))
			}
		}
		sc.Main, sc.Intruder = racer(), racer()
		sc.ParkAt, sc.After = r.Intn(5), r.Bool()
		ndeliv += 2 // the suffix may name the deliveries of the two racing operations (or none that exists)
		ops(r.Range(0, 4), &sc.Suffix)
		add("script-random", sc, init)
	}
	return out
}

func coqScript(c Case, o Obs) string {
	obs := make([]string, len(o.Linear))
	for i := range o.Linear {
		obs[i] = coqObs(o.Linear[i], o.Ops[i])
	}
	return "Hist " + vgen.ListOf(c.Init, coqEntry) + " []\n    " + vgen.ListOf(o.Linear, coqOp) + "\n    " + vgen.List(obs)
}
