// Histories on ONE long-lived BTC executor in which deliveries are WHOLE Executor.Execute calls that
// fail before the broadcast - so the executor's bookkeeping is left where the real early-failure paths
// leave it, not where storeProposalsStatus would put it:
//
//	nores       the proposals' resource is not configured on this executor
//	badaddr     the recipient is not an address of the network (transaction outputs)
//	upload      the metadata upload fails (transaction outputs)
//	fee         the mempool API fails at the first fee lookup
//	utxo        the mempool API fails at the UTXO lookup
//	badutxo     the UTXO list holds an id that is not a transaction hash
//	funds       the bridge's UTXOs do not cover amount + fee
//	fee2        the mempool API fails at the second fee lookup
//	keyshare    the relayer has no FROST key share (signing.NewSigning; the watch goroutine is running
//	            by then and is cancelled)
//	badtweak    the resource's tweak does not decode (same place)
//	tsstimeout  the signing session fails (real tss.Coordinator over an in-process transport whose
//	            other parties never answer: TssTimeout), the execution then lingers until the
//	            executor's signing timeout
//	sigtimeout  the executor's signing timeout passes first and cancels the session
//
// Every one of them ends with Execute returning an error, nothing broadcast, the proposals recorded
// pending.  The history goes on: retries release them (pending -> failed, re-emitted) and they are
// redelivered to THE SAME executor object - through the bookkeeping hook (exact selection) or through
// another whole Execute call (selection = the proposals handed to the transaction assembly, observed at
// the metadata upload; for the two kinds that fail before it: the proposals marked pending).
// The model sees a whole Execute call as `Deliver ks` (no completion follows); the case says which
// operations were such calls (HistX ... lives ...) and the redelivery judge (Model/C17.v redeliver_ok)
// then knows that nothing of them is in progress any more.
package main

import (
	"encoding/hex"
	"errors"
	"fmt"
	"os"
	"path/filepath"
	"sync"
	"time"

	btcconfig "github.com/ChainSafe/sygma-relayer/chains/btc/config"
	btcexec "github.com/ChainSafe/sygma-relayer/chains/btc/executor"
	"github.com/ChainSafe/sygma-relayer/chains/btc/mempool"
	"github.com/ChainSafe/sygma-relayer/comm/elector"
	"github.com/ChainSafe/sygma-relayer/config/relayer"
	"github.com/ChainSafe/sygma-relayer/keyshare"
	"github.com/ChainSafe/sygma-relayer/relayer/transfer"
	"github.com/ChainSafe/sygma-relayer/store"
	"github.com/ChainSafe/sygma-relayer/tss"
	"github.com/btcsuite/btcd/btcec/v2/schnorr"
	"github.com/btcsuite/btcd/btcutil"
	"github.com/btcsuite/btcd/chaincfg"
	"github.com/btcsuite/btcd/chaincfg/chainhash"
	"github.com/btcsuite/btcd/txscript"
	"github.com/libp2p/go-libp2p/core/peer"
	"github.com/sygmaprotocol/sygma-core/relayer/proposal"

	"verifharness/tssfakes"
	"verifharness/vgen"
)

var liveKinds = []string{"nores", "badaddr", "upload", "fee", "utxo", "badutxo", "funds", "fee2", "keyshare", "badtweak", "tsstimeout", "sigtimeout"}

// the kinds whose Execute call gets as far as the metadata upload (where the proposals handed to the
// transaction assembly are seen)
func reachesUpload(kind string) bool { return kind != "nores" && kind != "badaddr" }

func repoDir() string {
	if d := os.Getenv("VERIF_REPO"); d != "" {
		return d
	}
	return "/repo"
}

// fixture: the repository's FROST fixture share of relayer 0 and what the bridge's Taproot resource
// looks like for it
type liveFixture struct {
	peers    []peer.ID
	key      keyshare.FrostKeyshare
	addr     btcutil.Address
	resource btcconfig.Resource
}

var (
	fixOnce sync.Once
	fix     liveFixture
)

func fixture() *liveFixture {
	fixOnce.Do(func() {
		peers, err := tssfakes.RepoPeerIDs(repoDir(), 3)
		if err != nil {
			panic("c17: fixture identities: " + err.Error())
		}
		key, err := keyshare.NewFrostKeyshareStore(filepath.Join(repoDir(), "tss", "test", "keyshares", "0-frost.keyshare")).GetKeyshare()
		if err != nil {
			panic("c17: fixture key share: " + err.Error())
		}
		internal, err := schnorr.ParsePubKey(key.Key.PublicKey)
		if err != nil {
			panic(err)
		}
		tweak := chainhash.TaggedHash(chainhash.TagTapTweak, schnorr.SerializePubKey(internal))
		params := chaincfg.TestNet3Params
		addr, err := btcutil.NewAddressTaproot(schnorr.SerializePubKey(txscript.ComputeTaprootKeyNoScript(internal)), &params)
		if err != nil {
			panic(err)
		}
		script, _ := txscript.PayToAddrScript(addr)
		fix = liveFixture{peers: peers, key: key, addr: addr,
			resource: btcconfig.Resource{Address: addr, ResourceID: resID(1), Tweak: hex.EncodeToString(tweak[:]), Script: script}}
	})
	return &fix
}

// liveEnv: what the executor's collaborators do during the Execute call in progress, and what they saw
type liveEnv struct {
	mu       sync.Mutex
	kind     string
	fees     int
	reached  bool        // the metadata upload was reached
	uploaded [][2]uint64 // (source domain, deposit nonce) of the proposals handed to the transaction assembly
	coord    *tss.Coordinator
}

func (v *liveEnv) begin(kind string) {
	v.mu.Lock()
	v.kind, v.fees, v.reached, v.uploaded = kind, 0, false, nil
	v.mu.Unlock()
}

type liveMempool struct{ v *liveEnv }

func (m liveMempool) RecommendedFee() (*mempool.Fee, error) {
	m.v.mu.Lock()
	defer m.v.mu.Unlock()
	m.v.fees++
	if m.v.kind == "fee" || (m.v.kind == "fee2" && m.v.fees >= 2) {
		return nil, errors.New("mempool API: fee lookup failed")
	}
	return &mempool.Fee{EconomyFee: 1}, nil
}

func (m liveMempool) Utxos(string) ([]mempool.Utxo, error) {
	m.v.mu.Lock()
	defer m.v.mu.Unlock()
	switch m.v.kind {
	case "utxo":
		return nil, errors.New("mempool API: utxo lookup failed")
	case "badutxo":
		return []mempool.Utxo{{TxID: "not-a-hash", Vout: 0, Value: 1000000}}, nil
	case "funds":
		return []mempool.Utxo{{TxID: fmt.Sprintf("%064x", 7), Vout: 0, Value: 1}}, nil
	}
	return []mempool.Utxo{{TxID: fmt.Sprintf("%064x", 7), Vout: 0, Value: 1000000}}, nil
}

type liveUploader struct{ v *liveEnv }

func (u liveUploader) Upload(data []map[string]interface{}) (string, error) {
	u.v.mu.Lock()
	defer u.v.mu.Unlock()
	u.v.reached = true
	for _, d := range data {
		src, _ := d["sourceDomain"].(uint8)
		nonce, _ := d["depositNonce"].(uint64)
		u.v.uploaded = append(u.v.uploaded, [2]uint64{uint64(src), nonce})
	}
	if u.v.kind == "upload" {
		return "", errors.New("ipfs: upload failed")
	}
	return "QmC17", nil
}

type liveFetcher struct{ v *liveEnv }

func (f liveFetcher) GetKeyshare() (keyshare.FrostKeyshare, error) {
	f.v.mu.Lock()
	defer f.v.mu.Unlock()
	if f.v.kind == "keyshare" {
		return keyshare.FrostKeyshare{}, errors.New("no frost key share")
	}
	return fixture().key, nil
}
func (liveFetcher) LockKeyshare()   {}
func (liveFetcher) UnlockKeyshare() {}

// newLiveExecutor: a complete BTC executor of fixture relayer 0 (its two peers never answer).
func newLiveExecutor(ps btcexec.PropStorer, v *liveEnv) *btcexec.Executor {
	fx := fixture()
	host := tssfakes.NewFakeHost(fx.peers[0], fx.peers)
	cm := tssfakes.NewRecComm(fx.peers[0], tssfakes.NewLedger())
	tssfakes.NewHub().Join(cm)
	v.coord = tss.NewCoordinator(host, cm, elector.NewCoordinatorElectorFactory(host, relayer.BullyConfig{}))
	v.coord.InitiatePeriod, v.coord.CoordinatorTimeout, v.coord.TssTimeout = 20*time.Millisecond, 20*time.Second, 20*time.Second
	bad := fx.resource
	bad.ResourceID, bad.Tweak = resID(2), "not-hex"
	resources := map[[32]byte]btcconfig.Resource{resID(1): fx.resource, resID(2): bad}
	return btcexec.NewExecutor(ps, host, cm, v.coord, liveFetcher{v}, nil, liveMempool{v}, resources,
		chaincfg.TestNet3Params, &sync.RWMutex{}, liveUploader{v})
}

var liveSeq int

// doExecute makes one whole Execute call that fails at op.Fail; selection as described above.
func (d *opDriver) doExecute(op Op, kv *faultKV) OpObs {
	var o OpObs
	v := d.env
	v.begin(op.Fail)
	rid, recipient := resID(1), fixture().addr.EncodeAddress()
	switch op.Fail {
	case "nores":
		rid = resID(9)
	case "badtweak":
		rid = resID(2)
	case "badaddr":
		recipient = "not-an-address"
	}
	liveSeq++
	props := make([]*proposal.Proposal, len(op.Keys))
	for i, k := range op.Keys {
		props[i] = proposal.NewProposal(k.Src, k.Dst, btcexec.BtcTransferProposalData{
			Amount: 1000, Recipient: recipient, DepositNonce: k.Nonce, ResourceId: rid}, fmt.Sprintf("live-%d", liveSeq), transfer.TransferProposalType)
	}
	old := btcexec.VerifSetSigningTimeout(20 * time.Second)
	switch op.Fail {
	case "tsstimeout":
		v.coord.TssTimeout = 30 * time.Millisecond
		btcexec.VerifSetSigningTimeout(120 * time.Millisecond)
	case "sigtimeout":
		v.coord.TssTimeout = 20 * time.Second
		btcexec.VerifSetSigningTimeout(60 * time.Millisecond)
	}
	kv.mu.Lock()
	kv.writes = nil
	kv.mu.Unlock()
	if len(props) == 0 {
		return o // Execute indexes proposals[0]: the relayer never delivers an empty batch
	}
	o.Stuck = d.call(func() { _ = d.e.Execute(props) })
	btcexec.VerifSetSigningTimeout(old)
	if o.Stuck {
		return o
	}
	kv.mu.Lock()
	failed := len(kv.failed) > 0
	var marked []Key
	for _, w := range kv.writes {
		if w.val == string(store.PendingProp) {
			marked = append(marked, w.key)
		}
	}
	kv.mu.Unlock()
	if failed {
		o.Err = true // a status-store call failed: proposalsForExecution gave up
		return o
	}
	sel := marked
	v.mu.Lock()
	if v.reached || (reachesUpload(op.Fail) && len(marked) > 0) {
		// the proposals handed to the transaction assembly, as keys of the delivery
		sel = nil
		used := make([]bool, len(op.Keys))
		for _, u := range v.uploaded {
			k := Key{Src: uint8(u[0]), Nonce: u[1]}
			for i, c := range op.Keys {
				if !used[i] && uint64(c.Src) == u[0] && c.Nonce == u[1] {
					used[i], k = true, c
					break
				}
			}
			sel = append(sel, k)
		}
	}
	v.mu.Unlock()
	batch := make([]*btcexec.BtcTransferProposal, len(sel))
	for i, k := range sel {
		batch[i] = &btcexec.BtcTransferProposal{Source: k.Src, Destination: k.Dst,
			Data: btcexec.BtcTransferProposalData{Amount: 1000, Recipient: recipient, DepositNonce: k.Nonce, ResourceId: rid}}
	}
	d.delivered = append(d.delivered, batch)
	o.Selected = sel
	return o
}

// ---- generation ----------------------------------------------------------------------------------

// liveKeys: 1..n proposals with pairwise different (source, nonce)
func liveKeys(r *vgen.Rng, n int) []Key {
	var ks []Key
	seen := map[[2]uint64]bool{}
	for len(ks) < n {
		k := Key{Src: uint8(r.Range(1, 2)), Dst: 2, Nonce: uint64(r.Range(1, 9))}
		if seen[[2]uint64{uint64(k.Src), k.Nonce}] {
			continue
		}
		seen[[2]uint64{uint64(k.Src), k.Nonce}] = true
		ks = append(ks, k)
	}
	return ks
}

// releaseOps: retry requests (one per source chain) for blocks holding the deposits of ks (and a
// stranger), resource 1, destination 2
func releaseOps(r *vgen.Rng, ks []Key, path string) []Op {
	var ops []Op
	for _, src := range []uint8{1, 2} {
		var ds []Dep
		for _, k := range ks {
			if k.Src == src {
				ds = append(ds, Dep{Dst: k.Dst, Nonce: k.Nonce, Res: 1})
			}
		}
		if len(ds) == 0 {
			continue
		}
		if r.Bool() {
			ds = append(ds, Dep{Dst: 3, Nonce: 77, Res: 1})
		}
		ops = append(ops, Op{Kind: "retry", Path: path, Src: src, Res: 1, Dest: 2, Deps: ds})
	}
	return ops
}

func genLive(r *vgen.Rng, mult int) []Case {
	var out []Case
	// every early-failure kind x every way of redelivering: delivery that fails early, release by a
	// retry, redelivery (hook / whole Execute failing at the upload / whole Execute failing as before),
	// once more released and redelivered
	forms := []string{"hook", "upload", "same"}
	i := 0
	for rep := 0; rep < mult; rep++ {
		for _, kind := range liveKinds {
			for _, form := range forms {
				if (kind == "tsstimeout" || kind == "sigtimeout") && form == "same" && rep == 0 {
					continue // (each of them takes a tenth of a second)
				}
				ks := liveKeys(r, r.Range(1, 3))
				path := paths[i%len(paths)]
				i++
				redeliver := func() Op {
					switch form {
					case "hook":
						return Op{Kind: "deliver", Keys: ks}
					case "upload":
						return Op{Kind: "execute", Keys: ks, Fail: "upload"}
					}
					return Op{Kind: "execute", Keys: ks, Fail: kind}
				}
				var init []Entry
				if r.Chance(1, 3) { // one of them was tried (and failed at the broadcast) before
					init = append(init, Entry{Key: ks[0], Status: "failed"})
				}
				ops := []Op{{Kind: "execute", Keys: ks, Fail: kind}}
				ops = append(ops, releaseOps(r, ks, path)...)
				ops = append(ops, redeliver())
				ops = append(ops, releaseOps(r, ks, paths[i%len(paths)])...)
				ops = append(ops, redeliver())
				out = append(out, Case{Class: "live-redelivery", Init: init, Faults: []bool{}, Ops: ops})
			}
		}
	}
	// a whole Execute call whose bookkeeping is cut short by a status-store error at each of its store calls
	// in turn (some proposals already marked pending, Execute returns the error), release, redelivery
	for rep := 0; rep < mult; rep++ {
		for j := 0; j < 4; j++ {
			for _, form := range []string{"hook", "upload"} {
				ks := liveKeys(r, 2)
				kind := vgen.Pick(r, liveKinds[:10])
				again := Op{Kind: "deliver", Keys: ks}
				if form == "upload" {
					again = Op{Kind: "execute", Keys: ks, Fail: "upload"}
				}
				ops := []Op{{Kind: "execute", Keys: ks, Fail: kind}}
				ops = append(ops, releaseOps(r, ks, paths[(i+j)%len(paths)])...)
				ops = append(ops, again)
				i++
				out = append(out, Case{Class: "live-fault", Init: nil, Faults: faultsAt(4, j), Ops: ops})
			}
		}
	}
	// longer histories on one executor: whole Execute calls of every cheap kind, hook-level deliveries
	// with late or missing completions, retries, store faults
	cheap := liveKinds[:10]
	for n := 0; n < 40*mult; n++ {
		c := Case{Class: "history-live"}
		pool := liveKeys(r, r.Range(2, 5))
		for _, k := range pool {
			if r.Chance(1, 4) {
				c.Init = append(c.Init, Entry{Key: k, Status: vgen.Pick(r, statuses)})
			}
		}
		ndeliv := 0
		nops := r.Range(3, 14)
		for j := 0; j < nops; j++ {
			sub := pickKeys(r, pool)
			switch x := r.Intn(10); {
			case x < 3:
				c.Ops = append(c.Ops, Op{Kind: "execute", Keys: sub, Fail: vgen.Pick(r, cheap)})
				ndeliv++
			case x < 5:
				c.Ops = append(c.Ops, Op{Kind: "deliver", Keys: sub})
				ndeliv++
			case x < 8:
				c.Ops = append(c.Ops, releaseOps(r, sub, vgen.Pick(r, paths))...)
			default:
				kind := "execok"
				if r.Chance(2, 3) {
					kind = "execfail"
				}
				c.Ops = append(c.Ops, Op{Kind: kind, Batch: r.Intn(ndeliv + 1)})
			}
		}
		c.Faults = make([]bool, 6*len(c.Ops))
		if r.Chance(1, 3) {
			for j := range c.Faults {
				c.Faults[j] = r.Chance(1, 14)
			}
		}
		out = append(out, c)
	}
	return out
}

func pickKeys(r *vgen.Rng, pool []Key) []Key {
	var ks []Key
	for _, k := range pool {
		if r.Bool() {
			ks = append(ks, k)
		}
	}
	if len(ks) == 0 {
		ks = append(ks, vgen.Pick(r, pool))
	}
	return ks
}
