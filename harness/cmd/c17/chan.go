// How the message channel of a retry handler is read.  In the relayer the channel is UNBUFFERED and has
// one reader (the relayer's routing loop), which is busy routing the previous batch most of the time:
// what a retry re-emits must not depend on whether the reader happens to sit in its receive at the
// instant the handler gets to its send, nor on the channel's capacity.  The cases of this file make the
// same retry requests as the others, through the same real entry points, on
//
//	"unbuf": an unbuffered channel with a reader that receives all the time,
//	"late":  an unbuffered channel whose reader comes to its receive only when the handler is PARKED
//	         (at its send, in a select, asleep, ...: the runtime's wait state of its goroutine) or has
//	         returned, and then Delay ms later - before every single receive, so the reader is also busy
//	         between two batches,
//	"cap1":  the same late reader on a channel of capacity 1 (room for one batch, not for the second),
//	"full1": the same, the one slot still holding an earlier batch (of another request) that the reader
//	         has not taken yet when the handler is called,
//
// and judge what arrived with the same judge.  Nothing is asserted on timing: every wait is for an
// event (handler parked / returned, a batch arrived, no goroutine of the relayer's code left over) with
// a generous deadline; the delays only give a handler that does NOT wait for the reader the time to
// give up.
package main

import (
	"runtime"
	"strings"
	"sync/atomic"
	"time"

	"github.com/sygmaprotocol/sygma-core/relayer/message"
)

var chanHungSeen atomic.Int32

func chanDeadline() time.Duration {
	if chanHungSeen.Load() > 0 {
		return 2 * time.Second
	}
	return 30 * time.Second
}

func allStacks() string {
	buf := make([]byte, 1<<16)
	for {
		n := runtime.Stack(buf, true)
		if n < len(buf) {
			return string(buf[:n])
		}
		buf = make([]byte, 2*len(buf))
	}
}

// goroutineIDs: the goroutines that exist now.
func goroutineIDs() map[string]bool {
	ids := map[string]bool{}
	for _, blk := range strings.Split(allStacks(), "\n\n") {
		if id, ok := stackID(blk); ok {
			ids[id] = true
		}
	}
	return ids
}

func stackID(blk string) (string, bool) {
	blk = strings.TrimLeft(blk, "\n")
	if !strings.HasPrefix(blk, "goroutine ") {
		return "", false
	}
	rest := blk[len("goroutine "):]
	i := strings.IndexByte(rest, ' ')
	if i < 0 {
		return "", false
	}
	return rest[:i], true
}

const relayerPkg = "github.com/ChainSafe/sygma-relayer/"

// leftover: goroutines STARTED BY the relayer's code that did not exist before the retry request was
// made (a handler that hands its batches to goroutines of its own: they may still be on their way to the
// channel when the handler has returned).
func leftover(before map[string]bool) int {
	n := 0
	for _, blk := range strings.Split(allStacks(), "\n\n") {
		id, ok := stackID(blk)
		if !ok || before[id] {
			continue
		}
		if strings.Contains(blk, "\ncreated by "+relayerPkg) {
			n++
		}
	}
	return n
}

// parked: the goroutine waits for somebody else (a channel partner, a timer, a lock); a goroutine that
// runs, could run, or is inside a system call (log output) is still on its way.
func parked(state string) bool {
	switch {
	case state == "", state == "running", state == "runnable", state == "syscall", state == "IO wait",
		strings.HasPrefix(state, "GC "), strings.HasPrefix(state, "preempted"), strings.HasPrefix(state, "copystack"):
		return false
	}
	return true
}

// awaitParked returns when the handler's goroutine is parked (on two consecutive looks) or has returned.
func awaitParked(gid *atomic.Uint64, done chan struct{}, deadline time.Time) {
	nap := 20 * time.Microsecond
	seen := 0
	for time.Now().Before(deadline) {
		select {
		case <-done:
			return
		default:
		}
		if id := gid.Load(); id != 0 && parked(waitState(id)) {
			seen++
			if seen >= 2 {
				return
			}
		} else {
			seen = 0
		}
		runtime.Gosched()
		time.Sleep(nap)
		if nap < time.Millisecond {
			nap *= 2
		}
	}
}

// emitVia makes the retry request on a goroutine of its own and plays the relayer's reader on this one.
// hung = the entry point had not returned when the deadline passed although every batch it offered was
// taken.
func emitVia(op Op, call func(ch chan []*message.Message) error) (batches [][]*message.Message, err error, hung bool) {
	capacity := 0
	if op.Chan == "cap1" || op.Chan == "full1" {
		capacity = 1
	}
	late := op.Chan != "unbuf"
	ch := make(chan []*message.Message, capacity)
	var earlier *message.Message
	if op.Chan == "full1" {
		earlier = &message.Message{ID: "earlier-batch"}
		ch <- []*message.Message{earlier}
	}
	take := func(b []*message.Message) {
		if earlier != nil && len(b) == 1 && b[0] == earlier {
			return // the other request's batch: routed elsewhere
		}
		batches = append(batches, b)
	}
	before := goroutineIDs()
	done := make(chan struct{})
	var gid atomic.Uint64
	var callErr error
	go func() {
		gid.Store(goid())
		callErr = call(ch)
		close(done)
	}()
	deadline := time.Now().Add(chanDeadline())
	timeout := time.NewTimer(time.Until(deadline))
	defer timeout.Stop()
	returned := false
	for !returned && !hung {
		if late {
			// the reader is busy elsewhere
			awaitParked(&gid, done, deadline)
			runtime.Gosched()
			if op.Delay > 0 {
				time.Sleep(time.Duration(op.Delay) * time.Millisecond)
			}
		}
		select {
		case b := <-ch:
			take(b)
		case <-done:
			returned = true
		case <-timeout.C:
			hung = true
		}
	}
	if hung {
		chanHungSeen.Add(1)
		return batches, nil, true
	}
	for _, b := range collectRest(ch, before) {
		take(b)
	}
	return batches, callErr, false
}

// collectRest: the handler has returned - what is still in the channel, and what goroutines that the
// handler left behind are still bringing (received as they come; given up after 5 s).
func collectRest(ch chan []*message.Message, before map[string]bool) (batches [][]*message.Message) {
	end := time.Now().Add(5 * time.Second)
	for {
		select {
		case b := <-ch:
			batches = append(batches, b)
			continue
		default:
		}
		if leftover(before) == 0 || !time.Now().Before(end) {
			break
		}
		select {
		case b := <-ch:
			batches = append(batches, b)
		case <-time.After(time.Millisecond):
		}
	}
	for {
		select {
		case b := <-ch:
			batches = append(batches, b)
			continue
		default:
		}
		return batches
	}
}
