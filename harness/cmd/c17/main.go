// C17 correspondence runner: drives the REAL retry filter (retry.FilterDeposits, directly and
// through the EVM / BTC / Substrate RetryMessageHandler.HandleMessage and the EVM
// RetryV1EventHandler.HandleEvents) and the REAL status bookkeeping of the BTC executor
// (proposalsForExecution / storeProposalsStatus, through add-only hooks) over the REAL
// store.PropStore on an in-memory key-value store that fails when the case says so.
package main

import (
	"context"
	"errors"
	"fmt"
	"math/big"
	"os"
	"sort"
	"strconv"
	"sync"
	"time"

	btcexec "github.com/ChainSafe/sygma-relayer/chains/btc/executor"
	"github.com/ChainSafe/sygma-relayer/chains/evm/calls/events"
	evmexec "github.com/ChainSafe/sygma-relayer/chains/evm/executor"
	"github.com/ChainSafe/sygma-relayer/chains/evm/listener/eventHandlers"
	subexec "github.com/ChainSafe/sygma-relayer/chains/substrate/executor"
	"github.com/ChainSafe/sygma-relayer/relayer/retry"
	"github.com/ChainSafe/sygma-relayer/relayer/transfer"
	"github.com/ChainSafe/sygma-relayer/store"
	"github.com/btcsuite/btcd/btcjson"
	"github.com/btcsuite/btcd/chaincfg"
	"github.com/btcsuite/btcd/chaincfg/chainhash"
	"github.com/centrifuge/go-substrate-rpc-client/v4/types"
	"github.com/ethereum/go-ethereum/common"
	ethTypes "github.com/ethereum/go-ethereum/core/types"
	"github.com/rs/zerolog"
	"github.com/sygmaprotocol/sygma-core/relayer/message"
	"github.com/sygmaprotocol/sygma-core/relayer/proposal"
	"github.com/syndtr/goleveldb/leveldb"

	"verifharness/vgen"
)

type Key struct {
	Src   uint8  `json:"src"`
	Dst   uint8  `json:"dst"`
	Nonce uint64 `json:"nonce"`
}

type Dep struct {
	Dst   uint8  `json:"dst"`
	Nonce uint64 `json:"nonce"`
	Res   uint8  `json:"res"`
}

type Entry struct {
	Key
	Status string `json:"status"` // pending | failed | executed (absent = missing)
}

type Op struct {
	Kind string `json:"kind"` // retry | deliver | execok | execfail
	// retry: a retry request (resource Res, destination Dest) for a block of source chain Src holding Deps
	Path string `json:"path,omitempty"` // filter | evm | btc | sub | v1
	Src  uint8  `json:"src,omitempty"`
	Res  uint8  `json:"res,omitempty"`
	Dest uint8  `json:"dest,omitempty"`
	Deps []Dep  `json:"deps,omitempty"`
	// retry through a handler: how the message channel is read (chan.go).  "" = a channel with room for
	// everything, emptied when the handler has returned; "unbuf" = unbuffered, a reader receiving all the
	// time; "late" = unbuffered, the reader comes to its receive only when the handler is parked at the
	// channel (or has returned) and Delay ms have passed - before EVERY receive; "cap1" = the same reader
	// on a channel of capacity 1; "full1" = the same, the slot still holding an earlier batch
	Chan  string `json:"chan,omitempty"`
	Delay int    `json:"delay_ms,omitempty"`
	// deliver: proposals handed to the BTC executor
	Keys []Key `json:"keys,omitempty"`
	// execok / execfail: the broadcast of delivery number Batch succeeded / failed
	Batch int `json:"batch,omitempty"`
	// execute (live.go): Keys are handed to a WHOLE Executor.Execute call, which fails at Fail (before
	// the broadcast) and returns
	Fail string `json:"fail,omitempty"`
}

type Case struct {
	Class  string  `json:"class"`
	Init   []Entry `json:"init"`
	Faults []bool  `json:"faults"` // one entry per store call, in call order; true = that call fails
	Ops    []Op    `json:"ops"`
	// concurrent cases (conc.go): goroutines sharing ONE PropStore, see type Thread
	Conc *Conc `json:"conc,omitempty"`
	// race child (race.go, thorough tier): this many generated concurrent cases under the race detector
	Race int `json:"race,omitempty"`
	// scripted interleaving (script.go): two operations on the same deposits meet inside a call
	Script *Script `json:"script,omitempty"`
	// a history of whole Execute calls on one long-lived EVM / Substrate executor (xlive.go)
	X *XCase `json:"x,omitempty"`
}

type OpObs struct {
	Stuck    bool    `json:"stuck,omitempty"`
	Emitted  []Dep   `json:"emitted,omitempty"`
	RetryErr string  `json:"retry_err,omitempty"` // the retry entry point returned an error (whatever it re-emitted all the same is in Emitted)
	Err      bool    `json:"err,omitempty"`
	Selected []Key   `json:"selected,omitempty"`
	Failed   []Key   `json:"failed,omitempty"` // keys whose store call failed during the op, most recent first
	Store    []Entry `json:"store"`
}
type Obs struct {
	Ops       []OpObs `json:"ops"`
	Confirmed int     `json:"confirmed_stuck,omitempty"` // stuck calls confirmed by a real blocked call
	// concurrent cases: per goroutine its own history (store = the keys it can name), the whole store
	// at the end, and the number of store calls / entries with a key no goroutine of the case can name
	Threads [][]OpObs `json:"threads,omitempty"`
	Final   []Entry   `json:"final,omitempty"`
	Stray   int       `json:"stray,omitempty"`
	Race    *RaceObs  `json:"race,omitempty"`
	// scripted interleavings: the operations in the order in which they completed (Ops: what each did),
	// whether the main operation reached its parking point and whether the intruder completed while the
	// main operation was parked
	Linear  []Op `json:"linear,omitempty"`
	Parked  bool `json:"parked,omitempty"`
	Between bool `json:"between,omitempty"`
	// xlive.go: per Execute call what was handed to ProposalsHash
	X []XStepObs `json:"x,omitempty"`
}

// ---- fault-injecting key-value store ----------------------------------------------------------

type faultKV struct {
	mu     sync.Mutex
	m      map[string][]byte
	faults []bool
	next   int
	failed []Key
	writes []kvWrite // successful writes, in order (reset by whoever looks at them)
}

type kvWrite struct {
	key Key
	val string
}

func parseKey(k []byte) Key {
	var s, d int
	var n uint64
	if _, err := fmt.Sscanf(string(k), "source:%d:destination:%d:depositNonce:%d", &s, &d, &n); err != nil {
		panic("unexpected store key " + string(k))
	}
	return Key{Src: uint8(s), Dst: uint8(d), Nonce: n}
}

func (kv *faultKV) fault(k []byte) bool {
	f := false
	if kv.next < len(kv.faults) {
		f = kv.faults[kv.next]
	}
	kv.next++
	if f {
		kv.failed = append([]Key{parseKey(k)}, kv.failed...)
	}
	return f
}

func (kv *faultKV) GetByKey(k []byte) ([]byte, error) {
	kv.mu.Lock()
	defer kv.mu.Unlock()
	if kv.fault(k) {
		return nil, errors.New("injected read error")
	}
	v, ok := kv.m[string(k)]
	if !ok {
		return nil, leveldb.ErrNotFound
	}
	return append([]byte(nil), v...), nil
}

func (kv *faultKV) SetByKey(k, v []byte) error {
	kv.mu.Lock()
	defer kv.mu.Unlock()
	if kv.fault(k) {
		return errors.New("injected write error")
	}
	kv.m[string(k)] = append([]byte(nil), v...)
	kv.writes = append(kv.writes, kvWrite{parseKey(k), string(v)})
	return nil
}

func (kv *faultKV) snapshot() []Entry {
	kv.mu.Lock()
	defer kv.mu.Unlock()
	out := make([]Entry, 0, len(kv.m))
	for k, v := range kv.m {
		out = append(out, Entry{Key: parseKey([]byte(k)), Status: string(v)})
	}
	sort.Slice(out, func(i, j int) bool {
		a, b := out[i].Key, out[j].Key
		if a.Src != b.Src {
			return a.Src < b.Src
		}
		if a.Dst != b.Dst {
			return a.Dst < b.Dst
		}
		return a.Nonce < b.Nonce
	})
	return out
}

// ---- fakes for the retry handlers ---------------------------------------------------------------

func resID(r uint8) [32]byte { return [32]byte{r} }

func depMsg(src uint8, d Dep) *message.Message {
	return message.NewMessage(src, d.Dst, transfer.TransferMessageData{
		DepositNonce: d.Nonce, ResourceId: resID(d.Res), Type: transfer.FungibleTransfer,
	}, fmt.Sprintf("dep-%d-%d-%d", src, d.Dst, d.Nonce), transfer.TransferMessageType, time.Time{})
}

func depMap(src uint8, ds []Dep) map[uint8][]*message.Message {
	m := map[uint8][]*message.Message{}
	for _, d := range ds {
		m[d.Dst] = append(m[d.Dst], depMsg(src, d))
	}
	return m
}

type depProc2 struct {
	src uint8
	ds  []Dep
}

func (p depProc2) ProcessDeposits(a, b *big.Int) (map[uint8][]*message.Message, error) {
	return depMap(p.src, p.ds), nil
}

type depProc1 struct {
	src uint8
	ds  []Dep
}

func (p depProc1) ProcessDeposits(a *big.Int) (map[uint8][]*message.Message, error) {
	return depMap(p.src, p.ds), nil
}

type evmClient struct{}

func (evmClient) LatestBlock() (*big.Int, error) { return big.NewInt(1000), nil }

type btcFetcher struct{}

func (btcFetcher) GetBestBlockHash() (*chainhash.Hash, error) { return &chainhash.Hash{}, nil }
func (btcFetcher) GetBlockVerboseTx(*chainhash.Hash) (*btcjson.GetBlockVerboseTxResult, error) {
	return &btcjson.GetBlockVerboseTxResult{Height: 1000}, nil
}

type subFetcher struct{}

func (subFetcher) GetFinalizedHead() (types.Hash, error) { return types.Hash{}, nil }
func (subFetcher) GetBlock(types.Hash) (*types.SignedBlock, error) {
	return &types.SignedBlock{Block: types.Block{Header: types.Header{Number: 1000}}}, nil
}

// v1Listener serves one RetryV1 event whose transaction holds the deposits.
type v1Listener struct{ ds []Dep }

func (l v1Listener) FetchKeygenEvents(context.Context, common.Address, *big.Int, *big.Int) ([]ethTypes.Log, error) {
	return nil, nil
}
func (l v1Listener) FetchFrostKeygenEvents(context.Context, common.Address, *big.Int, *big.Int) ([]ethTypes.Log, error) {
	return nil, nil
}
func (l v1Listener) FetchRefreshEvents(context.Context, common.Address, *big.Int, *big.Int) ([]*events.Refresh, error) {
	return nil, nil
}
func (l v1Listener) FetchDeposits(context.Context, common.Address, *big.Int, *big.Int) ([]*events.Deposit, error) {
	return nil, nil
}
func (l v1Listener) FetchRetryV1Events(context.Context, common.Address, *big.Int, *big.Int) ([]events.RetryV1Event, error) {
	return []events.RetryV1Event{{TxHash: "0x01"}}, nil
}
func (l v1Listener) FetchRetryV2Events(context.Context, common.Address, *big.Int, *big.Int) ([]events.RetryV2Event, error) {
	return nil, nil
}
func (l v1Listener) FetchRetryDepositEvents(events.RetryV1Event, common.Address, *big.Int) ([]events.Deposit, error) {
	out := make([]events.Deposit, len(l.ds))
	for i, d := range l.ds {
		out[i] = events.Deposit{DestinationDomainID: d.Dst, ResourceID: resID(d.Res), DepositNonce: d.Nonce}
	}
	return out, nil
}

type v1DepositHandler struct{}

func (v1DepositHandler) HandleDeposit(sourceID, destID uint8, nonce uint64, resourceID [32]byte, calldata, handlerResponse []byte, messageID string, timestamp time.Time) (*message.Message, error) {
	return message.NewMessage(sourceID, destID, transfer.TransferMessageData{
		DepositNonce: nonce, ResourceId: resourceID, Type: transfer.FungibleTransfer,
	}, messageID, transfer.TransferMessageType, timestamp), nil
}

// ---- driving the real code ---------------------------------------------------------------------

// doRetry makes one retry request through the chosen entry point and returns what was re-emitted:
// the messages pushed to the message channel (for "filter": the returned slice, which every caller
// drops when the error is not nil).  An error of the entry point is an observation, not a crash:
// the handlers then push nothing, i.e. the whole batch is withheld, and the judge decides.
func doRetry(ps *store.PropStore, op Op) ([]Dep, string) {
	retryMsg := &message.Message{Source: op.Dest, Destination: op.Src, Data: retry.RetryMessageData{
		SourceDomainID: op.Src, DestinationDomainID: op.Dest, BlockHeight: big.NewInt(10), ResourceID: resID(op.Res)}}
	var batches [][]*message.Message
	var err error
	// the entry point, given the message channel
	var call func(ch chan []*message.Message) error
	switch op.Path {
	case "filter":
		var out []*message.Message
		out, err = retry.FilterDeposits(ps, depMap(op.Src, op.Deps), resID(op.Res), op.Dest)
		if err == nil {
			batches = [][]*message.Message{out}
		}
	case "evm":
		call = func(ch chan []*message.Message) error {
			h := evmexec.NewRetryMessageHandler(depProc2{op.Src, op.Deps}, evmClient{}, ps, big.NewInt(5), ch)
			_, err := h.HandleMessage(retryMsg)
			return err
		}
	case "btc":
		call = func(ch chan []*message.Message) error {
			h := btcexec.NewRetryMessageHandler(depProc1{op.Src, op.Deps}, btcFetcher{}, big.NewInt(5), ps, ch)
			_, err := h.HandleMessage(retryMsg)
			return err
		}
	case "sub":
		call = func(ch chan []*message.Message) error {
			h := subexec.NewRetryMessageHandler(depProc2{op.Src, op.Deps}, subFetcher{}, ps, ch)
			_, err := h.HandleMessage(retryMsg)
			return err
		}
	case "v1":
		call = func(ch chan []*message.Message) error {
			h := eventHandlers.NewRetryV1EventHandler(zerolog.Nop().With(), v1Listener{op.Deps}, v1DepositHandler{}, ps,
				common.Address{}, op.Src, big.NewInt(5), ch)
			return h.HandleEvents(big.NewInt(10), big.NewInt(10))
		}
	default:
		panic("unknown path " + op.Path)
	}
	if call != nil {
		if op.Chan == "" {
			ch := make(chan []*message.Message, 64)
			before := goroutineIDs()
			err = call(ch)
			batches = collectRest(ch, before)
		} else {
			var hung bool
			batches, err, hung = emitVia(op, call)
			if hung && err == nil {
				err = errors.New("the retry entry point did not return")
			}
		}
		if op.Path == "v1" {
			// one batch per destination domain, sent in map order: canonical order = by domain
			sort.SliceStable(batches, func(i, j int) bool {
				return len(batches[i]) > 0 && len(batches[j]) > 0 && batches[i][0].Destination < batches[j][0].Destination
			})
		}
	}
	var out []Dep
	for _, b := range batches {
		for _, m := range b {
			d, ok := m.Data.(transfer.TransferMessageData)
			if !ok || m.Source != op.Src {
				// not a deposit of the retried block at all (no block holds a deposit for domain 0):
				// the judge rejects it as "re-emitted although not found there"
				out = append(out, Dep{})
				continue
			}
			out = append(out, Dep{Dst: m.Destination, Nonce: d.DepositNonce, Res: d.ResourceId[0]})
		}
	}
	if err != nil {
		return out, err.Error()
	}
	return out, ""
}

var confirmBudget = 12

// guarded runs a call that takes the executor's propMutex.  The runner is single-threaded: if the
// mutex is held before the call nothing can ever release it and the call cannot return; the first
// few such calls are really made (and seen to block), the others are recorded as stuck at once.
// A call made with the mutex free gets a generous deadline.
func guarded(e *btcexec.Executor, confirmed *int, f func()) (stuck bool) {
	if e.VerifPropMutexHeld() {
		if confirmBudget > 0 {
			confirmBudget--
			done := make(chan struct{})
			go func() { f(); close(done) }()
			select {
			case <-done:
				panic("propMutex reported held, yet the call returned")
			case <-time.After(150 * time.Millisecond):
				*confirmed++
			}
		}
		return true
	}
	done := make(chan struct{})
	go func() { f(); close(done) }()
	select {
	case <-done:
		return false
	case <-time.After(30 * time.Second):
		return true
	}
}

// opDriver makes the operations of one history on the real code: the store, one BTC executor and
// the deliveries made so far.  [call] runs a call that takes the executor's propMutex and says
// whether it got stuck.
type opDriver struct {
	ps        *store.PropStore
	e         *btcexec.Executor
	delivered [][]*btcexec.BtcTransferProposal
	call      func(f func()) (stuck bool)
	// histories with whole Execute calls (live.go): the executor's collaborators and the store backend
	env *liveEnv
	kv  *faultKV
}

func (d *opDriver) do(op Op) OpObs {
	var o OpObs
	switch op.Kind {
	case "retry":
		o.Emitted, o.RetryErr = doRetry(d.ps, op)
	case "deliver":
		props := make([]*proposal.Proposal, len(op.Keys))
		for i, k := range op.Keys {
			props[i] = proposal.NewProposal(k.Src, k.Dst, btcexec.BtcTransferProposalData{
				Amount: 1000, Recipient: "r", DepositNonce: k.Nonce, ResourceId: resID(1)}, "m", transfer.TransferProposalType)
		}
		var sel []*btcexec.BtcTransferProposal
		var err error
		o.Stuck = d.call(func() { sel, err = d.e.VerifProposalsForExecution(props, "m") })
		if !o.Stuck {
			if err != nil {
				o.Err = true
			} else {
				d.delivered = append(d.delivered, sel)
				for _, p := range sel {
					o.Selected = append(o.Selected, Key{p.Source, p.Destination, p.Data.DepositNonce})
				}
			}
		}
	case "execute":
		o = d.doExecute(op, d.kv)
	case "execok", "execfail":
		var batch []*btcexec.BtcTransferProposal
		if op.Batch >= 0 && op.Batch < len(d.delivered) {
			batch = d.delivered[op.Batch]
		}
		status := store.ExecutedProp
		if op.Kind == "execfail" {
			status = store.FailedProp
		}
		o.Stuck = d.call(func() { d.e.VerifStoreProposalsStatus(batch, status) })
	default:
		panic("unknown op " + op.Kind)
	}
	return o
}

func newExecutor(ps *store.PropStore) *btcexec.Executor {
	return btcexec.NewExecutor(ps, nil, nil, nil, nil, nil, nil, nil, chaincfg.TestNet3Params, &sync.RWMutex{}, nil)
}

func run(c Case) Obs {
	if c.Conc != nil {
		return runConc(c)
	}
	if c.Race > 0 {
		return runRace(c)
	}
	if c.Script != nil {
		return runScript(c)
	}
	if c.X != nil {
		return runX(c)
	}
	kv := &faultKV{m: map[string][]byte{}, faults: c.Faults}
	for _, e := range c.Init {
		kv.m[fmt.Sprintf(store.KEY, e.Src, e.Dst, e.Nonce)] = []byte(e.Status)
	}
	ps := store.NewPropStore(kv)
	var obs Obs
	d := &opDriver{ps: ps, kv: kv}
	live := false
	for _, op := range c.Ops {
		live = live || op.Kind == "execute"
	}
	if live { // ONE executor object with all its collaborators for the whole history
		d.env = &liveEnv{}
		d.e = newLiveExecutor(ps, d.env)
	} else {
		d.e = newExecutor(ps)
	}
	d.call = func(f func()) bool { return guarded(d.e, &obs.Confirmed, f) }
	for _, op := range c.Ops {
		kv.failed = nil
		o := d.do(op)
		o.Failed = append([]Key(nil), kv.failed...)
		o.Store = kv.snapshot()
		obs.Ops = append(obs.Ops, o)
	}
	return obs
}

// ---- generation ----------------------------------------------------------------------------------

var paths = []string{"filter", "evm", "btc", "sub", "v1"}
var statuses = []string{"pending", "failed", "executed"}

func genBlock(r *vgen.Rng, n int) []Dep {
	var ds []Dep
	seen := map[[2]uint64]bool{}
	for len(ds) < n {
		d := Dep{Dst: uint8(r.Range(1, 3)), Nonce: uint64(r.Range(1, 6)), Res: uint8(r.Range(1, 2))}
		if r.Chance(1, 30) {
			d.Nonce = r.U64()
		}
		k := [2]uint64{uint64(d.Dst), d.Nonce}
		if seen[k] {
			continue
		}
		seen[k] = true
		ds = append(ds, d)
	}
	return ds
}

func genInit(r *vgen.Rng, src uint8, ds []Dep, extra int) []Entry {
	var out []Entry
	seen := map[Key]bool{}
	for _, d := range ds {
		if r.Chance(1, 3) {
			continue // missing
		}
		k := Key{src, d.Dst, d.Nonce}
		seen[k] = true
		out = append(out, Entry{Key: k, Status: vgen.Pick(r, statuses)})
	}
	for i := 0; i < extra; i++ {
		k := Key{uint8(r.Range(1, 2)), uint8(r.Range(1, 3)), uint64(r.Range(1, 6))}
		if !seen[k] {
			seen[k] = true
			out = append(out, Entry{Key: k, Status: vgen.Pick(r, statuses)})
		}
	}
	return out
}

func retryOp(r *vgen.Rng, path string, src uint8, ds []Dep) Op {
	return Op{Kind: "retry", Path: path, Src: src, Res: uint8(r.Range(1, 2)), Dest: uint8(r.Range(1, 3)), Deps: ds}
}

func faultsAt(n int, idx ...int) []bool {
	f := make([]bool, n)
	for _, i := range idx {
		if i < n {
			f[i] = true
		}
	}
	return f
}

func genHistory(r *vgen.Rng, nops int, faultNum, faultDen int) Case {
	c := Case{Class: "history"}
	srcs := []uint8{1, 2}
	c.Init = genInit(r, 1, nil, r.Intn(6))
	var emitted []Key // keys worth delivering
	ndeliv := 0
	for i := 0; i < nops; i++ {
		switch x := r.Intn(10); {
		case x < 3:
			src := vgen.Pick(r, srcs)
			ds := genBlock(r, r.Range(0, 6))
			op := retryOp(r, vgen.Pick(r, paths), src, ds)
			c.Ops = append(c.Ops, op)
			for _, d := range ds {
				if op.Path == "v1" || (d.Dst == op.Dest && d.Res == op.Res) {
					emitted = append(emitted, Key{src, d.Dst, d.Nonce})
				}
			}
		case x < 6:
			n := r.Range(1, 4)
			var ks []Key
			for j := 0; j < n; j++ {
				if len(emitted) > 0 && r.Chance(2, 3) {
					ks = append(ks, vgen.Pick(r, emitted))
				} else {
					ks = append(ks, Key{vgen.Pick(r, srcs), uint8(r.Range(1, 3)), uint64(r.Range(1, 6))})
				}
			}
			c.Ops = append(c.Ops, Op{Kind: "deliver", Keys: ks})
			ndeliv++
		default:
			b := r.Intn(ndeliv + 1) // now and then one that does not exist (yet)
			kind := "execok"
			if r.Bool() {
				kind = "execfail"
			}
			c.Ops = append(c.Ops, Op{Kind: kind, Batch: b})
		}
	}
	nf := 4 * nops
	c.Faults = make([]bool, nf)
	for i := range c.Faults {
		c.Faults[i] = r.Chance(faultNum, faultDen)
	}
	return c
}

func gen(r *vgen.Rng, tier string) []Case {
	var out []Case
	mult := 1
	if tier == "thorough" {
		mult = 10
	}
	// 1. one retried block, every path, a fault at each call index in turn (and pairs)
	for i := 0; i < 30*mult; i++ {
		src := uint8(r.Range(1, 2))
		ds := genBlock(r, r.Range(0, 8))
		init := genInit(r, src, ds, r.Intn(3))
		op := retryOp(r, paths[i%len(paths)], src, ds)
		ncalls := 2 * len(ds)
		out = append(out, Case{Class: "retry-nofault", Init: init, Faults: []bool{}, Ops: []Op{op}})
		for j := 0; j < ncalls && j < 9; j++ {
			out = append(out, Case{Class: "retry-fault", Init: init, Faults: faultsAt(ncalls, j), Ops: []Op{op}})
		}
		if ncalls >= 2 {
			a, b := r.Intn(ncalls), r.Intn(ncalls)
			out = append(out, Case{Class: "retry-fault", Init: init, Faults: faultsAt(ncalls, a, b), Ops: []Op{op}})
		}
	}
	// 2. one delivery with a fault at each call index, then deliveries / completions that need the mutex
	for i := 0; i < 12*mult; i++ {
		n := r.Range(1, 4)
		var ks []Key
		for j := 0; j < n; j++ {
			ks = append(ks, Key{1, 2, uint64(j + 1)})
		}
		init := genInit(r, 1, []Dep{{2, 1, 1}, {2, 2, 1}, {2, 3, 1}}, 0)
		for j := 0; j < 2*n && j < 6; j++ {
			ops := []Op{{Kind: "deliver", Keys: ks}, {Kind: "deliver", Keys: ks}, {Kind: "execok", Batch: 0},
				retryOp(r, vgen.Pick(r, paths), 1, []Dep{{2, 1, 1}, {2, 2, 1}, {2, 3, 1}, {2, 4, 2}}), {Kind: "deliver", Keys: ks}, {Kind: "execfail", Batch: 1}}
			out = append(out, Case{Class: "deliver-fault", Init: init, Faults: faultsAt(2*n, j), Ops: ops})
		}
	}
	// 3. a second execution of a released proposal fails after the first one succeeded
	for i := 0; i < 10*mult; i++ {
		k := Key{1, 2, uint64(r.Range(1, 5))}
		d := Dep{Dst: 2, Nonce: k.Nonce, Res: 1}
		ret := Op{Kind: "retry", Path: vgen.Pick(r, paths), Src: 1, Res: 1, Dest: 2, Deps: []Dep{d}}
		ops := []Op{{Kind: "deliver", Keys: []Key{k}}, ret, {Kind: "deliver", Keys: []Key{k}}}
		if r.Bool() {
			ops = append(ops, Op{Kind: "execok", Batch: 0}, Op{Kind: "execfail", Batch: 1})
		} else {
			ops = append(ops, Op{Kind: "execfail", Batch: 1}, Op{Kind: "execok", Batch: 0})
		}
		ops = append(ops, ret, Op{Kind: "deliver", Keys: []Key{k}})
		f := []bool{}
		if r.Chance(1, 3) {
			f = faultsAt(14, r.Intn(14))
		}
		out = append(out, Case{Class: "concurrent-executions", Init: nil, Faults: f, Ops: ops})
	}
	// 4. random histories
	for i := 0; i < 120*mult; i++ {
		num := vgen.Pick(r, []int{0, 1, 1, 2})
		out = append(out, genHistory(r, r.Range(1, 40), num, 12))
	}
	// 5. goroutines sharing one PropStore (conc.go)
	out = append(out, genConcCases(r, mult)...)
	// 6. two operations on the same deposits meeting inside a call (script.go)
	out = append(out, genScripts(r, mult)...)
	// 6b. histories on one long-lived executor whose deliveries are whole Execute calls failing before the
	//     broadcast, released by retries and redelivered (live.go)
	out = append(out, genLive(r, mult)...)
	out = append(out, genX(r, mult)...)
	// 7. the same retry requests on a message channel that is read like the relayer's: unbuffered / one
	//    slot, the reader not in its receive when the handler gets to its send (chan.go)
	out = append(out, genChanCases(r, mult)...)
	if tier == "thorough" {
		out = append(out, Case{Class: "race", Race: 150})
	}
	return out
}

var chanPaths = []string{"evm", "btc", "sub", "v1"}
var chanModes = []string{"late", "unbuf", "cap1", "full1"}

// chanBlock: a retried block and a request that selects at least one of its deposits, most of them not
// recorded executed (so that there is something to re-emit); for RetryV1 the deposits go to 1..3
// destination domains = as many batches.
func chanBlock(r *vgen.Rng, path string) (Op, []Entry) {
	src := uint8(r.Range(1, 2))
	ds := genBlock(r, r.Range(1, 8))
	op := retryOp(r, path, src, ds)
	pick := vgen.Pick(r, ds)
	op.Res, op.Dest = pick.Res, pick.Dst
	var init []Entry
	for _, d := range ds {
		x := r.Intn(8)
		if d == pick {
			x = r.Intn(6) // the request's own deposit is not recorded executed: there is something to re-emit
		}
		switch {
		case x < 2: // missing
		case x < 4:
			init = append(init, Entry{Key{src, d.Dst, d.Nonce}, "pending"})
		case x < 6:
			init = append(init, Entry{Key{src, d.Dst, d.Nonce}, "failed"})
		default:
			init = append(init, Entry{Key{src, d.Dst, d.Nonce}, "executed"})
		}
	}
	return op, init
}

func genChanCases(r *vgen.Rng, mult int) []Case {
	var out []Case
	delays := []int{0, 0, 1, 3, 25, 120}
	// one retried block: every handler path x every way of reading the channel, without and with a store fault
	for i := 0; i < 3*mult; i++ {
		for _, path := range chanPaths {
			for _, mode := range chanModes {
				op, init := chanBlock(r, path)
				op.Chan = mode
				if mode != "unbuf" {
					op.Delay = vgen.Pick(r, delays)
				}
				out = append(out, Case{Class: "retry-chan", Init: init, Faults: []bool{}, Ops: []Op{op}})
				ncalls := 2 * len(op.Deps)
				out = append(out, Case{Class: "retry-chan-fault", Init: init, Faults: faultsAt(ncalls, r.Intn(ncalls)), Ops: []Op{op}})
			}
		}
	}
	// a reader that stays away for long after the handler got to its send
	for i, path := range chanPaths {
		op, init := chanBlock(r, path)
		op.Chan, op.Delay = "late", 300 // (one slot would hold the only batch of a message handler)
		if mult > 1 && i%2 == 0 {
			op.Delay = 1200
		}
		out = append(out, Case{Class: "retry-chan-long", Init: init, Faults: []bool{}, Ops: []Op{op}})
	}
	// histories whose retries arrive on such channels
	for i := 0; i < 20*mult; i++ {
		c := genHistory(r, r.Range(1, 25), vgen.Pick(r, []int{0, 0, 1}), 12)
		c.Class = "history-chan"
		some := false
		for j := range c.Ops {
			if c.Ops[j].Kind == "retry" && c.Ops[j].Path != "filter" && r.Chance(4, 5) {
				c.Ops[j].Chan = vgen.Pick(r, chanModes)
				if c.Ops[j].Chan != "unbuf" {
					c.Ops[j].Delay = vgen.Pick(r, []int{0, 0, 1, 4})
				}
				some = true
			}
		}
		if !some {
			op, _ := chanBlock(r, vgen.Pick(r, chanPaths))
			op.Chan = vgen.Pick(r, chanModes)
			c.Ops = append(c.Ops, op)
			c.Faults = append(c.Faults, make([]bool, 2*len(op.Deps))...)
		}
		out = append(out, c)
	}
	return out
}

// ---- Coq printing --------------------------------------------------------------------------------

func n(x uint64) string { return vgen.N(x) }
func coqKey(k Key) string {
	return "(" + n(uint64(k.Src)) + ", " + n(uint64(k.Dst)) + ", " + n(k.Nonce) + ")"
}
func coqDep(d Dep) string {
	return "mkDep " + n(uint64(d.Dst)) + " " + n(d.Nonce) + " " + n(uint64(d.Res))
}
func coqStatus(s string) string {
	switch s {
	case "missing":
		return "Missing"
	case "pending":
		return "Pending"
	case "failed":
		return "Failed"
	case "executed":
		return "Executed"
	}
	panic("unknown status in the store: " + s)
}
func coqEntry(e Entry) string { return vgen.Pair(coqKey(e.Key), coqStatus(e.Status)) }
func coqPath(p string) string {
	return map[string]string{"filter": "PFilter", "evm": "PEvm", "btc": "PBtc", "sub": "PSub", "v1": "PV1"}[p]
}
func coqOp(o Op) string {
	switch o.Kind {
	case "retry":
		return "Retry " + coqPath(o.Path) + " " + n(uint64(o.Src)) + " " + n(uint64(o.Res)) + " " + n(uint64(o.Dest)) + " " + vgen.ListOf(o.Deps, coqDep)
	case "deliver", "execute":
		return "Deliver " + vgen.ListOf(o.Keys, coqKey)
	case "execok":
		return "ExecOk " + vgen.Nat(o.Batch)
	case "execfail":
		return "ExecFail " + vgen.Nat(o.Batch)
	}
	panic("op")
}
func coqObs(op Op, o OpObs) string {
	var ou string
	switch {
	case o.Stuck:
		ou = "OStuck"
	case op.Kind == "retry":
		ou = "ORetry " + vgen.ListOf(o.Emitted, coqDep)
	case (op.Kind == "deliver" || op.Kind == "execute") && o.Err:
		ou = "ODeliver None"
	case op.Kind == "deliver" || op.Kind == "execute":
		ou = "ODeliver (Some " + vgen.ListOf(o.Selected, coqKey) + ")"
	default:
		ou = "OExec"
	}
	return "(" + ou + ", " + vgen.ListOf(o.Failed, coqKey) + ", " + vgen.ListOf(o.Store, coqEntry) + ")"
}

func coq(c Case, o Obs) string {
	if c.Conc != nil {
		return coqConc(c, o)
	}
	if c.Race > 0 {
		return coqRace(o)
	}
	if c.Script != nil {
		return coqScript(c, o)
	}
	if c.X != nil {
		return coqX(c, o)
	}
	obs := make([]string, len(c.Ops))
	for i := range c.Ops {
		obs[i] = coqObs(c.Ops[i], o.Ops[i])
	}
	// a sequential history on one executor object; lives = the operations that were whole Execute calls
	lives := make([]string, len(c.Ops))
	for i, op := range c.Ops {
		lives[i] = vgen.Bool(op.Kind == "execute")
	}
	return "HistX " + vgen.ListOf(c.Init, coqEntry) + " " + vgen.ListOf(c.Faults, vgen.Bool) + "\n    " +
		vgen.ListOf(c.Ops, coqOp) + "\n    " + vgen.List(lives) + "\n    " + vgen.List(obs)
}

func main() {
	if v := os.Getenv(raceEnv); v != "" {
		n, _ := strconv.Atoi(v)
		raceChild(n)
		return
	}
	vgen.Main(vgen.Spec[Case, Obs]{
		Property:  "C17",
		RunModule: "C17",
		Gen:       gen,
		Run:       run,
		Coq:       coq,
		Kind:      func(c Case) string { return c.Class },
		NonTrivial: func(c Case, o Obs) bool {
			// non-trivial: some operation made at least one store call (something was looked up or written)
			if c.Race > 0 {
				return o.Race != nil && o.Race.Ran
			}
			if c.Script != nil {
				return o.Parked // the main operation reached the store call at which the other one is let in
			}
			if c.X != nil {
				return len(o.X) >= 2 // a delivery after an Execute call that failed early
			}
			if c.Conc != nil {
				busy := 0
				for _, th := range c.Conc.Threads {
					for _, op := range th.Ops {
						if (op.Kind == "retry" && len(op.Deps) > 0) || (op.Kind == "deliver" && len(op.Keys) > 0) {
							busy++
							break
						}
					}
				}
				return busy >= 2 // at least two goroutines use the store
			}
			for i, op := range c.Ops {
				switch op.Kind {
				case "retry":
					if len(op.Deps) > 0 {
						return true
					}
				case "deliver", "execute":
					if len(op.Keys) > 0 && !o.Ops[i].Stuck {
						return true
					}
				}
			}
			return false
		},
		ShardSize: 150,
		Rule:      "retried blocks of 0..8 deposits (mixed resources, destinations, stored statuses) through each of the five retry paths with no fault, a fault at each store-call index in turn, and fault pairs; deliveries with a fault at each call index followed by deliveries/completions that need the mutex; released proposals executed twice with success and failure in both orders; random histories of 1..40 retry/deliver/exec-ok/exec-fail operations with random fault schedules; concurrent cases: 2..8 goroutines, each with its own list of 3..10 operations on its own deposit keys (plus shared executed keys and shared non-pending keys that only retries name), its own fault schedule, on ONE PropStore over a backend that uses key and value only after a scheduling point (Gosched / channel hand-off / sleep), under GOMAXPROCS 1, 2, 4 or 16, with one BTC executor per goroutine or one for all; thorough tier: 150 more of them in a child built with the race detector; scripted interleavings: after a prefix history two operations that take the executor's mutex (a delivery's admission, the end - executed / failed - of an older or newer execution of the same proposals, another delivery) are made by two goroutines on ONE executor and store, the first parked before / after each of its store calls in turn while the second is started (1..3 proposals; plus random prefix / pair / parking point / suffix); message-channel cases: retried blocks of 1..8 deposits (request chosen so that it selects at least one; statuses mixed) through each of the four handler paths on an unbuffered channel read all the time / an unbuffered channel, a channel of capacity 1 and a channel of capacity 1 still holding an earlier batch, whose reader comes to each receive only when the handler is parked or has returned and 0..120 ms (a few: 300 ms) later, without and with a store fault, and random histories whose retries arrive on such channels; distinct = distinct input JSON; non-trivial = at least one operation looks a proposal up in the store (concurrent: at least two goroutines do; scripted: the first operation reached its parking point)",
	})
}
