// Concurrent cases of the C17 runner: N goroutines, each making its own operation list (retry /
// deliver / exec-ok / exec-fail) on its OWN deposit keys (plus shared keys that are recorded
// executed, and shared keys that only retries name and that are not pending), against ONE shared
// real store.PropStore over an in-memory key-value backend that behaves like a real database call:
// it looks at the key and the value only AFTER a scheduling point.  Steps on different keys commute
// (Coq: C17_disjoint_commute) and in every interleaving each thread sees what it would see alone
// (C17_conc_projection), so every goroutine's history is compared with, and judged by, the
// sequential model on the keys it can name; the whole store at the end must be the union of the
// per-goroutine models.
package main

import (
	"fmt"
	"runtime"
	"sort"
	"sync"
	"sync/atomic"
	"time"

	btcexec "github.com/ChainSafe/sygma-relayer/chains/btc/executor"
	"github.com/ChainSafe/sygma-relayer/store"
	"github.com/syndtr/goleveldb/leveldb"

	"verifharness/vgen"
)

type Thread struct {
	Own    []Key  `json:"own"`    // the keys only this goroutine names
	Faults []bool `json:"faults"` // its own fault schedule: one entry per store call it makes
	Ops    []Op   `json:"ops"`
}

type Conc struct {
	Threads   []Thread `json:"threads"`
	RE        []Key    `json:"re,omitempty"` // shared, recorded executed at the start, named by any operation
	RO        []Key    `json:"ro,omitempty"` // shared, not pending at the start, named by retries only
	Procs     int      `json:"procs"`        // GOMAXPROCS while the case runs
	Yield     string   `json:"yield"`        // how the backend yields before using key and value: gosched | chan | sleep
	Jitter    uint64   `json:"jitter"`       // varies the number of yields per store call
	ShareExec bool     `json:"share_exec"`   // all goroutines deliver to ONE BTC executor (one propMutex)
}

// ---- the adversarial key-value backend ------------------------------------------------------------

type threadCtx struct {
	idx    int
	view   map[Key]bool
	faults []bool
	next   int
	failed []Key
	calls  uint64
}

type concKV struct {
	mu     sync.Mutex
	m      map[string][]byte
	mode   string
	jitter uint64
	byGo   sync.Map // goroutine id -> *threadCtx
	stray  int
	ping   chan chan struct{}
	done   chan struct{}
}

// goid: the id of the calling goroutine (the backend has no other way to know which thread of the
// case is calling: all of them share the one PropStore).
func goid() uint64 {
	var buf [64]byte
	n := runtime.Stack(buf[:], false)
	var id uint64
	for _, ch := range buf[len("goroutine "):n] {
		if ch < '0' || ch > '9' {
			break
		}
		id = id*10 + uint64(ch-'0')
	}
	return id
}

func mix(x uint64) uint64 {
	x += 0x9e3779b97f4a7c15
	x = (x ^ (x >> 30)) * 0xbf58476d1ce4e5b9
	x = (x ^ (x >> 27)) * 0x94d049bb133111eb
	return x ^ (x >> 31)
}

// pause is the scheduling point a real database call has (lock, IO wait) between receiving the key
// and the value and using them.
func (kv *concKV) pause(ctx *threadCtx) {
	n := 1
	if ctx != nil {
		ctx.calls++
		n = 1 + int(mix(kv.jitter+uint64(ctx.idx)*7919+ctx.calls)%3)
	}
	for i := 0; i < n; i++ {
		switch kv.mode {
		case "chan":
			r := make(chan struct{})
			select {
			case kv.ping <- r:
				<-r
			case <-kv.done:
			}
		case "sleep":
			time.Sleep(5 * time.Microsecond)
		default:
			runtime.Gosched()
		}
	}
}

func (kv *concKV) serve() {
	for {
		select {
		case r := <-kv.ping:
			runtime.Gosched()
			close(r)
		case <-kv.done:
			return
		}
	}
}

func tryParseKey(k string) (Key, bool) {
	var s, d int
	var n uint64
	var tail string
	c, _ := fmt.Sscanf(k, "source:%d:destination:%d:depositNonce:%d%s", &s, &d, &n, &tail)
	if c != 3 || s < 0 || s > 255 || d < 0 || d > 255 || fmt.Sprintf(store.KEY, s, d, n) != k {
		return Key{}, false
	}
	return Key{Src: uint8(s), Dst: uint8(d), Nonce: n}, true
}

// begin: the part of a call made with the lock held, after the pause: the key as it is NOW, whether
// the calling thread may name it, and whether this call is to fail.
func (kv *concKV) begin(ctx *threadCtx, k []byte) (ks string, fail bool) {
	ks = string(k)
	pk, ok := tryParseKey(ks)
	if ctx == nil || !ok || !ctx.view[pk] {
		kv.stray++
	}
	if ctx != nil {
		if ctx.next < len(ctx.faults) {
			fail = ctx.faults[ctx.next]
		}
		ctx.next++
		if fail {
			ctx.failed = append([]Key{pk}, ctx.failed...)
		}
	}
	return ks, fail
}

func (kv *concKV) ctx() *threadCtx {
	if v, ok := kv.byGo.Load(goid()); ok {
		return v.(*threadCtx)
	}
	return nil
}

func (kv *concKV) GetByKey(k []byte) ([]byte, error) {
	ctx := kv.ctx()
	kv.pause(ctx)
	kv.mu.Lock()
	defer kv.mu.Unlock()
	ks, fail := kv.begin(ctx, k)
	if fail {
		return nil, fmt.Errorf("injected read error")
	}
	v, ok := kv.m[ks]
	if !ok {
		return nil, leveldb.ErrNotFound
	}
	return append([]byte(nil), v...), nil
}

func (kv *concKV) SetByKey(k, v []byte) error {
	ctx := kv.ctx()
	kv.pause(ctx)
	kv.mu.Lock()
	defer kv.mu.Unlock()
	ks, fail := kv.begin(ctx, k)
	if fail {
		return fmt.Errorf("injected write error")
	}
	kv.m[ks] = append([]byte(nil), v...)
	return nil
}

func sortEntries(out []Entry) {
	sort.Slice(out, func(i, j int) bool {
		a, b := out[i].Key, out[j].Key
		if a.Src != b.Src {
			return a.Src < b.Src
		}
		if a.Dst != b.Dst {
			return a.Dst < b.Dst
		}
		return a.Nonce < b.Nonce
	})
}

// snapshot of the entries with a key of [view] (nil = all; entries whose key is not a proposal key
// are counted as stray)
func (kv *concKV) snapshot(view map[Key]bool) []Entry {
	kv.mu.Lock()
	defer kv.mu.Unlock()
	out := []Entry{}
	for k, v := range kv.m {
		pk, ok := tryParseKey(k)
		if !ok {
			if view == nil {
				kv.stray++
			}
			continue
		}
		st := string(v)
		if st != "missing" && st != "pending" && st != "failed" && st != "executed" {
			// not a status the code ever writes: the value was damaged on its way to the backend.
			// The executor does not start an execution from it and it is not "executed": it is
			// observed as what it behaves like, a pending proposal (and counted as stray).
			if view == nil {
				kv.stray++
			}
			st = "pending"
		}
		if view == nil || view[pk] {
			out = append(out, Entry{Key: pk, Status: st})
		}
	}
	sortEntries(out)
	return out
}

// takeFailed returns and clears the failed-call log of a thread
func (kv *concKV) takeFailed(ctx *threadCtx) []Key {
	kv.mu.Lock()
	defer kv.mu.Unlock()
	f := append([]Key(nil), ctx.failed...)
	ctx.failed = nil
	return f
}

// ---- running a concurrent case --------------------------------------------------------------------

// after a first goroutine was seen stuck (which the unchanged code never is) the patience with the
// following cases is shorter
var concStuckSeen atomic.Int32

func concDeadline() time.Duration {
	if concStuckSeen.Load() > 0 {
		return 2 * time.Second
	}
	return 30 * time.Second
}

func runConc(c Case) Obs {
	cc := c.Conc
	if cc.Procs > 0 {
		old := runtime.GOMAXPROCS(cc.Procs)
		defer runtime.GOMAXPROCS(old)
	}
	kv := &concKV{m: map[string][]byte{}, mode: cc.Yield, jitter: cc.Jitter, ping: make(chan chan struct{}), done: make(chan struct{})}
	defer close(kv.done)
	if kv.mode == "chan" {
		go kv.serve()
	}
	for _, e := range c.Init {
		kv.m[fmt.Sprintf(store.KEY, e.Src, e.Dst, e.Nonce)] = []byte(e.Status)
	}
	ps := store.NewPropStore(kv)
	var shared *btcexec.Executor
	if cc.ShareExec {
		shared = newExecutor(ps)
	}
	n := len(cc.Threads)
	type result struct {
		mu  sync.Mutex
		ops []OpObs
	}
	res := make([]*result, n)
	finished := make([]chan struct{}, n)
	start := make(chan struct{})
	for i := range cc.Threads {
		th := cc.Threads[i]
		res[i] = &result{}
		finished[i] = make(chan struct{})
		view := map[Key]bool{}
		for _, k := range th.Own {
			view[k] = true
		}
		for _, k := range cc.RE {
			view[k] = true
		}
		for _, k := range cc.RO {
			view[k] = true
		}
		ctx := &threadCtx{idx: i, view: view, faults: th.Faults}
		e := shared
		if e == nil {
			e = newExecutor(ps)
		}
		go func(i int) {
			defer close(finished[i])
			id := goid()
			kv.byGo.Store(id, ctx)
			defer kv.byGo.Delete(id)
			// the calls are made on this very goroutine (the backend identifies it); a call that
			// never returns is noticed by the coordinator below
			d := &opDriver{ps: ps, e: e, call: func(f func()) bool { f(); return false }}
			<-start
			for _, op := range th.Ops {
				o := d.do(op)
				o.Failed = kv.takeFailed(ctx)
				o.Store = kv.snapshot(view)
				res[i].mu.Lock()
				res[i].ops = append(res[i].ops, o)
				res[i].mu.Unlock()
			}
		}(i)
	}
	close(start)
	deadline := time.After(concDeadline())
	obs := Obs{Threads: make([][]OpObs, n)}
	expired := false
	for i := range cc.Threads {
		if !expired {
			select {
			case <-finished[i]:
			case <-deadline:
				expired = true
			}
		}
		done := false
		select {
		case <-finished[i]:
			done = true
		default:
		}
		res[i].mu.Lock()
		ops := append([]OpObs(nil), res[i].ops...)
		res[i].mu.Unlock()
		if !done {
			// the goroutine is blocked in its next operation (nothing of this case will ever release
			// what it waits for): that operation and the following ones are stuck
			concStuckSeen.Add(1)
			view := map[Key]bool{}
			for _, k := range cc.Threads[i].Own {
				view[k] = true
			}
			for len(ops) < len(cc.Threads[i].Ops) {
				ops = append(ops, OpObs{Stuck: true, Store: kv.snapshot(view)})
			}
		}
		obs.Threads[i] = ops
	}
	obs.Final = kv.snapshot(nil)
	kv.mu.Lock()
	obs.Stray = kv.stray
	kv.mu.Unlock()
	return obs
}

// ---- generation -------------------------------------------------------------------------------------

// the keys of thread i of t: every (source 1..2, destination 1..3) with the nonces i+1, i+1+t, ...
// up to 8 (one digit: all keys of a case have the same length, as most keys of a real store do);
// long = true: nonces of different lengths
func ownNonces(i, t int, long bool) []uint64 {
	var ns []uint64
	for x := i + 1; x <= 8; x += t {
		nn := uint64(x)
		if long {
			nn = []uint64{1, 10, 100, 4294967296}[x%4]*uint64(x) + uint64(x)
		}
		ns = append(ns, nn)
	}
	return ns
}

func genConc(r *vgen.Rng, class string, t, nops int, faultNum int, readsOnly bool) Case {
	long := r.Chance(1, 5)
	cc := &Conc{
		Procs:     vgen.Pick(r, []int{1, 1, 1, 2, 4, 16}),
		Yield:     vgen.Pick(r, []string{"gosched", "gosched", "gosched", "chan", "sleep"}),
		Jitter:    r.U64() % 1000000,
		ShareExec: r.Bool(),
	}
	c := Case{Class: class, Conc: cc}
	nonShared := uint64(9)
	// shared keys
	for src := uint8(1); src <= 2; src++ {
		for dst := uint8(1); dst <= 3; dst++ {
			if r.Chance(1, 2) {
				k := Key{src, dst, nonShared}
				switch r.Intn(3) {
				case 0:
					cc.RE = append(cc.RE, k)
					c.Init = append(c.Init, Entry{Key: k, Status: "executed"})
				case 1:
					cc.RO = append(cc.RO, k)
					if st := vgen.Pick(r, []string{"missing", "failed", "executed"}); st != "missing" {
						c.Init = append(c.Init, Entry{Key: k, Status: st})
					}
				}
			}
		}
	}
	sharedFor := func(src uint8, withRO bool) []Key {
		var out []Key
		for _, k := range cc.RE {
			if k.Src == src {
				out = append(out, k)
			}
		}
		if withRO {
			for _, k := range cc.RO {
				if k.Src == src {
					out = append(out, k)
				}
			}
		}
		return out
	}
	for i := 0; i < t; i++ {
		th := Thread{}
		ns := ownNonces(i, t, long)
		for src := uint8(1); src <= 2; src++ {
			for dst := uint8(1); dst <= 3; dst++ {
				for _, nn := range ns {
					k := Key{src, dst, nn}
					th.Own = append(th.Own, k)
					if st := vgen.Pick(r, []string{"missing", "pending", "pending", "failed", "executed", "executed"}); st != "missing" {
						c.Init = append(c.Init, Entry{Key: k, Status: st})
					}
				}
			}
		}
		ndeliv := 0
		for j := 0; j < nops; j++ {
			x := r.Intn(10)
			if readsOnly {
				x = 0
			}
			switch {
			case x < 5:
				src := uint8(r.Range(1, 2))
				var ds []Dep
				seen := map[Key]bool{}
				add := func(k Key) {
					if !seen[k] {
						seen[k] = true
						ds = append(ds, Dep{Dst: k.Dst, Nonce: k.Nonce, Res: uint8(r.Range(1, 2))})
					}
				}
				nown := r.Range(0, 5)
				if readsOnly {
					nown = r.Range(0, 1)
				}
				for q := 0; q < nown; q++ {
					add(Key{src, uint8(r.Range(1, 3)), vgen.Pick(r, ns)})
				}
				for _, k := range sharedFor(src, true) {
					if r.Chance(1, 2) || readsOnly {
						add(k)
					}
				}
				r.Shuffle(len(ds), func(a, b int) { ds[a], ds[b] = ds[b], ds[a] })
				th.Ops = append(th.Ops, retryOp(r, vgen.Pick(r, paths), src, ds))
			case x < 8:
				var ks []Key
				for q := r.Range(1, 4); q > 0; q-- {
					ks = append(ks, Key{uint8(r.Range(1, 2)), uint8(r.Range(1, 3)), vgen.Pick(r, ns)})
				}
				if sh := sharedFor(uint8(r.Range(1, 2)), false); len(sh) > 0 && r.Chance(1, 3) {
					ks = append(ks, vgen.Pick(r, sh))
				}
				th.Ops = append(th.Ops, Op{Kind: "deliver", Keys: ks})
				ndeliv++
			default:
				kind := "execok"
				if r.Bool() {
					kind = "execfail"
				}
				th.Ops = append(th.Ops, Op{Kind: kind, Batch: r.Intn(ndeliv + 1)})
			}
		}
		th.Faults = []bool{}
		if faultNum > 0 {
			th.Faults = make([]bool, 6*nops)
			for q := range th.Faults {
				th.Faults[q] = r.Chance(faultNum, 12)
			}
		}
		cc.Threads = append(cc.Threads, th)
	}
	return c
}

func genConcCases(r *vgen.Rng, mult int) []Case {
	var out []Case
	// disjoint deposits per goroutine (plus shared executed / read-only keys), no store errors
	for i := 0; i < 26*mult; i++ {
		out = append(out, genConc(r, "conc", r.Range(2, 8), r.Range(3, 10), 0, false))
	}
	// the same with per-goroutine fault schedules
	for i := 0; i < 10*mult; i++ {
		out = append(out, genConc(r, "conc-fault", r.Range(2, 6), r.Range(3, 10), 1, false))
	}
	// many goroutines reading the same keys (retries over shared executed / failed / missing keys)
	for i := 0; i < 6*mult; i++ {
		out = append(out, genConc(r, "conc-reads", r.Range(4, 8), r.Range(4, 8), 0, true))
	}
	return out
}

// ---- Coq printing -------------------------------------------------------------------------------------

func coqConc(c Case, o Obs) string {
	cc := c.Conc
	ths := make([]string, len(cc.Threads))
	for i, th := range cc.Threads {
		obs := make([]string, len(th.Ops))
		for j := range th.Ops {
			obs[j] = coqObs(th.Ops[j], o.Threads[i][j])
		}
		ths[i] = "(" + vgen.ListOf(th.Own, coqKey) + ", " + vgen.ListOf(th.Faults, vgen.Bool) + ",\n     " +
			vgen.ListOf(th.Ops, coqOp) + ",\n     " + vgen.List(obs) + ")"
	}
	return "Conc " + vgen.ListOf(c.Init, coqEntry) + " " + vgen.ListOf(cc.RE, coqKey) + " " + vgen.ListOf(cc.RO, coqKey) + "\n    " +
		vgen.List(ths) + "\n    " + vgen.ListOf(o.Final, coqEntry) + " " + vgen.Nat(o.Stray)
}
