// Histories on ONE long-lived EVM / Substrate executor object: every step is a WHOLE Executor.Execute
// call that fails before anything is broadcast -
//
//	query     the destination's executed-status lookup of the At-th proposal of the delivery fails
//	hash      ProposalsHash fails
//	keyshare  the relayer has no key share (signing.NewSigning)
//	sign      the signing session fails (real tss.Coordinator, nobody answers: TssTimeout)
//
// - and returns; the next steps deliver (the same or other) proposals to THE SAME executor, coordinator,
// bridge and key-share objects, sometimes under the same message id (= the same signing session id).
// These executors keep no status store: "executed" is what the destination chain says (the Executed set
// of the case).  Observed per step: the proposals handed to ProposalsHash, i.e. taken on for signing.
// Judge (Model/C17.v xdeliver_ok): unless a status lookup of this very call failed, every delivered
// proposal the destination does not report executed is taken on - whatever failed on this executor
// before ("a failure while executing never leaves the executor unable to process later deliveries").
package main

import (
	"errors"
	"fmt"
	"sync"
	"time"

	evmexec "github.com/ChainSafe/sygma-relayer/chains/evm/executor"
	subexec "github.com/ChainSafe/sygma-relayer/chains/substrate/executor"
	"github.com/ChainSafe/sygma-relayer/comm/elector"
	"github.com/ChainSafe/sygma-relayer/config/relayer"
	"github.com/ChainSafe/sygma-relayer/relayer/transfer"
	"github.com/ChainSafe/sygma-relayer/tss"
	"github.com/centrifuge/go-substrate-rpc-client/v4/rpc/author"
	"github.com/centrifuge/go-substrate-rpc-client/v4/types"
	ethCommon "github.com/ethereum/go-ethereum/common"
	"github.com/libp2p/go-libp2p/core/peer"
	"github.com/sygmaprotocol/sygma-core/chains/evm/transactor"
	"github.com/sygmaprotocol/sygma-core/relayer/proposal"

	fk "verifharness/execfakes"
	"verifharness/vgen"
)

type XStep struct {
	Keys []Key  `json:"keys"`
	Fail string `json:"fail"`         // query | hash | keyshare | sign
	At   int    `json:"at,omitempty"` // query: which lookup of the call fails (0-based)
	Mid  string `json:"mid"`          // message id of the delivery
}

type XCase struct {
	Chain    string  `json:"chain"` // evm | sub
	Executed []Key   `json:"executed,omitempty"`
	Steps    []XStep `json:"steps"`
}

type XStepObs struct {
	Hashed []Key `json:"hashed,omitempty"` // proposals handed to ProposalsHash during the call, in order
	Err    bool  `json:"err,omitempty"`    // Execute returned an error
	Hung   bool  `json:"hung,omitempty"`   // Execute did not return
}

// xBridge: the scripted destination (execfakes.Chain records the lookups and the ProposalsHash calls)
type xBridge struct {
	*fk.Chain
	mu       sync.Mutex
	failHash bool
}

func (b *xBridge) ProposalsHash(ps []*transfer.TransferProposal) ([]byte, error) {
	h, err := b.Chain.ProposalsHash(ps)
	b.mu.Lock()
	defer b.mu.Unlock()
	if b.failHash {
		return nil, errors.New("ProposalsHash failed")
	}
	return h, err
}

type xEvmBridge struct{ *xBridge }

func (b xEvmBridge) ExecuteProposals(ps []*transfer.TransferProposal, sig []byte, opts transactor.TransactOptions) (*ethCommon.Hash, error) {
	return fk.EvmBridge{Chain: b.Chain}.ExecuteProposals(ps, sig, opts)
}

type xSubPallet struct{ *xBridge }

func (b xSubPallet) ExecuteProposals(ps []*transfer.TransferProposal, sig []byte) (types.Hash, *author.ExtrinsicStatusSubscription, error) {
	return fk.SubPallet{Chain: b.Chain}.ExecuteProposals(ps, sig)
}
func (b xSubPallet) TrackExtrinsic(types.Hash, *author.ExtrinsicStatusSubscription) error { return nil }

type xExecutor interface {
	Execute(proposals []*proposal.Proposal) error
}

func runX(c Case) Obs {
	x := c.X
	chain := fk.NewChain()
	for _, k := range x.Executed {
		chain.Executed[fk.Key{Source: k.Src, Nonce: k.Nonce}] = true
	}
	host := fk.NewHost()
	cm := &fk.Comm{}
	fetcher := &fk.Fetcher{Peers: []peer.ID{host.ID()}}
	coord := tss.NewCoordinator(host, cm, elector.NewCoordinatorElectorFactory(host, relayer.BullyConfig{}))
	coord.TssTimeout, coord.CoordinatorTimeout, coord.InitiatePeriod = 2*time.Millisecond, 2*time.Millisecond, time.Hour
	br := &xBridge{Chain: chain}
	// ONE executor (and coordinator, bridge, key-share store) for the whole history
	var ex xExecutor
	switch x.Chain {
	case "evm":
		ex = evmexec.NewExecutor(host, cm, coord, xEvmBridge{br}, fetcher, &sync.RWMutex{}, 1<<40, 1)
	case "sub":
		ex = subexec.NewExecutor(host, cm, coord, xSubPallet{br}, fetcher, nil, &sync.RWMutex{})
	default:
		panic("unknown chain " + x.Chain)
	}
	var o Obs
	for _, st := range x.Steps {
		ps := make([]*proposal.Proposal, len(st.Keys))
		for i, k := range st.Keys {
			ps[i] = proposal.NewProposal(k.Src, k.Dst, transfer.TransferProposalData{
				DepositNonce: k.Nonce, ResourceId: resID(1), Metadata: map[string]interface{}{}, Data: []byte{byte(i)},
			}, st.Mid, transfer.TransferProposalType)
		}
		chain.FailQuery = map[int]bool{}
		// (between two Execute calls nothing else touches the scripted chain)
		if st.Fail == "query" {
			chain.FailQuery[len(chain.Queries)+st.At] = true
		}
		br.mu.Lock()
		br.failHash = st.Fail == "hash"
		br.mu.Unlock()
		fetcher.Fail = st.Fail == "keyshare"
		before := len(chain.HashCalls)
		var so XStepObs
		done := make(chan error, 1)
		go func() { done <- ex.Execute(ps) }()
		select {
		case err := <-done:
			so.Err = err != nil
		case <-time.After(30 * time.Second):
			so.Hung = true
		}
		if !so.Hung {
			for _, call := range chain.HashCalls[before:] {
				for _, hk := range call {
					k := Key{Src: hk.Source, Nonce: hk.Nonce}
					for _, c := range st.Keys {
						if c.Src == hk.Source && c.Nonce == hk.Nonce {
							k = c
							break
						}
					}
					so.Hashed = append(so.Hashed, k)
				}
			}
		}
		o.X = append(o.X, so)
		if so.Hung {
			break
		}
	}
	return o
}

// ---- generation ----------------------------------------------------------------------------------

var xKinds = []string{"query", "hash", "keyshare", "sign"}

func xKeys(r *vgen.Rng, n int) []Key {
	var ks []Key
	seen := map[[2]uint64]bool{}
	for len(ks) < n {
		k := Key{Src: uint8(r.Range(1, 3)), Dst: 4, Nonce: uint64(r.Range(1, 9))}
		if seen[[2]uint64{uint64(k.Src), k.Nonce}] {
			continue
		}
		seen[[2]uint64{uint64(k.Src), k.Nonce}] = true
		ks = append(ks, k)
	}
	return ks
}

func genX(r *vgen.Rng, mult int) []Case {
	var out []Case
	n := 0
	for _, chain := range []string{"evm", "sub"} {
		// every early-failure kind, then the same proposals again (under the same and under a new message
		// id), failing where the selection is visible, then once more as the first time
		for rep := 0; rep < mult; rep++ {
			for _, kind := range xKinds {
				for _, sameID := range []bool{true, false} {
					ks := xKeys(r, r.Range(1, 4))
					var executed []Key
					if len(ks) > 1 && r.Bool() {
						executed = append(executed, ks[r.Intn(len(ks))])
					}
					n++
					mid := func(i int) string {
						if sameID {
							return fmt.Sprintf("x-%d", n)
						}
						return fmt.Sprintf("x-%d-%d", n, i)
					}
					first := XStep{Keys: ks, Fail: kind, At: r.Intn(len(ks)), Mid: mid(0)}
					steps := []XStep{first,
						{Keys: ks, Fail: vgen.Pick(r, []string{"keyshare", "hash", "sign"}), Mid: mid(1)},
						{Keys: ks, Fail: kind, At: r.Intn(len(ks)), Mid: mid(2)},
						{Keys: ks, Fail: "keyshare", Mid: mid(3)}}
					out = append(out, Case{Class: "live-" + chain, X: &XCase{Chain: chain, Executed: executed, Steps: steps}})
				}
			}
		}
		// random histories
		for i := 0; i < 15*mult; i++ {
			pool := xKeys(r, r.Range(2, 6))
			var executed []Key
			for _, k := range pool {
				if r.Chance(1, 4) {
					executed = append(executed, k)
				}
			}
			var steps []XStep
			for j, m := 0, r.Range(2, 8); j < m; j++ {
				ks := pickKeys(r, pool)
				n++
				mid := fmt.Sprintf("x-%d", n)
				if j > 0 && r.Chance(1, 3) {
					mid = steps[j-1].Mid
				}
				steps = append(steps, XStep{Keys: ks, Fail: vgen.Pick(r, xKinds), At: r.Intn(len(ks) + 1), Mid: mid})
			}
			out = append(out, Case{Class: "live-" + chain, X: &XCase{Chain: chain, Executed: executed, Steps: steps}})
		}
	}
	return out
}

// ---- Coq printing --------------------------------------------------------------------------------

func coqX(c Case, o Obs) string {
	x := c.X
	steps := make([]string, 0, len(x.Steps))
	for i, st := range x.Steps {
		if i >= len(o.X) {
			break
		}
		var f string
		switch st.Fail {
		case "query":
			f = "XQuery " + vgen.Nat(st.At)
		case "hash":
			f = "XHash"
		case "keyshare":
			f = "XKeyshare"
		default:
			f = "XSign"
		}
		steps = append(steps, "(mkXStep "+vgen.ListOf(st.Keys, coqKey)+" ("+f+") "+vgen.Bool(o.X[i].Hung)+" "+vgen.ListOf(o.X[i].Hashed, coqKey)+")")
	}
	kind := "Xevm"
	if x.Chain == "sub" {
		kind = "Xsub"
	}
	return "XHist " + kind + " " + vgen.ListOf(x.Executed, coqKey) + "\n    " + vgen.List(steps)
}
