// Execute-level cases of the C02 runner: THREE relayers (the fixture committee of tss/test: key shares
// 0..2, threshold 1) each run the REAL Executor.Execute (EVM or Substrate) with the real
// tss.Coordinator, the real signing.Signing process and the real tss-lib threshold ECDSA over an
// in-memory message hub.  Nothing of the executor is stubbed: the digest comes from the real
// BridgeContract.ProposalsHash / Pallet.ProposalsHash, the signature from the real MPC session, the
// EVM submission goes through the real BridgeContract.ExecuteProposals into a recording transactor
// (the batch is read back from the ABI-encoded call data).
//
// What is observed per signing session: the session id, the digest the submitted signature verifies
// for under the committee's public key (= the 32-byte value that was handed to threshold signing;
// found with crypto.SigToPub among the digests the bridges returned during the case) and the batch
// that was submitted with this signature.
//
// Linking a submission to its session id: the hub lets the messages of ONE session through at a time
// (in the order of the session ids); all traffic of the later sessions is held back until the
// submission of the open session has been seen.  A session cannot produce a signature without
// message exchange, so whatever is submitted while session k is the open one belongs to session k.
//
// Schedules: all batch goroutines of all relayers are held inside ProposalsHash until every one of
// them has arrived (the dispatch loop of Execute is over by then); "p1" additionally runs the
// dispatch under GOMAXPROCS(1) - the schedule in which no batch goroutine starts before the loop is
// over (technique of the C14 / C19 runners).  Executed-status changes between hashing and submission
// are scripted: the listed proposals become executed right after a digest containing them has been
// computed.  A scripted digest failure (FailHash: the request for that batch returns an error at once,
// like a failing RPC) ends that batch's goroutine immediately, so that under "p1" its pool worker is
// re-used for a later batch while the dispatch loop is still running - the schedule in which a batch
// goroutine that reads shared loop state at its start sees a later batch.
package main

import (
	"bytes"
	"crypto/ecdsa"
	"encoding/hex"
	"errors"
	"fmt"
	"math/big"
	"os"
	"path/filepath"
	"reflect"
	"runtime"
	"sort"
	"strings"
	"sync"
	"time"

	"github.com/ChainSafe/sygma-relayer/chains/evm/calls/consts"
	evmbridge "github.com/ChainSafe/sygma-relayer/chains/evm/calls/contracts/bridge"
	evmexec "github.com/ChainSafe/sygma-relayer/chains/evm/executor"
	subexec "github.com/ChainSafe/sygma-relayer/chains/substrate/executor"
	"github.com/ChainSafe/sygma-relayer/chains/substrate/pallet"
	"github.com/ChainSafe/sygma-relayer/comm"
	"github.com/ChainSafe/sygma-relayer/comm/elector"
	"github.com/ChainSafe/sygma-relayer/config/relayer"
	"github.com/ChainSafe/sygma-relayer/keyshare"
	"github.com/ChainSafe/sygma-relayer/relayer/transfer"
	"github.com/ChainSafe/sygma-relayer/tss"
	"github.com/centrifuge/go-substrate-rpc-client/v4/rpc/author"
	"github.com/centrifuge/go-substrate-rpc-client/v4/types"
	"github.com/ethereum/go-ethereum/accounts/abi"
	ethCommon "github.com/ethereum/go-ethereum/common"
	"github.com/ethereum/go-ethereum/crypto"
	libp2pcrypto "github.com/libp2p/go-libp2p/core/crypto"
	"github.com/libp2p/go-libp2p/core/host"
	"github.com/libp2p/go-libp2p/core/network"
	"github.com/libp2p/go-libp2p/core/peer"
	"github.com/libp2p/go-libp2p/core/peerstore"
	"github.com/libp2p/go-libp2p/core/protocol"
	"github.com/libp2p/go-libp2p/p2p/host/peerstore/pstoremem"
	ma "github.com/multiformats/go-multiaddr"
	"github.com/sygmaprotocol/sygma-core/chains/evm/transactor"
	subclient "github.com/sygmaprotocol/sygma-core/chains/substrate/client"
	"github.com/sygmaprotocol/sygma-core/relayer/proposal"
)

// ---- fixture committee -----------------------------------------------------------------------------

func repoDir() string {
	if d := os.Getenv("VERIF_REPO"); d != "" {
		return d
	}
	return "/repo"
}

const relayers = 3

var (
	fixOnce  sync.Once
	fixPeers []peer.ID
	fixPub   *ecdsa.PublicKey
)

func keysharePath(i int) string {
	return filepath.Join(repoDir(), "tss/test/keyshares", fmt.Sprintf("%d.keyshare", i))
}

func fixtures() {
	fixOnce.Do(func() {
		for i := 0; i < relayers; i++ {
			b, err := os.ReadFile(filepath.Join(repoDir(), "tss/test/pks", fmt.Sprintf("%d.pk", i)))
			if err != nil {
				panic(err)
			}
			priv, err := libp2pcrypto.UnmarshalPrivateKey(b)
			if err != nil {
				panic(err)
			}
			id, err := peer.IDFromPrivateKey(priv)
			if err != nil {
				panic(err)
			}
			fixPeers = append(fixPeers, id)
		}
		ks, err := keyshare.NewECDSAKeyshareStore(keysharePath(0)).GetKeyshare()
		if err != nil {
			panic(err)
		}
		fixPub = &ecdsa.PublicKey{Curve: crypto.S256(), X: ks.Key.ECDSAPub.X(), Y: ks.Key.ECDSAPub.Y()}
	})
}

// ---- host ----------------------------------------------------------------------------------------------

type fakeHost struct {
	host.Host // nil: anything not overridden panics
	id        peer.ID
	ps        peerstore.Peerstore
}

func (h *fakeHost) ID() peer.ID                                         { return h.id }
func (h *fakeHost) Peerstore() peerstore.Peerstore                      { return h.ps }
func (h *fakeHost) SetStreamHandler(protocol.ID, network.StreamHandler) {}
func (h *fakeHost) RemoveStreamHandler(protocol.ID)                     {}

func newFakeHost(self peer.ID, peers []peer.ID) *fakeHost {
	ps, err := pstoremem.NewPeerstore()
	if err != nil {
		panic(err)
	}
	addr, _ := ma.NewMultiaddr("/ip4/127.0.0.1/tcp/4001")
	for _, p := range peers {
		ps.AddAddr(p, addr, peerstore.PermanentAddrTTL)
	}
	return &fakeHost{id: self, ps: ps}
}

// ---- message hub ---------------------------------------------------------------------------------------

type subKey struct {
	sid string
	typ comm.MessageType
}

type heldMsg struct {
	to peer.ID
	m  *comm.WrappedMessage
}

// hub: reliable in-memory transport.  windows = session ids that are let through one at a time.
type hub struct {
	mu      sync.Mutex
	eps     map[peer.ID]*endpoint
	windows []string
	cur     int
	held    map[string][]heldMsg
}

func newHub(windows []string) *hub {
	return &hub{eps: map[peer.ID]*endpoint{}, windows: windows, held: map[string][]heldMsg{}}
}

func (h *hub) windowOf(sid string) int {
	for i, s := range h.windows {
		if s == sid {
			return i
		}
	}
	return -1
}

func (h *hub) send(to peer.ID, m *comm.WrappedMessage) {
	h.mu.Lock()
	if h.windowOf(m.SessionID) > h.cur {
		h.held[m.SessionID] = append(h.held[m.SessionID], heldMsg{to, m})
		h.mu.Unlock()
		return
	}
	ep := h.eps[to]
	h.mu.Unlock()
	if ep != nil {
		ep.receive(m)
	}
}

// open lets session windows[k] (and everything before it) through.
func (h *hub) open(k int) {
	h.mu.Lock()
	h.cur = k
	var flush []heldMsg
	for i := 0; i <= k && i < len(h.windows); i++ {
		flush = append(flush, h.held[h.windows[i]]...)
		delete(h.held, h.windows[i])
	}
	h.mu.Unlock()
	for _, x := range flush {
		h.mu.Lock()
		ep := h.eps[x.to]
		h.mu.Unlock()
		if ep != nil {
			ep.receive(x.m)
		}
	}
}

// holdAll: no session's traffic is let through (until open is called).
func (h *hub) holdAll() {
	h.mu.Lock()
	h.cur = -1
	h.mu.Unlock()
}

func (h *hub) current() int {
	h.mu.Lock()
	defer h.mu.Unlock()
	return h.cur
}

// endpoint is one relayer's comm.Communication.  A message for which nobody is subscribed yet waits
// for the first subscriber (the real transport has latency instead).
type endpoint struct {
	h       *hub
	self    peer.ID
	mu      sync.Mutex
	n       int
	subs    map[comm.SubscriptionID]subKey
	chans   map[comm.SubscriptionID]chan *comm.WrappedMessage
	pending map[subKey][]*comm.WrappedMessage
}

func (h *hub) join(self peer.ID) *endpoint {
	ep := &endpoint{h: h, self: self, subs: map[comm.SubscriptionID]subKey{}, chans: map[comm.SubscriptionID]chan *comm.WrappedMessage{},
		pending: map[subKey][]*comm.WrappedMessage{}}
	h.mu.Lock()
	h.eps[self] = ep
	h.mu.Unlock()
	return ep
}

func (e *endpoint) receive(m *comm.WrappedMessage) {
	k := subKey{m.SessionID, m.MessageType}
	e.mu.Lock()
	var to []chan *comm.WrappedMessage
	for id, sk := range e.subs {
		if sk == k {
			to = append(to, e.chans[id])
		}
	}
	if len(to) == 0 {
		e.pending[k] = append(e.pending[k], m)
	}
	e.mu.Unlock()
	for _, ch := range to {
		ch := ch
		go func() { ch <- m }()
	}
}

func (e *endpoint) CloseSession(string) {}

func (e *endpoint) Broadcast(peers peer.IDSlice, msg []byte, msgType comm.MessageType, sessionID string) error {
	for _, p := range peers {
		if p == e.self {
			continue
		}
		e.h.send(p, &comm.WrappedMessage{MessageType: msgType, SessionID: sessionID, Payload: append([]byte{}, msg...), From: e.self})
	}
	return nil
}

func (e *endpoint) Subscribe(sessionID string, msgType comm.MessageType, ch chan *comm.WrappedMessage) comm.SubscriptionID {
	k := subKey{sessionID, msgType}
	e.mu.Lock()
	e.n++
	id := comm.SubscriptionID(fmt.Sprintf("%s-%d-%d", sessionID, msgType, e.n))
	e.subs[id], e.chans[id] = k, ch
	waiting := e.pending[k]
	delete(e.pending, k)
	e.mu.Unlock()
	for _, m := range waiting {
		m := m
		go func() { ch <- m }()
	}
	return id
}

func (e *endpoint) UnSubscribe(id comm.SubscriptionID) {
	e.mu.Lock()
	delete(e.subs, id)
	delete(e.chans, id)
	e.mu.Unlock()
}

// ---- the destination chain ---------------------------------------------------------------------------

type pkey struct {
	origin uint8
	nonce  uint64
}

func keyOfProp(p *transfer.TransferProposal) pkey { return pkey{p.Source, p.Data.DepositNonce} }

func valueOf(ps []*transfer.TransferProposal) []Prop {
	out := make([]Prop, len(ps))
	for i, p := range ps {
		out[i] = Prop{Origin: p.Source, Nonce: p.Data.DepositNonce, Rid: hex.EncodeToString(p.Data.ResourceId[:]), Data: hex.EncodeToString(p.Data.Data)}
	}
	return out
}

type hashRec struct {
	props  []Prop
	digest []byte
}

type subRec struct {
	window int
	props  []Prop
	sig    []byte
}

// execWorld: the shared destination (executed set, scripted changes) and everything that is recorded.
type execWorld struct {
	mu       sync.Mutex
	executed map[pkey]bool
	flip     map[pkey]bool // becomes executed once a digest containing it has been computed
	failHash [][]Prop      // digest requests for these batches fail at once
	hashMu   sync.Mutex    // the exec cases are not about concurrent hashing (mode multi is)
	expected int
	arrived  int
	allIn    chan struct{}
	onAllIn  func()
	// the barrier is given up when no further goroutine arrives (an executor that asks for its digests
	// in another way, e.g. all of them from the goroutine of Execute itself, would wait for ever)
	lastArrival time.Time
	barrierOff  bool
	// how the Execute calls ended
	ended   int
	allDone chan struct{}
	crashed bool
	info    []string // remarks that do not make the observation incomplete
	hashes  []hashRec
	subs    []subRec
	subCh   chan struct{}
	hub     *hub
	note    []string
	// prior phase (Case.Prior): no barrier, no scripted executed-status changes; priorSub = the digest
	// request itself fails (Substrate: there is no RPC behind Pallet.ProposalsHash that could)
	prior    bool
	priorSub bool
}

func (w *execWorld) addNote(s string) {
	w.mu.Lock()
	w.note = append(w.note, s)
	w.mu.Unlock()
}

func (w *execWorld) isExecuted(p *transfer.TransferProposal) (bool, error) {
	w.mu.Lock()
	defer w.mu.Unlock()
	return w.executed[keyOfProp(p)], nil
}

// arrive: barrier of all batch goroutines of all relayers at the start of ProposalsHash.  On the repository's
// code all of them arrive within milliseconds; the barrier is given up (for the rest of the case) when none
// has arrived for 5 s.
func (w *execWorld) arrive() {
	start := time.Now()
	w.mu.Lock()
	if w.barrierOff {
		w.mu.Unlock()
		return
	}
	w.arrived++
	w.lastArrival = start
	if w.arrived == w.expected {
		if w.onAllIn != nil {
			w.onAllIn()
		}
		close(w.allIn)
	}
	w.mu.Unlock()
	for {
		select {
		case <-w.allIn:
			return
		case <-time.After(250 * time.Millisecond):
		}
		w.mu.Lock()
		if !w.barrierOff && (time.Since(w.lastArrival) > 5*time.Second || time.Since(start) > 30*time.Second) {
			// (the barrier only selects the schedule; an executor that obtains its digests in another way is
			// judged by its sessions like any other)
			w.barrierOff = true
			w.info = append(w.info, "not all batch goroutines reached ProposalsHash: barrier given up")
			if w.onAllIn != nil {
				w.onAllIn()
			}
		}
		off := w.barrierOff
		w.mu.Unlock()
		if off {
			return
		}
	}
}

func firstLine(s string) string {
	if i := strings.IndexByte(s, '\n'); i >= 0 {
		s = s[:i]
	}
	if len(s) > 200 {
		s = s[:200]
	}
	return s
}

// executeEnded: one relayer's Execute returned or (p != nil) ended in a panic.
func (w *execWorld) executeEnded(p interface{}) {
	w.mu.Lock()
	defer w.mu.Unlock()
	if p != nil {
		w.crashed = true
		w.note = append(w.note, "Executor.Execute panicked: "+firstLine(fmt.Sprint(p)))
	}
	w.ended++
	if w.ended == relayers {
		close(w.allDone)
	}
}

var errScriptedHash = errors.New("C02 runner: scripted ProposalsHash failure")

func sameProps(a, b []Prop) bool {
	if len(a) != len(b) {
		return false
	}
	for i := range a {
		if a[i].Origin != b[i].Origin || a[i].Nonce != b[i].Nonce || a[i].Rid != b[i].Rid || a[i].Data != b[i].Data {
			return false
		}
	}
	return true
}

func (w *execWorld) hashed(ps []*transfer.TransferProposal, real func([]*transfer.TransferProposal) ([]byte, error)) ([]byte, error) {
	val := valueOf(ps)
	w.mu.Lock()
	prior, priorSub := w.prior, w.priorSub
	w.mu.Unlock()
	if prior {
		if priorSub {
			return nil, errScriptedHash
		}
		w.hashMu.Lock()
		d, err := real(ps)
		w.hashMu.Unlock()
		if err == nil {
			// (not on the repository's code: the RPC the digest needs is down)
			w.mu.Lock()
			w.hashes = append(w.hashes, hashRec{props: val, digest: append([]byte{}, d...)})
			w.mu.Unlock()
		}
		return d, err
	}
	for _, f := range w.failHash {
		if sameProps(f, val) {
			// fails at once, without ever blocking: the batch goroutine ends and its pool worker is
			// free again while the dispatch loop of Execute is still running
			return nil, errScriptedHash
		}
	}
	w.arrive()
	w.hashMu.Lock()
	d, err := real(ps)
	w.hashMu.Unlock()
	w.mu.Lock()
	if err == nil {
		w.hashes = append(w.hashes, hashRec{props: val, digest: append([]byte{}, d...)})
	}
	for _, p := range ps {
		if w.flip[keyOfProp(p)] {
			w.executed[keyOfProp(p)] = true
		}
	}
	w.mu.Unlock()
	return d, err
}

func (w *execWorld) submitted(props []Prop, sig []byte) {
	w.mu.Lock()
	w.subs = append(w.subs, subRec{window: w.hub.current(), props: props, sig: append([]byte{}, sig...)})
	w.mu.Unlock()
	select {
	case w.subCh <- struct{}{}:
	default:
	}
}

// ---- EVM: the real BridgeContract over a fake client and a recording transactor -----------------------

var bridgeABI = func() abi.ABI {
	a, err := abi.JSON(strings.NewReader(consts.BridgeABI))
	if err != nil {
		panic(err)
	}
	return a
}()

// decodeExecuteProposals reads (proposals, signature) back from the call data of executeProposals.
func decodeExecuteProposals(data []byte) ([]Prop, []byte, error) {
	m := bridgeABI.Methods["executeProposals"]
	if len(data) < 4 || !bytes.Equal(data[:4], m.ID) {
		return nil, nil, fmt.Errorf("not an executeProposals call")
	}
	vals, err := m.Inputs.Unpack(data[4:])
	if err != nil {
		return nil, nil, err
	}
	if len(vals) != 2 {
		return nil, nil, fmt.Errorf("executeProposals: %d arguments", len(vals))
	}
	sig, ok := vals[1].([]byte)
	if !ok {
		return nil, nil, fmt.Errorf("executeProposals: signature is %T", vals[1])
	}
	rv := reflect.ValueOf(vals[0])
	if rv.Kind() != reflect.Slice {
		return nil, nil, fmt.Errorf("executeProposals: proposals is %T", vals[0])
	}
	out := make([]Prop, rv.Len())
	for i := range out {
		e := rv.Index(i)
		rid := e.FieldByName("ResourceID").Interface().([32]byte)
		out[i] = Prop{
			Origin: e.FieldByName("OriginDomainID").Interface().(uint8),
			Nonce:  e.FieldByName("DepositNonce").Interface().(uint64),
			Rid:    hex.EncodeToString(rid[:]),
			Data:   hex.EncodeToString(e.FieldByName("Data").Interface().([]byte)),
		}
	}
	return out, sig, nil
}

// recTransactor receives what the real BridgeContract.ExecuteProposals sends to the chain.
type recTransactor struct {
	on func(props []Prop, sig []byte, gas uint64, err error)
}

func (t *recTransactor) Transact(to *ethCommon.Address, data []byte, opts transactor.TransactOptions) (*ethCommon.Hash, error) {
	props, sig, err := decodeExecuteProposals(data)
	t.on(props, sig, opts.GasLimit, err)
	return &ethCommon.Hash{}, nil
}

// evmWorldBridge: ProposalsHash and ExecuteProposals are the real BridgeContract's; the executed
// status is the scripted one.
type evmWorldBridge struct {
	*evmbridge.BridgeContract
	w *execWorld
}

func (b *evmWorldBridge) IsProposalExecuted(p *transfer.TransferProposal) (bool, error) {
	return b.w.isExecuted(p)
}
func (b *evmWorldBridge) ProposalsHash(ps []*transfer.TransferProposal) ([]byte, error) {
	return b.w.hashed(ps, b.BridgeContract.ProposalsHash)
}

func newEvmBridge(chain int64, contract string, on func([]Prop, []byte, uint64, error)) *evmbridge.BridgeContract {
	return newEvmBridgeCtl(chain, contract, nil, on)
}

// ctl (may be nil) scripts the chain-id RPC of the client behind the contract object.
func newEvmBridgeCtl(chain int64, contract string, ctl *rpcCtl, on func([]Prop, []byte, uint64, error)) *evmbridge.BridgeContract {
	return evmbridge.NewBridgeContract(&fakeEvmClient{id: big.NewInt(chain), ctl: ctl}, ethCommon.BytesToAddress(unhex(contract)), &recTransactor{on: on})
}

// ---- Substrate: the real Pallet.ProposalsHash; the extrinsic is recorded at the BridgePallet interface ---

type subWorldPallet struct {
	p *pallet.Pallet
	w *execWorld
}

func (b *subWorldPallet) IsProposalExecuted(p *transfer.TransferProposal) (bool, error) {
	return b.w.isExecuted(p)
}
func (b *subWorldPallet) ProposalsHash(ps []*transfer.TransferProposal) ([]byte, error) {
	return b.w.hashed(ps, b.p.ProposalsHash)
}
func (b *subWorldPallet) ExecuteProposals(ps []*transfer.TransferProposal, sig []byte) (types.Hash, *author.ExtrinsicStatusSubscription, error) {
	b.w.submitted(valueOf(ps), sig)
	return types.Hash{}, nil, nil
}
func (b *subWorldPallet) TrackExtrinsic(types.Hash, *author.ExtrinsicStatusSubscription) error {
	return nil
}

// ---- one case ------------------------------------------------------------------------------------------

// SessObs: one submission, attributed to the session whose window was open.
type SessObs struct {
	Sid       string `json:"sid"`
	Batch     []Prop `json:"batch"`     // the batch the session id stands for
	Signed    string `json:"signed"`    // digest the submitted signature verifies for ("" = none found)
	Submitted []Prop `json:"submitted"` // the batch that went to ExecuteProposals with it
}

func execProposals(c Case) []*proposal.Proposal {
	ps := make([]*proposal.Proposal, len(c.Props))
	for i, p := range c.Props {
		var rid [32]byte
		copy(rid[:], unhex(p.Rid))
		md := map[string]interface{}{}
		if p.Limit != nil {
			md["gasLimit"] = *p.Limit
		}
		ps[i] = proposal.NewProposal(p.Origin, 2, transfer.TransferProposalData{
			DepositNonce: p.Nonce, ResourceId: rid, Metadata: md, Data: unhex(p.Data),
		}, c.Mid, transfer.TransferProposalType)
	}
	return ps
}

// verifiedDigest: the candidate (32 bytes) for which sig (r || s || v) recovers the committee's key.
func verifiedDigest(cands [][]byte, sig []byte) string {
	if len(sig) != 65 || (sig[64] != 27 && sig[64] != 28) {
		return ""
	}
	cp := append([]byte{}, sig...)
	cp[64] -= 27
	for _, d := range cands {
		if len(d) != 32 {
			continue
		}
		pub, err := crypto.SigToPub(d, cp)
		if err == nil && pub.X.Cmp(fixPub.X) == 0 && pub.Y.Cmp(fixPub.Y) == 0 {
			return hex.EncodeToString(d)
		}
	}
	return ""
}

func runExec(c Case) Obs {
	fixtures()
	oc, ot := evmexec.VerifC02SetPeriods(25*time.Millisecond, 30*time.Minute)
	defer evmexec.VerifC02SetPeriods(oc, ot)
	sc, st := subexec.VerifC02SetPeriods(25*time.Millisecond, 30*time.Minute)
	defer subexec.VerifC02SetPeriods(sc, st)

	w := &execWorld{executed: map[pkey]bool{}, flip: map[pkey]bool{}, allIn: make(chan struct{}), subCh: make(chan struct{}, 64), allDone: make(chan struct{})}
	for _, i := range c.Executed {
		w.executed[pkey{c.Props[i].Origin, c.Props[i].Nonce}] = true
	}
	for _, i := range c.Flip {
		w.flip[pkey{c.Props[i].Origin, c.Props[i].Nonce}] = true
	}

	// the batches as the real code forms them from the delivery and the executed status at delivery
	var batches [][]Prop
	var sids []string
	switch c.Via {
	case "evm":
		ex := evmexec.NewExecutor(nil, nil, nil, &evmWorldBridge{w: w}, nil, &sync.RWMutex{}, c.Cap, c.Tg)
		bs, err := ex.VerifC02Batches(execProposals(c))
		if err != nil {
			panic("C02 runner: proposalBatches failed: " + err.Error())
		}
		for i, b := range bs {
			if len(b) == 0 {
				continue
			}
			batches = append(batches, valueOf(b))
			sids = append(sids, fmt.Sprintf("%s-%d", c.Mid, i))
		}
	case "substrate":
		var b []Prop
		for i, p := range c.Props {
			if !w.executed[pkey{p.Origin, p.Nonce}] {
				q := c.Props[i]
				q.Limit = nil
				b = append(b, q)
			}
		}
		if len(b) > 0 {
			batches, sids = append(batches, b), append(sids, c.Mid)
		}
	default:
		panic("exec via")
	}

	// scripted digest failures: those batches get no session
	if len(c.FailHash) > 0 {
		var kb [][]Prop
		var ks []string
		for i := range batches {
			failing := false
			for _, f := range c.FailHash {
				failing = failing || f == i
			}
			if failing {
				w.failHash = append(w.failHash, batches[i])
			} else {
				kb, ks = append(kb, batches[i]), append(ks, sids[i])
			}
		}
		batches, sids = kb, ks
	}

	w.hub = newHub(sids)
	w.expected = relayers * len(sids)
	if w.expected == 0 {
		close(w.allIn)
	}
	// the three relayers: every object is built once and lives for the whole case
	ctl := &rpcCtl{}
	executes := make([]func([]*proposal.Proposal) error, relayers)
	for k := 0; k < relayers; k++ {
		h := newFakeHost(fixPeers[k], fixPeers)
		ep := w.hub.join(fixPeers[k])
		coord := tss.NewCoordinator(h, ep, elector.NewCoordinatorElectorFactory(h, relayer.BullyConfig{}))
		coord.TssTimeout = 20 * time.Minute
		coord.CoordinatorTimeout = 20 * time.Minute
		coord.InitiatePeriod = time.Hour
		fetcher := keyshare.NewECDSAKeyshareStore(keysharePath(k))
		switch c.Via {
		case "evm":
			bc := newEvmBridgeCtl(c.Chain, c.Contract, ctl, func(props []Prop, sig []byte, gas uint64, err error) {
				if err != nil {
					w.addNote("call data: " + err.Error())
				}
				w.submitted(props, sig)
			})
			executes[k] = evmexec.NewExecutor(h, ep, coord, &evmWorldBridge{BridgeContract: bc, w: w}, fetcher, &sync.RWMutex{}, c.Cap, c.Tg).Execute
		case "substrate":
			pl := pallet.NewPallet(&subclient.SubstrateClient{ChainID: big.NewInt(c.Chain)})
			executes[k] = subexec.NewExecutor(h, ep, coord, &subWorldPallet{p: pl, w: w}, fetcher, nil, &sync.RWMutex{}).Execute
		}
	}

	// prior phase: the same executors get the same delivery while no digest can be had
	if c.Prior != "" {
		if !runPrior(c, w, ctl, executes) {
			w.mu.Lock()
			defer w.mu.Unlock()
			o := Obs{Crashed: w.crashed, Note: strings.Join(append(w.note, w.info...), "; ")}
			// every value that came back from the bridge without an error while the RPC was down: the executors hand
			// what the bridge returns to signing.NewSigning under the session id of that batch
			for _, h := range w.hashes {
				sid := "?"
				for i, b := range batches {
					if sameProps(b, h.props) {
						sid = sids[i]
					}
				}
				o.Sessions = append(o.Sessions, SessObs{Sid: sid + " (endpoint down)", Batch: h.props, Signed: hex.EncodeToString(h.digest), Submitted: h.props})
			}
			return o
		}
	}

	if c.Sched == "p1" {
		old := runtime.GOMAXPROCS(1)
		var once sync.Once
		w.onAllIn = func() { once.Do(func() { runtime.GOMAXPROCS(old) }) }
		defer w.onAllIn()
	}

	for k := 0; k < relayers; k++ {
		execute, ps := executes[k], execProposals(c)
		go func() {
			// conc re-raises the panic of a batch goroutine from Wait, i.e. from Execute
			defer func() { w.executeEnded(recover()) }()
			_ = execute(ps)
		}()
	}

	// one session at a time
	complete := true
	seen := 0
	for k := range sids {
		w.hub.open(k)
		deadline := time.After(60 * time.Second)
		got := false
		for !got {
			w.mu.Lock()
			got = len(w.subs) > seen
			w.mu.Unlock()
			if got {
				break
			}
			select {
			case <-w.subCh:
			case <-w.allDone:
				// nobody is left who could submit (on the repository's code Execute does not return while a
				// session of it is waiting for its turn)
				w.addNote("every Execute had ended while session " + sids[k] + " was open and nothing was submitted")
				complete = false
				got = true
			case <-deadline:
				w.addNote("no submission while session " + sids[k] + " was open")
				complete = false
				got = true
			}
		}
		if !complete {
			break
		}
		// a second submission of the same session would follow at once (same goroutine); give it a moment
		time.Sleep(20 * time.Millisecond)
		w.mu.Lock()
		seen = len(w.subs)
		// the submission is on the chain: the batch of this session counts as executed from now on (the
		// goroutines of the session end at their next execution check)
		for _, p := range batches[k] {
			w.executed[pkey{p.Origin, p.Nonce}] = true
		}
		w.mu.Unlock()
	}
	w.hub.open(len(sids))

	// release everybody: the whole delivery counts as executed now
	w.mu.Lock()
	for _, p := range c.Props {
		w.executed[pkey{p.Origin, p.Nonce}] = true
	}
	w.mu.Unlock()
	select {
	case <-w.allDone:
	case <-time.After(30 * time.Second):
		w.addNote("Executor.Execute did not return")
		complete = false
	}

	w.mu.Lock()
	defer w.mu.Unlock()
	// candidates for "the value that was signed": every digest a bridge returned during the case, and
	// (should an executor ever obtain its digests elsewhere) the real code's digest of every batch and
	// of everything that was submitted
	var cands [][]byte
	for _, h := range w.hashes {
		cands = append(cands, h.digest)
	}
	own := func(ps []Prop) {
		var d []byte
		var err error
		if c.Via == "evm" {
			d, err = newEvmBridge(c.Chain, c.Contract, nil).ProposalsHash(proposals(ps))
		} else {
			d, err = pallet.NewPallet(&subclient.SubstrateClient{ChainID: big.NewInt(c.Chain)}).ProposalsHash(proposals(ps))
		}
		if err == nil {
			cands = append(cands, d)
		}
	}
	for _, b := range batches {
		own(b)
	}
	for _, s := range w.subs {
		own(s.props)
	}
	var o Obs
	perWindow := map[int]int{}
	for _, s := range w.subs {
		perWindow[s.window]++
		if s.window >= len(sids) {
			w.note = append(w.note, "submission outside every session window")
			complete = false
			continue
		}
		o.Sessions = append(o.Sessions, SessObs{Sid: sids[s.window], Batch: batches[s.window], Signed: verifiedDigest(cands, s.sig), Submitted: s.props})
	}
	for k := range sids {
		if perWindow[k] != 1 {
			w.note = append(w.note, fmt.Sprintf("session %s: %d submissions", sids[k], perWindow[k]))
			complete = false
		}
	}
	sort.SliceStable(o.Sessions, func(i, j int) bool { return o.Sessions[i].Sid < o.Sessions[j].Sid })
	o.Complete = complete && len(w.note) == 0
	o.Crashed = w.crashed
	o.Note = strings.Join(append(w.note, w.info...), "; ")
	return o
}

// runPrior: every relayer's Execute is called with the delivery while the digest cannot be had (EVM: the
// chain-id RPC of the real BridgeContract fails as c.Prior says; Substrate: the digest request fails).  On
// the repository's code every batch goroutine ends with that error at once and Execute returns it; no
// session comes into being.  All session traffic is held back meanwhile, so an executor that goes on to
// sign regardless cannot submit anything here.  false = an Execute did not come back (the case ends
// incomplete); a Go panic of an Execute is recorded like in the main phase.
func runPrior(c Case, w *execWorld, ctl *rpcCtl, executes []func([]*proposal.Proposal) error) bool {
	w.mu.Lock()
	w.prior, w.priorSub = true, c.Via == "substrate"
	w.mu.Unlock()
	if c.Via == "evm" {
		ctl.set(c.Prior)
	}
	w.hub.holdAll()
	type res struct {
		err error
		pnc interface{}
	}
	done := make(chan res, len(executes))
	for k := range executes {
		execute, ps := executes[k], execProposals(c)
		go func() {
			var r res
			defer func() {
				r.pnc = recover()
				done <- r
			}()
			r.err = execute(ps)
		}()
	}
	ok := true
	start := time.Now()
	tick := time.NewTicker(50 * time.Millisecond)
	defer tick.Stop()
	for n := 0; n < len(executes) && ok; {
		select {
		case r := <-done:
			n++
			if r.pnc != nil {
				w.mu.Lock()
				w.crashed = true
				w.note = append(w.note, "Executor.Execute panicked while the digest could not be had: "+firstLine(fmt.Sprint(r.pnc)))
				w.mu.Unlock()
			} else if r.err == nil && w.expected > 0 {
				w.mu.Lock()
				w.info = append(w.info, "Execute returned no error although the digest could not be had")
				w.mu.Unlock()
			}
		case <-tick.C:
			// an Execute that is still running 2 s after a digest came back although the RPC is down has gone on to
			// sign it (its session waits for the held traffic); otherwise the wait is 15 s
			w.mu.Lock()
			got := len(w.hashes) > 0
			w.mu.Unlock()
			if el := time.Since(start); el > 15*time.Second || (got && el > 2*time.Second) {
				w.addNote("Execute did not return while the digest could not be had")
				ok = false
			}
		}
	}
	ctl.set("")
	w.mu.Lock()
	w.prior, w.priorSub = false, false
	crashed := w.crashed
	w.mu.Unlock()
	w.hub.open(0)
	return ok && !crashed
}

// ---- submission without a session: the real executeBatch / executeProposal on a batch of which some
// members have become executed by the time the signature arrives ---------------------------------------

type flagBridge struct {
	executed map[pkey]bool
}

func (b *flagBridge) IsProposalExecuted(p *transfer.TransferProposal) (bool, error) {
	return b.executed[keyOfProp(p)], nil
}

type flagEvmBridge struct {
	*evmbridge.BridgeContract
	flagBridge
}

func (b *flagEvmBridge) IsProposalExecuted(p *transfer.TransferProposal) (bool, error) {
	return b.flagBridge.IsProposalExecuted(p)
}

type flagSubPallet struct {
	flagBridge
	recSubBridge
}

func (b *flagSubPallet) IsProposalExecuted(p *transfer.TransferProposal) (bool, error) {
	return b.flagBridge.IsProposalExecuted(p)
}

func runSubmit(c Case) Obs {
	var o Obs
	fb := flagBridge{executed: map[pkey]bool{}}
	for _, i := range c.Executed {
		fb.executed[pkey{c.Props[i].Origin, c.Props[i].Nonce}] = true
	}
	sig := func() *tssSig { return &tssSig{R: []byte{1}, S: []byte{2}, SignatureRecovery: []byte{0}} }
	wantSig := append(append(ethCommon.LeftPadBytes([]byte{1}, 32), ethCommon.LeftPadBytes([]byte{2}, 32)...), 27)
	o.PassedOK = true

	var evmProps []Prop
	calls := 0
	bc := newEvmBridge(c.Chain, c.Contract, func(props []Prop, s []byte, gas uint64, err error) {
		calls++
		evmProps = props
		if err != nil || !bytes.Equal(s, wantSig) || gas != 654321 {
			o.PassedOK = false
		}
	})
	if _, err := evmexec.VerifC02ExecuteBatch(&flagEvmBridge{BridgeContract: bc, flagBridge: fb}, proposals(c.Props), 654321, sig()); err != nil {
		panic(err)
	}
	o.SubEvm, o.PassedOK = evmProps, o.PassedOK && calls == 1

	sp := &flagSubPallet{flagBridge: fb}
	if _, _, err := subexec.VerifC02ExecuteProposal(sp, proposals(c.Props), sig()); err != nil {
		panic(err)
	}
	o.SubSub, o.PassedOK = valueOf(sp.props), o.PassedOK && sp.calls == 1 && bytes.Equal(sp.sig, wantSig)
	return o
}
