// C02 correspondence runner: drives the REAL chains.ProposalsHash, BridgeContract.ProposalsHash and
// Pallet.ProposalsHash (over fake clients) and the REAL signature assembly of the EVM executor's
// executeBatch and the Substrate executor's executeProposal (through add-only hooks, with recording
// bridges that capture the bytes passed to ExecuteProposals); histories and concurrent use of the
// digest functions (multi.go); the REAL Executor.Execute of both executors with real threshold
// signing, and submission of batches whose members became executed meanwhile (exec.go).
package main

import (
	"bytes"
	"context"
	"crypto/ecdsa"
	"encoding/hex"
	"fmt"
	"math/big"

	"github.com/ChainSafe/sygma-relayer/chains"
	evmbridge "github.com/ChainSafe/sygma-relayer/chains/evm/calls/contracts/bridge"
	evmexec "github.com/ChainSafe/sygma-relayer/chains/evm/executor"
	subexec "github.com/ChainSafe/sygma-relayer/chains/substrate/executor"
	"github.com/ChainSafe/sygma-relayer/chains/substrate/pallet"
	"github.com/ChainSafe/sygma-relayer/relayer/transfer"
	tsscommon "github.com/binance-chain/tss-lib/common"
	"github.com/centrifuge/go-substrate-rpc-client/v4/rpc/author"
	"github.com/centrifuge/go-substrate-rpc-client/v4/types"
	ethCommon "github.com/ethereum/go-ethereum/common"
	"github.com/ethereum/go-ethereum/crypto"
	"github.com/rs/zerolog"
	evmclient "github.com/sygmaprotocol/sygma-core/chains/evm/client"
	"github.com/sygmaprotocol/sygma-core/chains/evm/transactor"
	subclient "github.com/sygmaprotocol/sygma-core/chains/substrate/client"

	"verifharness/vgen"
)

// ---- case -------------------------------------------------------------------------------------

type Prop struct {
	Origin uint8  `json:"origin"`
	Nonce  uint64 `json:"nonce"`
	Rid    string `json:"rid"`  // hex, 32 bytes
	Data   string `json:"data"` // hex
	// exec (EVM): the gasLimit entry of the proposal's metadata (nil = no entry)
	Limit *uint64 `json:"limit,omitempty"`
}

type tssSig = tsscommon.SignatureData

type Case struct {
	Mode string `json:"mode"` // digest | sig | sigsyn | sigraw | kec | multi | hist | exec | execlite | submit
	// digest
	Via      string `json:"via,omitempty"` // direct | evm | substrate
	Version  string `json:"version,omitempty"`
	Chain    int64  `json:"chain,omitempty"`
	Contract string `json:"contract,omitempty"` // hex, 20 bytes
	Prefix   bool   `json:"prefix,omitempty"`   // direct: hand the contract over as "0x..." (else bare hex)
	Props    []Prop `json:"props,omitempty"`
	// sig: a real signature of Digest under Key
	Key    string `json:"key,omitempty"`
	Digest string `json:"digest,omitempty"`
	// sigsyn: r, s decimal, recovery id
	R     string `json:"r,omitempty"`
	S     string `json:"s,omitempty"`
	Recid uint8  `json:"recid,omitempty"`
	// sigraw: the three byte slices in hex (R, S above, Rec)
	Rec string `json:"rec,omitempty"`
	// kec
	Msg string `json:"msg,omitempty"`
	// multi: Tuples hashed in the order Order (indices, sequentially) or, with Workers > 0, by
	// Workers goroutines at the same time (worker w hashes tuple w mod len(Tuples), Iters times)
	Tuples  []Tuple `json:"tuples,omitempty"`
	Order   []int   `json:"order,omitempty"`
	Workers int     `json:"workers,omitempty"`
	Iters   int     `json:"iters,omitempty"`
	// exec: three relayers run the real Executor.Execute (Via evm | substrate; Chain, Contract) on the
	// delivery Props with message id Mid; EVM batching by Cap (transactionMaxGas) and Tg
	// (transferGasCost); Executed = positions executed at delivery, Flip = positions that become
	// executed right after a digest containing them has been computed; Sched "p1" = dispatch under
	// GOMAXPROCS(1).
	// submit: the real executeBatch / executeProposal on the batch Props when the positions Executed
	// are executed at the time the signature arrives
	Mid      string `json:"mid,omitempty"`
	Cap      uint64 `json:"cap,omitempty"`
	Tg       uint64 `json:"tg,omitempty"`
	Executed []int  `json:"executed,omitempty"`
	Flip     []int  `json:"flip,omitempty"`
	FailHash []int  `json:"fail_hash,omitempty"` // exec: the digest request for these (non-empty) batches fails at once
	Sched    string `json:"sched,omitempty"`
	// exec: before the delivery is executed as described above, the SAME executors are handed the same
	// delivery once while no digest can be had (EVM: the chain-id RPC behind the real BridgeContract fails in
	// the given way - nil | zero | other; Substrate: the digest request fails): that Execute ends with an
	// error, the message is retried when the endpoint is healthy again
	Prior string `json:"prior,omitempty"`
	// hist: long-lived digest objects (built once) and a history of digest requests on them (hist.go)
	Objs []HObj `json:"objs,omitempty"`
	Reqs []HReq `json:"reqs,omitempty"`
}

type Obs struct {
	Digest    string `json:"digest,omitempty"`
	Err       string `json:"err,omitempty"`
	R         string `json:"r,omitempty"`
	S         string `json:"s,omitempty"`
	Recid     uint8  `json:"recid,omitempty"`
	SigEvm    string `json:"sig_evm,omitempty"`
	SigSub    string `json:"sig_sub,omitempty"`
	PanicEvm  bool   `json:"panic_evm,omitempty"`
	PanicSub  bool   `json:"panic_sub,omitempty"`
	Recovered bool   `json:"recovered,omitempty"`
	PassedOK  bool   `json:"passed_ok,omitempty"` // proposals / gas limit reached ExecuteProposals unchanged
	// multi
	Seen []Seen `json:"seen,omitempty"`
	// hist
	Answers []HAns `json:"answers,omitempty"`
	// exec
	Sessions []SessObs `json:"sessions,omitempty"`
	Complete bool      `json:"complete,omitempty"`
	Crashed  bool      `json:"crashed,omitempty"` // exec / execlite: an Execute ended in a Go panic
	Note     string    `json:"note,omitempty"`
	// submit
	SubEvm []Prop `json:"sub_evm,omitempty"`
	SubSub []Prop `json:"sub_sub,omitempty"`
}

// ---- fakes -------------------------------------------------------------------------------------

type fakeEvmClient struct {
	evmclient.Client // nil: nothing else may be called
	id               *big.Int
	ctl              *rpcCtl // nil: the endpoint is always healthy
}

func (f *fakeEvmClient) ChainID(ctx context.Context) (*big.Int, error) {
	if f.ctl != nil {
		return f.ctl.chainID(f.id)
	}
	return f.id, nil
}

type recEvmBridge struct {
	sig   []byte
	props []*transfer.TransferProposal
	gas   uint64
	calls int
}

func (b *recEvmBridge) IsProposalExecuted(p *transfer.TransferProposal) (bool, error) {
	return false, nil
}
func (b *recEvmBridge) ProposalsHash(p []*transfer.TransferProposal) ([]byte, error) {
	return nil, nil
}
func (b *recEvmBridge) ExecuteProposals(p []*transfer.TransferProposal, sig []byte, o transactor.TransactOptions) (*ethCommon.Hash, error) {
	b.sig, b.props, b.gas = append([]byte{}, sig...), p, o.GasLimit
	b.calls++
	return &ethCommon.Hash{}, nil
}

type recSubBridge struct {
	sig   []byte
	props []*transfer.TransferProposal
	calls int
}

func (b *recSubBridge) IsProposalExecuted(p *transfer.TransferProposal) (bool, error) {
	return false, nil
}
func (b *recSubBridge) ProposalsHash(p []*transfer.TransferProposal) ([]byte, error) {
	return nil, nil
}
func (b *recSubBridge) TrackExtrinsic(types.Hash, *author.ExtrinsicStatusSubscription) error {
	return nil
}
func (b *recSubBridge) ExecuteProposals(p []*transfer.TransferProposal, sig []byte) (types.Hash, *author.ExtrinsicStatusSubscription, error) {
	b.sig, b.props = append([]byte{}, sig...), p
	b.calls++
	return types.Hash{}, nil, nil
}

// ---- driving the real code ---------------------------------------------------------------------

func unhex(s string) []byte {
	b, err := hex.DecodeString(s)
	if err != nil {
		panic("bad hex in case: " + s)
	}
	return b
}

func proposals(ps []Prop) []*transfer.TransferProposal {
	out := make([]*transfer.TransferProposal, len(ps))
	for i, p := range ps {
		var rid [32]byte
		copy(rid[:], unhex(p.Rid))
		out[i] = &transfer.TransferProposal{Source: p.Origin, Destination: 2, Data: transfer.TransferProposalData{
			DepositNonce: p.Nonce, ResourceId: rid, Data: unhex(p.Data)}}
	}
	return out
}

// assemble runs both real assembly sites on the given tss-lib style signature data.
func assemble(R, S, rec []byte) (o Obs) {
	props := proposals([]Prop{{Origin: 1, Nonce: 7, Rid: hex.EncodeToString(bytes.Repeat([]byte{3}, 32)), Data: "00"}})
	mk := func() *tsscommon.SignatureData {
		return &tsscommon.SignatureData{R: append([]byte{}, R...), S: append([]byte{}, S...), SignatureRecovery: append([]byte{}, rec...)}
	}
	eb := &recEvmBridge{}
	func() {
		defer func() {
			if r := recover(); r != nil {
				o.PanicEvm = true
			}
		}()
		if _, err := evmexec.VerifC02ExecuteBatch(eb, props, 123456, mk()); err != nil {
			panic(err)
		}
	}()
	sb := &recSubBridge{}
	func() {
		defer func() {
			if r := recover(); r != nil {
				o.PanicSub = true
			}
		}()
		if _, _, err := subexec.VerifC02ExecuteProposal(sb, props, mk()); err != nil {
			panic(err)
		}
	}()
	o.SigEvm, o.SigSub = hex.EncodeToString(eb.sig), hex.EncodeToString(sb.sig)
	o.PassedOK = (o.PanicEvm || (eb.calls == 1 && eb.gas == 123456 && len(eb.props) == 1 && eb.props[0] == props[0])) &&
		(o.PanicSub || (sb.calls == 1 && len(sb.props) == 1 && sb.props[0] == props[0]))
	return o
}

func keyOf(c Case) *ecdsa.PrivateKey {
	k, err := crypto.ToECDSA(unhex(c.Key))
	if err != nil {
		panic("bad key in case: " + err.Error())
	}
	return k
}

func run(c Case) Obs {
	switch c.Mode {
	case "kec":
		return Obs{Digest: hex.EncodeToString(crypto.Keccak256(unhex(c.Msg)))}
	case "digest":
		props := proposals(c.Props)
		var d []byte
		var err error
		switch c.Via {
		case "direct":
			contract := c.Contract
			if c.Prefix {
				contract = "0x" + contract
			}
			d, err = chains.ProposalsHash(props, c.Chain, contract, c.Version)
		case "evm":
			bc := evmbridge.NewBridgeContract(&fakeEvmClient{id: big.NewInt(c.Chain)}, ethCommon.BytesToAddress(unhex(c.Contract)), nil)
			d, err = bc.ProposalsHash(props)
		case "substrate":
			p := pallet.NewPallet(&subclient.SubstrateClient{ChainID: big.NewInt(c.Chain)})
			d, err = p.ProposalsHash(props)
		default:
			panic("via")
		}
		if err != nil {
			return Obs{Err: err.Error()}
		}
		return Obs{Digest: hex.EncodeToString(d)}
	case "sig":
		key := keyOf(c)
		digest := unhex(c.Digest)
		full, err := crypto.Sign(digest, key) // r(32) || s(32) || recid
		if err != nil {
			panic(err)
		}
		r := new(big.Int).SetBytes(full[:32])
		s := new(big.Int).SetBytes(full[32:64])
		// tss-lib hands over big.Int.Bytes(): leading zero bytes are gone
		o := assemble(r.Bytes(), s.Bytes(), []byte{full[64]})
		o.R, o.S, o.Recid = r.String(), s.String(), full[64]
		// what the contract does: ecrecover(digest, v, r, s) on the SUBMITTED bytes
		for _, sig := range []string{o.SigEvm, o.SigSub} {
			b := unhex(sig)
			ok := false
			if len(b) == 65 && (b[64] == 27 || b[64] == 28) {
				cp := append([]byte{}, b...)
				cp[64] -= 27
				pub, err := crypto.SigToPub(digest, cp)
				ok = err == nil && pub.X.Cmp(key.PublicKey.X) == 0 && pub.Y.Cmp(key.PublicKey.Y) == 0
			}
			if !ok {
				return o
			}
		}
		o.Recovered = true
		return o
	case "sigsyn":
		r, ok1 := new(big.Int).SetString(c.R, 10)
		s, ok2 := new(big.Int).SetString(c.S, 10)
		if !ok1 || !ok2 {
			panic("bad r/s")
		}
		o := assemble(r.Bytes(), s.Bytes(), []byte{c.Recid})
		o.R, o.S, o.Recid, o.Recovered = c.R, c.S, c.Recid, true
		return o
	case "sigraw":
		return assemble(unhex(c.R), unhex(c.S), unhex(c.Rec))
	case "multi":
		return runMulti(c)
	case "hist":
		return runHist(c)
	case "exec":
		return runExec(c)
	case "execlite":
		return runExecLite(c)
	case "submit":
		return runSubmit(c)
	}
	panic("unknown mode " + c.Mode)
}

// ---- generation ----------------------------------------------------------------------------------

var dataLens = []int{0, 1, 31, 32, 33, 135, 136, 137, 300}

func randProp(r *vgen.Rng) Prop {
	p := Prop{Origin: uint8(r.Intn(256)), Nonce: r.U64(), Rid: hex.EncodeToString(r.Bytes(32))}
	switch r.Intn(4) {
	case 0:
		p.Origin = vgen.Pick(r, []uint8{0, 1, 255})
	case 1:
		p.Nonce = vgen.Pick(r, []uint64{0, 1, 1<<64 - 1, 1 << 63, 255, 256})
	case 2:
		p.Rid = vgen.Pick(r, []string{hex.EncodeToString(make([]byte, 32)), hex.EncodeToString(bytes.Repeat([]byte{0xff}, 32)),
			"03" + hex.EncodeToString(make([]byte, 31)), hex.EncodeToString(make([]byte, 31)) + "01"})
	}
	n := vgen.Pick(r, dataLens)
	if r.Chance(1, 3) {
		n = r.Intn(200)
	}
	p.Data = hex.EncodeToString(r.Bytes(n))
	return p
}

func randContract(r *vgen.Rng) string {
	switch r.Intn(5) {
	case 0:
		return hex.EncodeToString(make([]byte, 20))
	case 1:
		return hex.EncodeToString(bytes.Repeat([]byte{0xff}, 20))
	case 2:
		return "00000000000000000000000000000000000000" + fmt.Sprintf("%02x", r.Intn(256))
	default:
		return hex.EncodeToString(r.Bytes(20))
	}
}

func randChain(r *vgen.Rng) int64 {
	switch r.Intn(4) {
	case 0:
		return vgen.Pick(r, []int64{0, 1, 5, 255, 256, 1<<63 - 1, 1 << 62, 11155111})
	case 1:
		return int64(r.U64() >> 1)
	default:
		return int64(r.Intn(100000))
	}
}

func shortSig(r *vgen.Rng, wantR, wantS bool) Case {
	// search (all randomness from r) for a key/digest whose signature has a short r and/or s
	for {
		c := Case{Mode: "sig", Key: hex.EncodeToString(r.Bytes(32)), Digest: hex.EncodeToString(r.Bytes(32))}
		k, err := crypto.ToECDSA(unhex(c.Key))
		if err != nil {
			continue
		}
		sig, err := crypto.Sign(unhex(c.Digest), k)
		if err != nil {
			continue
		}
		if (!wantR || sig[0] == 0) && (!wantS || sig[32] == 0) {
			return c
		}
	}
}

func gen(r *vgen.Rng, tier string) []Case {
	var out []Case
	thorough := tier == "thorough"
	mul := 1
	if thorough {
		mul = 15
	}
	// --- digests ------------------------------------------------------------------------------------
	// every batch length 0..5 through each of the three entry points
	for _, via := range []string{"direct", "evm", "substrate"} {
		for n := 0; n <= 5; n++ {
			c := Case{Mode: "digest", Via: via, Version: "3.1.0", Chain: randChain(r), Contract: randContract(r), Prefix: r.Bool()}
			for i := 0; i < n; i++ {
				c.Props = append(c.Props, randProp(r))
			}
			out = append(out, c)
		}
	}
	// every boundary data length in a one-proposal batch
	for _, n := range dataLens {
		p := randProp(r)
		p.Data = hex.EncodeToString(r.Bytes(n))
		out = append(out, Case{Mode: "digest", Via: vgen.Pick(r, []string{"direct", "evm", "substrate"}), Version: "3.1.0",
			Chain: randChain(r), Contract: randContract(r), Prefix: true, Props: []Prop{p}})
	}
	// neighbours: a base batch and single-field variations of it (each must hash like the model)
	for k := 0; k < 6*mul; k++ {
		base := Case{Mode: "digest", Via: "direct", Version: "3.1.0", Chain: randChain(r), Contract: randContract(r), Prefix: true,
			Props: []Prop{randProp(r), randProp(r)}}
		out = append(out, base)
		v := base
		v.Props = []Prop{base.Props[1], base.Props[0]} // order
		out = append(out, v)
		v = base
		v.Version = vgen.Pick(r, []string{"3.1.1", "3.1", "1", "3.1.0 ", "v3.1.0"})
		out = append(out, v)
		v = base
		v.Chain = base.Chain ^ 1
		out = append(out, v)
		v = base
		v.Via, v.Contract = "evm", randContract(r)
		out = append(out, v)
		v = base
		v.Via = "substrate"
		out = append(out, v)
	}
	for i := 0; i < 70*mul; i++ {
		c := Case{Mode: "digest", Via: vgen.Pick(r, []string{"direct", "evm", "evm", "substrate"}), Version: "3.1.0",
			Chain: randChain(r), Contract: randContract(r), Prefix: r.Bool()}
		n := r.Intn(6)
		for j := 0; j < n; j++ {
			c.Props = append(c.Props, randProp(r))
		}
		out = append(out, c)
	}
	var heavy []Case // kernel-heavy cases (several digests each): spread over the shards of cheap cases below
	// --- the digest is a function of its arguments only: histories and concurrent use ------------------
	smallProp := func() Prop {
		p := randProp(r)
		p.Data = hex.EncodeToString(r.Bytes(vgen.Pick(r, []int{0, 1, 20, 32, 40})))
		return p
	}
	smallBatch := func(n int) []Prop {
		var ps []Prop
		for i := 0; i < n; i++ {
			ps = append(ps, smallProp())
		}
		return ps
	}
	// tuples that differ pairwise in as little as possible: same contract on two chains, same chain
	// with two contracts, the same batch for an EVM and a Substrate destination, two batches for one
	// destination
	tuples := func(n int) []Tuple {
		chainA, chainB := int64(r.Range(1, 60000)), int64(r.Range(60001, 120000))
		cA, cB := hex.EncodeToString(r.Bytes(20)), hex.EncodeToString(r.Bytes(20))
		bA, bB := smallBatch(r.Range(1, 2)), smallBatch(r.Range(1, 2))
		all := []Tuple{
			{Via: "evm", Version: "3.1.0", Chain: chainA, Contract: cA, Props: bA},
			{Via: "evm", Version: "3.1.0", Chain: chainB, Contract: cA, Props: bA},
			{Via: "substrate", Version: "3.1.0", Chain: chainA, Contract: cA, Props: bB},
			{Via: "evm", Version: "3.1.0", Chain: chainA, Contract: cB, Props: bB},
			{Via: "direct", Version: "3.1.0", Chain: chainB, Contract: cB, Prefix: true, Props: bA},
			{Via: "substrate", Version: "3.1.0", Chain: chainB, Contract: cA, Props: bA},
			{Via: "direct", Version: "3.1.1", Chain: chainA, Contract: cA, Props: []Prop{}},
			{Via: "evm", Version: "3.1.0", Chain: chainA, Contract: cA, Props: append(append([]Prop{}, bA...), bB...)},
		}
		r.Shuffle(len(all), func(i, j int) { all[i], all[j] = all[j], all[i] })
		return all[:n]
	}
	for k := 0; k < 2*mul; k++ {
		ts := tuples(4)
		// A, B, A again, then a random walk that visits everything
		order := []int{0, 1, 0, 2, 0, 3, 1}
		for i := 0; i < 8; i++ {
			order = append(order, r.Intn(len(ts)))
		}
		heavy = append(heavy, Case{Mode: "multi", Tuples: ts, Order: order})
	}
	for k := 0; k < 2*mul; k++ {
		n := vgen.Pick(r, []int{4, 6})
		heavy = append(heavy, Case{Mode: "multi", Tuples: tuples(n), Workers: vgen.Pick(r, []int{4, 8, 12, 16}), Iters: 1500})
	}
	// --- what is signed for a session and what is submitted with the signature ---------------------------
	// the real executeBatch / executeProposal on a batch of which members are executed when the
	// signature arrives
	for k := 0; k < 6*mul; k++ {
		n := r.Range(2, 4)
		c := Case{Mode: "submit", Chain: randChain(r), Contract: randContract(r), Props: smallBatch(n)}
		if k%2 == 0 {
			// two transfers with the same deposit nonce from different origin domains
			c.Props[n-1].Nonce, c.Props[n-1].Origin = c.Props[0].Nonce, c.Props[0].Origin^1
		}
		switch k % 3 {
		case 0:
			c.Executed = []int{r.Intn(n)}
		case 1:
			for i := 0; i < n; i++ {
				if i != 0 && r.Bool() {
					c.Executed = append(c.Executed, i)
				}
			}
			c.Executed = append([]int{0}, c.Executed...)
		default:
			for i := 0; i < n; i++ {
				c.Executed = append(c.Executed, i)
			}
		}
		heavy = append(heavy, c)
	}
	// three relayers run the real Execute with real threshold signing
	// deliveries with pairwise distinct (origin, nonce) keys, nonces in no particular order
	distinctProp := func(have []Prop) Prop {
		for {
			p := smallProp()
			p.Origin, p.Nonce = uint8(r.Range(1, 3)), uint64(r.Range(1, 40))
			if len(have) == 1 {
				// two transfers with the same deposit nonce from different origin domains
				p.Origin, p.Nonce = have[0].Origin+1, have[0].Nonce
			}
			dup := false
			for _, q := range have {
				dup = dup || (q.Origin == p.Origin && q.Nonce == p.Nonce)
			}
			if !dup {
				return p
			}
		}
	}
	execEvm := func(nBatches, per int, sched string, flips bool, failHash ...int) Case {
		c := Case{Mode: "exec", Via: "evm", Mid: vgen.Pick(r, []string{"m", "msg-7", "a-1"}), Chain: randChain(r), Contract: randContract(r),
			Tg: 100, Cap: uint64(per)*100 + 50, Sched: sched, FailHash: failHash}
		n := nBatches * per
		for i := 0; i < n; i++ {
			c.Props = append(c.Props, distinctProp(c.Props))
		}
		if flips && per > 1 {
			// at most per-1 members of a batch become executed between hashing and the signature
			for b := 0; b < nBatches; b++ {
				if b == 0 || r.Bool() {
					c.Flip = append(c.Flip, b*per+r.Intn(per))
				}
			}
		}
		return c
	}
	execSub := func(n int, flips bool) Case {
		c := Case{Mode: "exec", Via: "substrate", Mid: vgen.Pick(r, []string{"m", "sub-3"}), Chain: randChain(r)}
		for i := 0; i < n; i++ {
			c.Props = append(c.Props, distinctProp(c.Props))
		}
		if n > 1 && r.Bool() {
			c.Executed = []int{r.Intn(n)} // already executed at delivery: not part of the batch
		}
		if flips {
			for i := 0; i < n; i++ {
				if len(c.Executed) > 0 && c.Executed[0] == i {
					continue
				}
				c.Flip = append(c.Flip, i)
			}
			c.Flip = c.Flip[:len(c.Flip)-1] // never the whole batch
			if len(c.Flip) > 1 && r.Bool() {
				c.Flip = c.Flip[1:]
			}
		}
		return c
	}
	// over-cap proposals (gasLimit metadata): with the FIRST PENDING proposal alone reaching the cap the batch
	// list starts with an empty batch ([<empty>, {p}, ...]: the sessions are <mid>-1, <mid>-2, ...); elsewhere
	// the proposal gets a batch of its own.  lead = proposals executed at delivery in front of it.
	execEvmBig := func(n, per, big, lead int, sched string) Case {
		c := execEvm(1, n, sched, false)
		c.Cap = uint64(per)*100 + 50
		l := c.Cap - uint64(r.Intn(100))
		c.Props[big].Limit = &l
		for i := 0; i < lead; i++ {
			c.Executed = append(c.Executed, i)
		}
		return c
	}
	heavy = append(heavy, execEvm(3, 2, "p1", false, 0), execEvm(2, 2, "", true), execSub(3, true),
		execEvmBig(4, 2, 1, 1, "p1"))
	// two of them as a RETRY: the same executors have been handed the delivery before, while no digest could be
	// had (no randomness is drawn for this)
	heavy[len(heavy)-3].Prior, heavy[len(heavy)-2].Prior = "nil", "sub"
	// the same without signing (one relayer): an over-cap proposal at every position
	for n := 2; n <= 4; n++ {
		for big := 0; big < n; big++ {
			if thorough || n == 3 || big == 0 {
				out = append(out, genExecLite(r, n, r.Range(1, 2), big, 0, smallProp))
			}
		}
		out = append(out, genExecLite(r, n+1, r.Range(1, 2), 1, 1, smallProp))
	}
	if thorough {
		heavy = append(heavy, execEvmBig(2, 1, 0, 0, ""), execEvmBig(3, 1, 0, 0, "p1"), execEvmBig(3, 2, 1, 0, ""), execEvmBig(4, 1, 2, 2, ""), execEvmBig(3, 2, 2, 0, "p1"))
		heavy = append(heavy, execSub(2, false), execEvm(3, 1, "p1", false, 0), execEvm(4, 2, "", true), execEvm(4, 2, "p1", true, 1), execEvm(3, 3, "p1", true),
			execSub(4, true), execSub(1, false))
		heavy[len(heavy)-6].Prior, heavy[len(heavy)-5].Prior, heavy[len(heavy)-3].Prior, heavy[len(heavy)-1].Prior = "zero", "other", "nil", "sub"
	}
	sigStart := len(out)
	// --- signatures -----------------------------------------------------------------------------------
	for i := 0; i < 60*mul; i++ {
		out = append(out, shortSig(r, false, false))
	}
	for i := 0; i < 40*mul; i++ {
		out = append(out, shortSig(r, true, false), shortSig(r, false, true))
	}
	if thorough {
		for i := 0; i < 20; i++ {
			out = append(out, shortSig(r, true, true))
		}
	}
	two := func(k uint) *big.Int { return new(big.Int).Lsh(big.NewInt(1), k) }
	edge := []*big.Int{big.NewInt(0), big.NewInt(1), big.NewInt(255), big.NewInt(256), two(8), two(128), two(247), two(248),
		new(big.Int).Sub(two(248), big.NewInt(1)), two(255), new(big.Int).Sub(two(256), big.NewInt(1)), new(big.Int).Sub(two(255), big.NewInt(19))}
	for _, a := range edge {
		for _, b := range []*big.Int{edge[1], edge[7], edge[10], r.BigBits(r.Range(1, 256))} {
			out = append(out, Case{Mode: "sigsyn", R: a.String(), S: b.String(), Recid: uint8(r.Intn(2))},
				Case{Mode: "sigsyn", R: b.String(), S: a.String(), Recid: uint8(r.Intn(2))})
		}
	}
	for i := 0; i < 150*mul; i++ {
		out = append(out, Case{Mode: "sigsyn", R: r.BigBits(r.Range(0, 256)).String(), S: r.BigBits(r.Range(0, 256)).String(), Recid: uint8(r.Intn(2))})
	}
	// as coded on arbitrary slices: over-long R/S, empty or multi-byte recovery, everything empty
	raws := [][3]string{{"", "", ""}, {"01", "02", ""}, {"", "", "00"}, {"", "", "01"}, {"", "", "e5"}, {"", "", "0001"},
		{hex.EncodeToString(bytes.Repeat([]byte{1}, 33)), "02", "00"}, {"02", hex.EncodeToString(bytes.Repeat([]byte{1}, 40)), "01"},
		{"00ff", "0000", "01"}, {hex.EncodeToString(bytes.Repeat([]byte{0xff}, 32)), hex.EncodeToString(bytes.Repeat([]byte{0xff}, 32)), "ff"}}
	for _, t := range raws {
		out = append(out, Case{Mode: "sigraw", R: t[0], S: t[1], Rec: t[2]})
	}
	for i := 0; i < 40*mul; i++ {
		out = append(out, Case{Mode: "sigraw", R: hex.EncodeToString(r.Bytes(r.Intn(36))), S: hex.EncodeToString(r.Bytes(r.Intn(36))),
			Rec: hex.EncodeToString(r.Bytes(r.Intn(3)))})
	}
	// --- keccak-256 validation ----------------------------------------------------------------------------
	for n := 0; n <= 300; n++ {
		out = append(out, Case{Mode: "kec", Msg: hex.EncodeToString(r.Bytes(n))})
	}
	for i := 0; i < 10*mul; i++ {
		out = append(out, Case{Mode: "kec", Msg: hex.EncodeToString(r.Bytes(r.Intn(700)))})
	}
	// --- histories on long-lived digest objects (generated last: the cases above do not move) -----------------
	for _, pl := range histPlans(r, thorough) {
		heavy = append(heavy, genHist(r, pl, smallProp))
	}
	// one heavy case per shard of signature cases
	for i, h := range heavy {
		pos := sigStart + shardSize/2 + i*shardSize
		if pos > len(out) {
			pos = len(out)
		}
		out = append(out[:pos], append([]Case{h}, out[pos:]...)...)
	}
	return out
}

// ---- Coq printing ----------------------------------------------------------------------------------

func hexLit(s string) string { return "\"" + s + "\"%string" }

func coqProp(p Prop) string {
	return fmt.Sprintf("(Build_proposal %d%%N %d%%N (unhex %s) (unhex %s))", p.Origin, p.Nonce, hexLit(p.Rid), hexLit(p.Data))
}

func optHex(panicked bool, s string) string {
	if panicked {
		return "None"
	}
	return "(Some " + hexLit(s) + ")"
}

func coq(c Case, o Obs) string {
	switch c.Mode {
	case "kec":
		return "Kec " + hexLit(c.Msg) + " " + hexLit(o.Digest)
	case "digest":
		via := map[string]string{"direct": "Direct", "evm": "Evm", "substrate": "Substrate"}[c.Via]
		return "Digest " + via + " " + vgen.Str(c.Version) + " " + fmt.Sprintf("%d%%N", c.Chain) + " " + hexLit(c.Contract) + " " +
			vgen.ListOf(c.Props, coqProp) + " " + hexLit(o.Digest)
	case "sig", "sigsyn":
		if o.PanicEvm || o.PanicSub {
			// the model has no panic for one-byte recovery ids: show it as an impossible signature
			return "Sig " + o.R + "%N " + o.S + "%N " + fmt.Sprintf("%d%%N", o.Recid) + " \"\"%string \"\"%string false"
		}
		return "Sig " + o.R + "%N " + o.S + "%N " + fmt.Sprintf("%d%%N", o.Recid) + " " + hexLit(o.SigEvm) + " " + hexLit(o.SigSub) + " " +
			vgen.Bool(o.Recovered && o.PassedOK)
	case "multi":
		return "Multi " + vgen.ListOf(c.Tuples, func(t Tuple) string {
			via := map[string]string{"direct": "Direct", "evm": "Evm", "substrate": "Substrate"}[t.Via]
			return "(Tup " + via + " " + vgen.Str(t.Version) + " " + fmt.Sprintf("%d%%N", t.Chain) + " " + hexLit(t.Contract) + " " + vgen.ListOf(t.Props, coqProp) + ")"
		}) + " " + vgen.ListOf(o.Seen, func(s Seen) string { return vgen.Pair(vgen.Nat(s.Idx), hexLit(s.Digest)) })
	case "hist":
		if len(o.Answers) != len(c.Reqs) {
			panic("hist: requests and answers differ in number")
		}
		var reqs []string
		for i, q := range c.Reqs {
			ho := c.Objs[q.Obj]
			via := map[string]string{"direct": "Direct", "evm": "Evm", "substrate": "Substrate"}[ho.Via]
			ans := "HErr"
			switch a := o.Answers[i]; {
			case a.Panic:
				ans = "HPanic"
			case !a.Err:
				ans = "(HDigest " + hexLit(a.Digest) + ")"
			}
			reqs = append(reqs, "HReq "+vgen.Nat(q.Obj)+" (Tup "+via+" "+vgen.Str(ho.Version)+" "+fmt.Sprintf("%d%%N", ho.Chain)+" "+hexLit(ho.Contract)+" "+
				vgen.ListOf(q.Props, coqProp)+") "+vgen.Bool(q.Fail != "" && ho.Via == "evm")+" "+ans)
		}
		return "Hist " + vgen.List(reqs)
	case "exec", "execlite":
		via := map[string]string{"evm": "Evm", "substrate": "Substrate"}[c.Via]
		return "Exec " + via + " " + fmt.Sprintf("%d%%N", c.Chain) + " " + hexLit(c.Contract) + " " + vgen.ListOf(o.Sessions, func(s SessObs) string {
			return "(Sess " + vgen.Str(s.Sid) + " " + vgen.ListOf(s.Batch, coqProp) + " " + hexLit(s.Signed) + " " + vgen.ListOf(s.Submitted, coqProp) + ")"
		}) + " " + vgen.Bool(o.Complete) + " " + vgen.Bool(o.Crashed)
	case "submit":
		return "Submit " + fmt.Sprintf("%d%%N", c.Chain) + " " + hexLit(c.Contract) + " " + vgen.ListOf(c.Props, coqProp) + " " +
			vgen.ListOf(o.SubEvm, coqProp) + " " + vgen.ListOf(o.SubSub, coqProp) + " " + vgen.Bool(o.PassedOK)
	case "sigraw":
		return "SigRaw " + hexLit(c.R) + " " + hexLit(c.S) + " " + hexLit(c.Rec) + " " + optHex(o.PanicEvm, o.SigEvm) + " " + optHex(o.PanicSub, o.SigSub)
	}
	panic("mode")
}

const shardSize = 24

func main() {
	zerolog.SetGlobalLevel(zerolog.Disabled)
	vgen.Main(vgen.Spec[Case, Obs]{
		Property:  "C02",
		RunModule: "C02",
		Gen:       gen,
		Run:       run,
		Coq:       coq,
		Kind: func(c Case) string {
			switch c.Mode {
			case "digest", "execlite":
				return c.Mode + "-" + c.Via
			case "exec":
				if c.Prior != "" {
					return "exec-" + c.Via + "-retry"
				}
				return "exec-" + c.Via
			case "hist":
				for _, q := range c.Reqs {
					if q.Fail != "" {
						return "hist-rpc-failures"
					}
				}
				return "hist-healthy"
			case "multi":
				if c.Workers > 0 {
					return "multi-concurrent"
				}
				return "multi-sequence"
			}
			return c.Mode
		},
		NonTrivial: func(c Case, o Obs) bool {
			switch c.Mode {
			case "digest":
				return len(c.Props) > 0
			case "kec":
				return len(c.Msg) > 0
			case "multi":
				return len(c.Tuples) > 1
			case "hist":
				// a digest came back after an earlier request of the same object had failed, or two digests
				for i, a := range o.Answers {
					if a.Digest != "" && i > 0 {
						return true
					}
				}
				return false
			case "exec":
				return len(o.Sessions) > 0
			case "execlite":
				return o.Complete || o.Crashed
			}
			return true
		},
		Rule:      "digest: batches of 0..5 proposals (data lengths 0,1,31,32,33,135,136,137,300 and random; domains 0/1/255; nonces 0/1/2^63/2^64-1; resource ids zero/ff/random) x chain ids (0,1,2^63-1,random) x contracts (zero, ff, random) through chains.ProposalsHash, BridgeContract.ProposalsHash and Pallet.ProposalsHash, plus base batches with single-field neighbours (order, version, chain id, contract); sig: real secp256k1 signatures (with forced leading-zero r / s) assembled by the real executeBatch and executeProposal and recovered with crypto.SigToPub; sigsyn: boundary and random r,s; sigraw: arbitrary slices as coded; kec: crypto.Keccak256 on every length 0..300; multi: 4-6 tuples differing pairwise in one component hashed by the real entry points in one process in a sequence with repetitions and by 4-16 goroutines concurrently; hist: 1-3 long-lived digest objects (one real BridgeContract over a scripted chain client, a second contract object sharing its chain id or address, a real Pallet, the package function) and 3-6 digest requests on them with freshly built neighbouring batches, the chain-id RPC failing ((nil,err) / (0,err) / (other id,err)) during the first request, the first two, a later one, flapping or never - every value returned without error against the model digest for the object's real chain id and contract; submit: the real executeBatch (through the real BridgeContract.ExecuteProposals, call data decoded) / executeProposal on 2-4-member batches with some or all members executed when the signature arrives; exec: three relayers run the real EVM / Substrate Executor.Execute with the real coordinator and real threshold ECDSA (multi-batch deliveries, GOMAXPROCS(1) dispatch with a failing digest request, members executed at delivery or between hashing and signature, equal nonces from different origins, an over-cap proposal as first pending proposal = a leading empty batch), per session the signed digest (ecrecover) and the submitted batch, and whether Execute crashed; two of the deliveries are RETRIES (the same executors got the delivery before while the chain-id RPC behind the real BridgeContract / the Substrate digest request failed); execlite: one relayer without peers runs the real EVM Execute on deliveries of 2..5 proposals with an over-cap proposal at every position (crash, digest requests). distinct = distinct input JSON; non-trivial = non-empty batch / non-empty message / every signature case",
		ShardSize: shardSize,
	})
}
