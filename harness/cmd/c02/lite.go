// Execute on deliveries with over-cap proposals at every position - in particular a LEADING EMPTY BATCH (the
// first pending proposal alone reaches transactionMaxGas: proposalBatches returns [<empty>, {p}, ...]) -
// without threshold signing: ONE relayer runs the REAL evm Executor.Execute with the real tss.Coordinator
// over a fake host and a communication object that never delivers anything (the sessions end at the
// coordinator's 1 ms time-outs), the digests come from the real BridgeContract.ProposalsHash.  Nothing can be
// signed, so no session is observed; observed: whether Execute crashed (a Go panic while the digests are
// obtained and handed over - conc re-raises the panic of a batch goroutine from Execute) and the batches
// whose digest was asked for (correspondence: every non-empty batch of the real proposalBatches, once).
package main

import (
	"fmt"
	"sort"
	"sync"
	"time"

	evmbridge "github.com/ChainSafe/sygma-relayer/chains/evm/calls/contracts/bridge"
	evmexec "github.com/ChainSafe/sygma-relayer/chains/evm/executor"
	"github.com/ChainSafe/sygma-relayer/comm/elector"
	"github.com/ChainSafe/sygma-relayer/config/relayer"
	"github.com/ChainSafe/sygma-relayer/relayer/transfer"
	"github.com/ChainSafe/sygma-relayer/tss"
	"github.com/libp2p/go-libp2p/core/peer"

	fk "verifharness/execfakes"
	"verifharness/vgen"
)

type liteBridge struct {
	*evmbridge.BridgeContract
	mu       sync.Mutex
	executed map[pkey]bool
	hashed   [][]Prop
}

func (b *liteBridge) IsProposalExecuted(p *transfer.TransferProposal) (bool, error) {
	b.mu.Lock()
	defer b.mu.Unlock()
	return b.executed[keyOfProp(p)], nil
}

func (b *liteBridge) ProposalsHash(ps []*transfer.TransferProposal) ([]byte, error) {
	b.mu.Lock()
	b.hashed = append(b.hashed, valueOf(ps))
	b.mu.Unlock()
	return b.BridgeContract.ProposalsHash(ps)
}

func propsKey(ps []Prop) string {
	s := ""
	for _, p := range ps {
		s += fmt.Sprintf("%d/%d/%s/%s;", p.Origin, p.Nonce, p.Rid, p.Data)
	}
	return s
}

func runExecLite(c Case) Obs {
	mk := func() (*evmexec.Executor, *liteBridge) {
		host := fk.NewHost()
		cm := &fk.Comm{}
		coord := tss.NewCoordinator(host, cm, elector.NewCoordinatorElectorFactory(host, relayer.BullyConfig{}))
		coord.TssTimeout, coord.CoordinatorTimeout, coord.InitiatePeriod = time.Millisecond, time.Millisecond, time.Hour
		lb := &liteBridge{BridgeContract: newEvmBridge(c.Chain, c.Contract, func([]Prop, []byte, uint64, error) {}), executed: map[pkey]bool{}}
		for _, i := range c.Executed {
			lb.executed[pkey{c.Props[i].Origin, c.Props[i].Nonce}] = true
		}
		return evmexec.NewExecutor(host, cm, coord, lb, &fk.Fetcher{Peers: []peer.ID{host.ID()}}, &sync.RWMutex{}, c.Cap, c.Tg), lb
	}
	// the non-empty batches of the real proposalBatches
	var want []string
	{
		ex, _ := mk()
		bs, err := ex.VerifC02Batches(execProposals(c))
		if err != nil {
			panic("C02 runner: proposalBatches failed: " + err.Error())
		}
		for _, b := range bs {
			if len(b) > 0 {
				want = append(want, propsKey(valueOf(b)))
			}
		}
	}
	ex, lb := mk()
	var o Obs
	type end struct{ pnc interface{} }
	done := make(chan end, 1)
	go func() {
		defer func() { done <- end{recover()} }()
		_ = ex.Execute(execProposals(c))
	}()
	returned := false
	select {
	case e := <-done:
		returned = true
		if e.pnc != nil {
			o.Crashed = true
			o.Note = "Executor.Execute panicked: " + firstLine(fmt.Sprint(e.pnc))
		}
	case <-time.After(60 * time.Second):
		o.Note = "Executor.Execute did not return"
	}
	lb.mu.Lock()
	var got []string
	for _, h := range lb.hashed {
		got = append(got, propsKey(h))
	}
	lb.mu.Unlock()
	sort.Strings(want)
	sort.Strings(got)
	same := len(want) == len(got)
	for i := 0; same && i < len(want); i++ {
		same = want[i] == got[i]
	}
	if !same && o.Note == "" {
		o.Note = fmt.Sprintf("digests asked for %d batches, the delivery has %d non-empty ones (or other ones)", len(got), len(want))
	}
	o.Complete = returned && !o.Crashed && same
	return o
}

// genExecLite: n proposals of gas 100 under a cap that takes `per` of them; the proposal at position `big`
// alone reaches the cap (gasLimit metadata); with lead > 0 the first `lead` proposals are executed already
// (the over-cap proposal is then the first PENDING one when big == lead).
func genExecLite(r *vgen.Rng, n, per, big, lead int, smallProp func() Prop) Case {
	c := Case{Mode: "execlite", Via: "evm", Mid: vgen.Pick(r, []string{"m", "1-2-101-101"}), Chain: randChain(r), Contract: randContract(r),
		Tg: 100, Cap: uint64(per)*100 + 50}
	for i := 0; i < n; i++ {
		p := smallProp()
		p.Origin, p.Nonce = uint8(1+i%2), uint64(10+i)
		if i == big {
			l := c.Cap - uint64(r.Intn(100)) // limit + transfer gas >= cap
			p.Limit = &l
		}
		c.Props = append(c.Props, p)
	}
	for i := 0; i < lead && i < n; i++ {
		c.Executed = append(c.Executed, i)
	}
	return c
}
