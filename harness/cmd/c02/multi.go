// "The digest is a function of its arguments only": several (entry point, version, chain id,
// contract, batch) tuples are hashed by the real code in ONE process, either one after the other in
// a given order with repetitions (A, B, A again must give A's digest: nothing that was hashed before
// may leak into a later digest) or CONCURRENTLY (parallel batches of one executor, executors of
// different destination chains: every worker hashes ITS tuple in a tight loop while the others hash
// theirs).  Observation: the distinct digests seen per tuple; the kernel compares each of them with
// the model digest of that tuple's arguments.
package main

import (
	"encoding/hex"
	"math/big"
	"sort"
	"sync"

	"github.com/ChainSafe/sygma-relayer/chains"
	evmbridge "github.com/ChainSafe/sygma-relayer/chains/evm/calls/contracts/bridge"
	"github.com/ChainSafe/sygma-relayer/chains/substrate/pallet"
	ethCommon "github.com/ethereum/go-ethereum/common"
	subclient "github.com/sygmaprotocol/sygma-core/chains/substrate/client"
)

type Tuple struct {
	Via      string `json:"via"` // direct | evm | substrate
	Version  string `json:"version"`
	Chain    int64  `json:"chain"`
	Contract string `json:"contract"`
	Prefix   bool   `json:"prefix,omitempty"`
	Props    []Prop `json:"props"`
}

// Seen: tuple index and a digest the real code returned for it ("" = an error was returned).
type Seen struct {
	Idx    int    `json:"idx"`
	Digest string `json:"digest"`
}

// hasher returns the function that asks the real code for the digest of t.  The contract object /
// pallet of a tuple is built once (as a relayer does), the proposals are shared by all calls.
func hasher(t Tuple) func() ([]byte, error) {
	props := proposals(t.Props)
	switch t.Via {
	case "direct":
		contract := t.Contract
		if t.Prefix {
			contract = "0x" + contract
		}
		return func() ([]byte, error) { return chains.ProposalsHash(props, t.Chain, contract, t.Version) }
	case "evm":
		bc := evmbridge.NewBridgeContract(&fakeEvmClient{id: big.NewInt(t.Chain)}, ethCommon.BytesToAddress(unhex(t.Contract)), nil)
		return func() ([]byte, error) { return bc.ProposalsHash(props) }
	case "substrate":
		p := pallet.NewPallet(&subclient.SubstrateClient{ChainID: big.NewInt(t.Chain)})
		return func() ([]byte, error) { return p.ProposalsHash(props) }
	}
	panic("via")
}

const maxDistinctPerTuple = 3

func runMulti(c Case) Obs {
	hs := make([]func() ([]byte, error), len(c.Tuples))
	for i, t := range c.Tuples {
		hs[i] = hasher(t)
	}
	seen := make([]map[string]bool, len(c.Tuples))
	for i := range seen {
		seen[i] = map[string]bool{}
	}
	var mu sync.Mutex
	note := func(i int, d []byte, err error) {
		s := hex.EncodeToString(d)
		if err != nil {
			s = ""
		}
		mu.Lock()
		if len(seen[i]) < maxDistinctPerTuple {
			seen[i][s] = true
		}
		mu.Unlock()
	}
	if c.Workers == 0 {
		for _, i := range c.Order {
			d, err := hs[i]()
			note(i, d, err)
		}
	} else {
		start := make(chan struct{})
		var wg sync.WaitGroup
		for w := 0; w < c.Workers; w++ {
			i := w % len(c.Tuples)
			wg.Add(1)
			go func() {
				defer wg.Done()
				<-start
				var last string
				for k := 0; k < c.Iters; k++ {
					d, err := hs[i]()
					// only a result that differs from the previous one of this worker needs the lock
					if s := string(d); k == 0 || err != nil || s != last {
						note(i, d, err)
						last = s
					}
				}
			}()
		}
		close(start)
		wg.Wait()
	}
	var o Obs
	for i, m := range seen {
		var ds []string
		for d := range m {
			ds = append(ds, d)
		}
		sort.Strings(ds)
		for _, d := range ds {
			o.Seen = append(o.Seen, Seen{Idx: i, Digest: d})
		}
	}
	return o
}
