// Histories on LONG-LIVED digest objects (mode hist).  A relayer builds ONE BridgeContract per EVM
// destination and ONE Pallet per Substrate destination and asks them for the digest of every batch for
// as long as it runs; the endpoint behind the contract object is not always healthy.  What an object
// answered, or failed to answer, earlier must not enter a later digest: every value that comes back
// WITHOUT an error goes to threshold signing and has to be the EIP-712 digest for the REAL chain id and
// contract of that object and the batch of THAT request.
//
// A case builds 1..3 objects once (real evmbridge.BridgeContract over a scripted chain client, real
// pallet.Pallet, or the package function chains.ProposalsHash as a stateless "object") and plays 2..6
// digest requests on them, each with freshly built proposals (as the executors hand them over).  While
// a request is served the RPC the digest needs (eth_chainId) is healthy or fails in one of the ways a
// client library fails: (nil, err), (0, err), (some other id, err).  Observed per request: the digest,
// an error, or a Go panic; and (informational) how many chain-id calls the request made.
package main

import (
	"encoding/hex"
	"errors"
	"math/big"
	"sync"

	"github.com/ChainSafe/sygma-relayer/chains"
	evmbridge "github.com/ChainSafe/sygma-relayer/chains/evm/calls/contracts/bridge"
	"github.com/ChainSafe/sygma-relayer/chains/substrate/pallet"
	"github.com/ChainSafe/sygma-relayer/relayer/transfer"
	ethCommon "github.com/ethereum/go-ethereum/common"
	subclient "github.com/sygmaprotocol/sygma-core/chains/substrate/client"

	"verifharness/vgen"
)

// HObj: one long-lived digest object.
type HObj struct {
	Via      string `json:"via"` // evm | substrate | direct
	Version  string `json:"version,omitempty"`
	Chain    int64  `json:"chain"`
	Contract string `json:"contract,omitempty"`
	Prefix   bool   `json:"prefix,omitempty"`
}

// HReq: one digest request.  Fail: how the chain-id RPC behaves while this request is served
// ("" healthy | "nil" (nil, err) | "zero" (0, err) | "other" (another id, err)); only EVM objects make one.
type HReq struct {
	Obj   int    `json:"obj"`
	Props []Prop `json:"props"`
	Fail  string `json:"fail,omitempty"`
}

type HAns struct {
	Digest string `json:"digest,omitempty"`
	Err    bool   `json:"err,omitempty"`
	Panic  bool   `json:"panic,omitempty"`
	Calls  int    `json:"calls,omitempty"` // chain-id calls made while the request was served
}

var errScriptedRPC = errors.New("C02 runner: scripted eth_chainId failure")

// rpcCtl scripts the chain-id RPC of one fake client.
type rpcCtl struct {
	mu    sync.Mutex
	fail  string
	calls int
}

func (c *rpcCtl) set(fail string) {
	c.mu.Lock()
	c.fail, c.calls = fail, 0
	c.mu.Unlock()
}

func (c *rpcCtl) count() int {
	c.mu.Lock()
	defer c.mu.Unlock()
	return c.calls
}

// answer of the scripted endpoint for the chain id `id`
func (c *rpcCtl) chainID(id *big.Int) (*big.Int, error) {
	c.mu.Lock()
	c.calls++
	fail := c.fail
	c.mu.Unlock()
	switch fail {
	case "":
		return new(big.Int).Set(id), nil
	case "nil":
		return nil, errScriptedRPC
	case "zero":
		return big.NewInt(0), errScriptedRPC
	case "other":
		return new(big.Int).Add(id, big.NewInt(1)), errScriptedRPC
	}
	panic("C02 runner: unknown failure mode " + fail)
}

func runHist(c Case) Obs {
	type object struct {
		hash func([]*transfer.TransferProposal) ([]byte, error)
		ctl  *rpcCtl
	}
	objs := make([]object, len(c.Objs))
	for i, ho := range c.Objs {
		ho := ho
		switch ho.Via {
		case "evm":
			ctl := &rpcCtl{}
			bc := evmbridge.NewBridgeContract(&fakeEvmClient{id: big.NewInt(ho.Chain), ctl: ctl}, ethCommon.BytesToAddress(unhex(ho.Contract)), nil)
			objs[i] = object{hash: bc.ProposalsHash, ctl: ctl}
		case "substrate":
			p := pallet.NewPallet(&subclient.SubstrateClient{ChainID: big.NewInt(ho.Chain)})
			objs[i] = object{hash: p.ProposalsHash}
		case "direct":
			contract := ho.Contract
			if ho.Prefix {
				contract = "0x" + contract
			}
			objs[i] = object{hash: func(ps []*transfer.TransferProposal) ([]byte, error) {
				return chains.ProposalsHash(ps, ho.Chain, contract, ho.Version)
			}}
		default:
			panic("hist via")
		}
	}
	var o Obs
	for _, q := range c.Reqs {
		ob := objs[q.Obj]
		if ob.ctl != nil {
			ob.ctl.set(q.Fail)
		}
		var a HAns
		func() {
			defer func() {
				if r := recover(); r != nil {
					a = HAns{Panic: true}
				}
			}()
			d, err := ob.hash(proposals(q.Props)) // fresh proposal objects for every request
			if err != nil {
				a.Err = true
			} else {
				a.Digest = hex.EncodeToString(d)
			}
		}()
		if ob.ctl != nil {
			a.Calls = ob.ctl.count()
			ob.ctl.set("")
		}
		o.Answers = append(o.Answers, a)
	}
	return o
}

// ---- generation ------------------------------------------------------------------------------------

// histNeighbour: a batch that differs from b in little (what a memo keyed on too little would confuse).
func histNeighbour(r *vgen.Rng, b []Prop, fresh func() Prop) []Prop {
	nb := append([]Prop{}, b...)
	if len(nb) == 0 {
		return []Prop{fresh()}
	}
	i := r.Intn(len(nb))
	switch r.Intn(7) {
	case 0: // same nonces and origins, other data
		nb[i].Data = hex.EncodeToString(r.Bytes(vgen.Pick(r, []int{0, 1, 32})))
	case 1: // same length, another nonce
		nb[i].Nonce ^= 1
	case 2: // another resource id
		nb[i].Rid = hex.EncodeToString(r.Bytes(32))
	case 3: // one member more
		nb = append(nb, fresh())
	case 4: // one member fewer (possibly the empty batch)
		nb = append(nb[:i], nb[i+1:]...)
	case 5: // the same members in another order
		if len(nb) > 1 {
			nb[0], nb[len(nb)-1] = nb[len(nb)-1], nb[0]
		} else {
			nb[i].Origin ^= 1
		}
	default: // the same batch again
	}
	return nb
}

// histPlan: per request how the chain-id RPC fails ("" = healthy) and which object it goes to (-1: the first
// object for a failing request, any object otherwise); nobjs objects; second = what the second object is
// ("chain": a contract object with the same address on another chain, "addr": another address on the same
// chain, "": any of these, a pallet or the package function).
type histPlan struct {
	fails  []string
	objs   []int
	nobjs  int
	second string
}

// genHist: the first object is always an EVM contract object (the only kind with an RPC behind its digest).
// Consecutive requests ask for neighbouring batches.
func genHist(r *vgen.Rng, pl histPlan, fresh func() Prop) Case {
	chain := randChain(r)
	if chain == 0 {
		chain = 1 // a digest for chain id 0 must be distinguishable from the right one
	}
	contract := hex.EncodeToString(r.Bytes(20))
	c := Case{Mode: "hist", Objs: []HObj{{Via: "evm", Chain: chain, Contract: contract}}}
	others := []HObj{
		{Via: "evm", Chain: chain ^ 1, Contract: contract},
		{Via: "evm", Chain: chain, Contract: hex.EncodeToString(r.Bytes(20))},
		{Via: "substrate", Chain: chain},
		{Via: "direct", Version: "3.1.0", Chain: chain ^ 2, Contract: contract, Prefix: true},
	}
	r.Shuffle(len(others), func(i, j int) { others[i], others[j] = others[j], others[i] })
	want := map[string]int{"chain": 0, "addr": 1}
	if k, ok := want[pl.second]; ok {
		for i := range others {
			if others[i].Via == "evm" && (k == 0) == (others[i].Chain != chain) {
				others[0], others[i] = others[i], others[0]
			}
		}
	}
	c.Objs = append(c.Objs, others[:pl.nobjs-1]...)
	batch := []Prop{fresh()}
	if r.Bool() {
		batch = append(batch, fresh())
	}
	for k, f := range pl.fails {
		q := HReq{Fail: f}
		switch {
		case k < len(pl.objs) && pl.objs[k] >= 0:
			q.Obj = pl.objs[k]
		case f == "" && k != 0 && k != len(pl.fails)-1 && pl.nobjs > 1 && r.Bool():
			q.Obj = r.Range(1, pl.nobjs-1)
		}
		if c.Objs[q.Obj].Via != "evm" {
			q.Fail = "" // no RPC behind that digest
		}
		if k > 0 {
			batch = histNeighbour(r, batch, fresh)
		}
		q.Props = append([]Prop{}, batch...)
		c.Reqs = append(c.Reqs, q)
	}
	return c
}

// histPlans: the first request of an object fails (each way of failing), the first two, a later one, the
// first request of the second object after the first object has learnt its chain id, flapping, healthy
// throughout.
func histPlans(r *vgen.Rng, thorough bool) []histPlan {
	f := func() string { return vgen.Pick(r, []string{"nil", "zero", "other"}) }
	out := []histPlan{
		{fails: []string{"nil", "", ""}, nobjs: 1},
		{fails: []string{"zero", "", "", ""}, nobjs: 2},
		{fails: []string{"other", "", ""}, nobjs: 3},
		{fails: []string{f(), f(), "", ""}, nobjs: 1},
		{fails: []string{"", f(), "", ""}, nobjs: 2},
		{fails: []string{"", f(), "", "", ""}, objs: []int{0, 1, 0, 1, 0}, nobjs: 2, second: "chain"},
		{fails: []string{f(), "", f(), "", f(), ""}, nobjs: 1},
		{fails: []string{"", "", "", ""}, nobjs: 3},
	}
	if thorough {
		for i := 0; i < 40; i++ {
			n := r.Range(2, 6)
			pl := histPlan{fails: make([]string, n), objs: make([]int, n), nobjs: r.Range(1, 3), second: vgen.Pick(r, []string{"", "chain", "addr"})}
			for k := range pl.fails {
				pl.objs[k] = -1
				if r.Chance(1, 3) {
					pl.fails[k] = f()
					if r.Bool() {
						pl.objs[k] = r.Intn(pl.nobjs)
					}
				}
			}
			pl.fails[n-1] = ""
			out = append(out, pl)
		}
	}
	return out
}
