// C08 correspondence runner.
//
// Glue cases drive the repository's real helper functions (ECDSA signing's processEndMessage,
// PartiesFromPeers / CreatePartyID, resharing's sortParties and unmarshallStartParams /
// validateStartParams; unexported ones through the add-only hooks in harness/hooks/C08).
//
// Release cases run it against result channels of capacity 0 / 1 / 2 / 8 with a parked and with a late
// reader (the value must reach whoever reads the channel, whenever they read).
//
// Scenario cases run the REAL tss processes in-process (proto.go, session.go): start from the repository's
// fixture key shares or from a real key generation, optionally refresh (resharing with join / leave /
// threshold change) and let every threshold+1 subset of the committee sign.  After every stage the
// scalar shares are read back from the key-share files written by the repository's own storers and
// handed to the Coq side, which reconstructs the secret for every threshold+1 subset with the
// executable reconstruct_Zq; Go verifies x*G against the stored public key and every released
// signature against it (EC arithmetic is not modelled in Coq, these enter as booleans).
package main

import (
	"crypto/sha256"
	"encoding/binary"
	"encoding/hex"
	"encoding/json"
	"flag"
	"fmt"
	"math/big"
	"os"
	"path/filepath"
	"strings"
	"sync"
	"time"

	ecommon "github.com/ChainSafe/sygma-relayer/tss/ecdsa/common"
	ekeygen "github.com/ChainSafe/sygma-relayer/tss/ecdsa/keygen"
	eresharing "github.com/ChainSafe/sygma-relayer/tss/ecdsa/resharing"
	esigning "github.com/ChainSafe/sygma-relayer/tss/ecdsa/signing"
	fkeygen "github.com/ChainSafe/sygma-relayer/tss/frost/keygen"
	fresharing "github.com/ChainSafe/sygma-relayer/tss/frost/resharing"
	fsigning "github.com/ChainSafe/sygma-relayer/tss/frost/signing"
	tssutil "github.com/ChainSafe/sygma-relayer/tss/util"
	tsscommon "github.com/binance-chain/tss-lib/common"
	"github.com/btcsuite/btcd/btcec/v2"
	"github.com/btcsuite/btcd/btcec/v2/schnorr"
	"github.com/btcsuite/btcd/chaincfg/chainhash"
	"github.com/btcsuite/btcd/txscript"
	ethcrypto "github.com/ethereum/go-ethereum/crypto"
	"github.com/libp2p/go-libp2p/core/peer"

	"verifharness/c08fakes"
	"verifharness/vgen"
)

type Reshare struct {
	Members []int `json:"members"` // indexes into the peer universe (0..3 = the repo's fixture peers)
	T       int   `json:"t"`
	// Abandon (abandon.go): the processes of this refresh (Op keygen: of a key generation) are
	// constructed on the members' long-lived stores and then given up - stop (Stop without Run) | cancel
	// (Run with a context that is already cancelled, then Stop) | badparams (Run with rejected start
	// parameters, then Stop); committee and threshold stay what they were
	Abandon string `json:"abandon,omitempty"`
	Op      string `json:"op,omitempty"`
	// Via = coord (coord.go): every relayer of the new committee runs the real tss.Coordinator around its
	// resharing process under the session id Sid - who coordinates is decided by the processes'
	// ValidCoordinators and the session id (chosen by the generator so that a given relayer, a joining one
	// included, sorts first among the new committee)
	Via string `json:"via,omitempty"`
	Sid string `json:"sid,omitempty"`
}

// Mode: how one signing session hands its result over / whether its first attempt fails (session.go)
type Mode struct {
	Chan   string `json:"chan,omitempty"`
	Reader string `json:"reader,omitempty"`
	Retry  string `json:"retry,omitempty"`
	Inputs int    `json:"inputs,omitempty"`
}

// Resub (resub.go): one more signing session after stage Stage whose FIRST attempt runs with the subset
// S1 (coordinator S1[C1]) and is abandoned - How = commerr: every selected relayer's first broadcast
// comes back with a CommunicationError | lost: every message is lost, nobody makes progress and the
// attempt is cancelled - and whose retry runs on the SAME process objects with the subset S2
// (coordinator S2[C2]).  The relayers of S2 are healthy key holders: they must obtain a valid signature.
type Resub struct {
	Stage  int    `json:"stage"`
	S1     []int  `json:"s1"`
	C1     int    `json:"c1"`
	S2     []int  `json:"s2"`
	C2     int    `json:"c2"`
	How    string `json:"how"`
	Chan   string `json:"chan,omitempty"`
	Reader string `json:"reader,omitempty"`
	Inputs int    `json:"inputs,omitempty"`
}

type Case struct {
	Kind string `json:"kind"` // release | parties | sortp | validate | coords | scenario | btcwatch | btcexec
	// coords: whom a process in a given state names as candidates for the session's coordinator
	// (ValidCoordinators): Proc = ecdsa-/frost- keygen | signing | resharing; Peers = the host's
	// peerstore, KeyPeers = the committee its stored key share lists (empty: no share)
	Proc string `json:"proc,omitempty"`
	// btcwatch (btc.go): Inputs = transaction inputs, Results = what arrives on the executor's
	// signature channel, in order: -1 a nil value, id >= 0 the signature of input id's process
	Results []int `json:"results,omitempty"`
	// scenario: the signing processes of one relayer of the first signing session after every refresh
	// are constructed WHILE that refresh runs on the relayer (overlap.go)
	Overlap bool `json:"overlap,omitempty"`
	// release
	Coordinator bool `json:"coordinator,omitempty"`
	// parties / sortp / validate: peer ids in base58
	Peers    []string `json:"peers,omitempty"`
	Old      []string `json:"old,omitempty"`
	KeyPeers []string `json:"key_peers,omitempty"`
	OldT     int      `json:"old_t,omitempty"`
	// scenario
	Proto    string    `json:"proto,omitempty"` // ecdsa | frost
	Start    string    `json:"start,omitempty"` // fixtures (peers 0..2, threshold 1) | keygen
	N        int       `json:"n,omitempty"`     // keygen: committee = universe[0..N)
	T        int       `json:"t,omitempty"`     // keygen threshold
	Reshares []Reshare `json:"reshares,omitempty"`
	SignAt   []int     `json:"sign_at,omitempty"` // stages (0 = start) after which every t+1 subset signs
	Seed     uint64    `json:"seed,omitempty"`
	// how the signing sessions of the scenario hand their result over (session.go)
	Chan       string `json:"chan,omitempty"`        // "" | unbuf | cap1 | btc
	Reader     string `json:"reader,omitempty"`      // "" | late | evm
	Retry      string `json:"retry,omitempty"`       // "" | commerr | subset
	Inputs     int    `json:"inputs,omitempty"`      // chan = btc: signing processes per relayer
	MaxSubsets int    `json:"max_subsets,omitempty"` // 0 = every threshold+1 subset signs
	// non-empty: the k-th signing subset of a stage uses Modes[k mod len] instead of the four fields above
	Modes []Mode `json:"modes,omitempty"`
	// Leaver: relayers that LEFT the committee in a refresh stay online with their old share: after the
	// regular signing sessions of a stage, (up to two of) the subsets sign once more in sessions in which
	// every ex-member answers "ready" before the other signers do and runs with the start parameters
	// the coordinator computes (session.go: attempt.arrivals)
	Leaver bool `json:"leaver,omitempty"`
	// Offline: in every signing session the committee members that are not among the session's relayers
	// are offline, and the transport reports a message addressed to one of them as comm/p2p does
	// (comm.CommunicationError); threshold+1 online holders must still sign
	Offline bool `json:"offline,omitempty"`
	// Resubs: sessions whose abandoned first attempt ran with another subset (resub.go)
	Resubs []Resub `json:"resubs,omitempty"`
	// CSigns: signing sessions through the real tss.Coordinator on every relayer of a committee larger than
	// threshold+1 in which a selected relayer dies when the first attempt begins (coord.go)
	CSigns []CSign `json:"csigns,omitempty"`
	// OldOnly: after a refresh with joining relayers only the members that held a share before are
	// observed - their shares, their signing sessions - plus the public key every member stores (FROST:
	// what a joiner's share is worth is the open finding C08-frost-refresh-join)
	OldOnly bool `json:"old_only,omitempty"`
	// ExFirst: the session id of the scenario's (Via coord) refresh was chosen so that a relayer that
	// LEAVES the committee in it sorts first among the old committee
	ExFirst bool `json:"ex_first,omitempty"`
	// btcexec: the values of the bridge's UTXOs, in the order in which the mempool serves them (empty: five
	// of 10000)
	Values []uint64 `json:"values,omitempty"`
	// btcexec: the committee's FROST shares are refreshed (same committee and threshold) before the
	// executor runs; the transfer must then be signed and broadcast ("the new committee can sign")
	Refresh bool `json:"refresh,omitempty"`
	// release: capacity of the result channel and whether its reader is late
	Cap  int  `json:"cap,omitempty"`
	Late bool `json:"late,omitempty"`
}

type PartyObs struct {
	ID    string `json:"id"`
	Key   string `json:"key,omitempty"`
	Index int    `json:"index"`
}

type Share struct {
	ID string `json:"id"` // node id as decimal (not reduced)
	Y  string `json:"y"`
}

type Stage struct {
	// shares stage
	IsShares bool    `json:"is_shares,omitempty"`
	T        int     `json:"t,omitempty"`
	Pts      []Share `json:"pts,omitempty"`
	XGo      string  `json:"x_go,omitempty"`
	PubOK    bool    `json:"pub_ok,omitempty"`
	Pub      string  `json:"pub,omitempty"`
	OldPts   []Share `json:"frost_refresh_of,omitempty"`
	// signing stage
	Must      bool   `json:"must_complete,omitempty"`
	Subset    []int  `json:"subset,omitempty"`
	Coord     int    `json:"coord,omitempty"`
	Completed bool   `json:"completed,omitempty"`
	Released  []bool `json:"released,omitempty"`
	Valid     []bool `json:"valid,omitempty"`
	Note      string `json:"note,omitempty"`
	Attempts  int    `json:"attempts,omitempty"`
}

type Obs struct {
	// release
	Sig   bool `json:"sig,omitempty"`
	Nil   bool `json:"nil,omitempty"`
	Count int  `json:"count,omitempty"` // values the reader of the result channel received
	// parties / sortp
	Parties []PartyObs `json:"parties,omitempty"`
	SPKind  int        `json:"sp_kind,omitempty"` // 0 list, 1 nil entries, 2 panic
	// validate
	VCode int `json:"vcode,omitempty"`
	// coords
	Cands []string `json:"cands,omitempty"`
	// scenario
	Stages []Stage `json:"stages,omitempty"`
	// btcwatch: transactions that reached the node; per input: its witness verifies in all of them
	Sent    int    `json:"sent,omitempty"`
	Valids  []bool `json:"valids,omitempty"`
	BtcNote string `json:"btc_note,omitempty"`
	// btcexec: the same per relayer
	Relayers []RelayerTx `json:"relayers,omitempty"`
}

type RelayerTx struct {
	Sent   int    `json:"sent"`
	Valids []bool `json:"valids"`
}

// ---- glue ------------------------------------------------------------------------------------------

func decodePeers(ss []string) []peer.ID {
	out := make([]peer.ID, len(ss))
	for i, s := range ss {
		p, err := peer.Decode(s)
		if err != nil {
			panic(fmt.Sprintf("bad peer id %q: %v", s, err))
		}
		out[i] = p
	}
	return out
}

func runRelease(c Case) Obs {
	sig := tsscommon.SignatureData{R: []byte{1, 2, 3}, S: []byte{4, 5}, M: []byte{6}, Signature: []byte{7}}
	got, _ := esigning.VerifProcessEndChan(c.Coordinator, sig, c.Cap, c.Late, 150*time.Millisecond)
	o := Obs{Count: len(got)}
	for _, v := range got {
		if p, ok := v.(*tsscommon.SignatureData); ok && p != nil {
			o.Sig = o.Sig || (string(p.R) == string(sig.R) && string(p.S) == string(sig.S) && string(p.M) == string(sig.M))
		} else if v == nil {
			o.Nil = true
		}
	}
	return o
}

func runParties(c Case) Obs {
	sorted := ecommon.PartiesFromPeers(decodePeers(c.Peers))
	o := Obs{}
	for _, p := range sorted {
		o.Parties = append(o.Parties, PartyObs{ID: p.Id, Key: p.KeyInt().String(), Index: p.Index})
	}
	return o
}

func runSortP(c Case) Obs {
	out, panicked := eresharing.VerifSortParties(decodePeers(c.Peers), decodePeers(c.Old))
	if panicked {
		return Obs{SPKind: 2}
	}
	o := Obs{}
	for _, p := range out {
		if p == nil {
			return Obs{SPKind: 1}
		}
		o.Parties = append(o.Parties, PartyObs{ID: p.Id, Index: p.Index})
	}
	return o
}

func runValidate(c Case) Obs {
	store := decodePeers(c.Peers)
	self := synthPeer("validate-self")
	if len(store) > 0 {
		self = store[0]
	}
	h := c08fakes.NewHost(self, store)
	err := eresharing.VerifStartParams(h, decodePeers(c.KeyPeers), c.OldT, decodePeers(c.Old))
	switch {
	case err == nil:
		return Obs{VCode: 0}
	case strings.Contains(err.Error(), "threshold too small"):
		return Obs{VCode: 1}
	case strings.Contains(err.Error(), "threshold bigger"):
		return Obs{VCode: 2}
	case strings.Contains(err.Error(), "invalid peers subset"):
		return Obs{VCode: 3}
	}
	return Obs{VCode: 9}
}

var coordProcs = []string{"ecdsa-keygen", "frost-keygen", "ecdsa-signing", "frost-signing", "ecdsa-resharing", "frost-resharing"}

func runCoords(c Case) Obs {
	store := decodePeers(c.Peers)
	self := synthPeer("coords-self")
	if len(store) > 0 {
		self = store[0]
	}
	h := c08fakes.NewHost(self, store)
	kp := decodePeers(c.KeyPeers)
	var out []peer.ID
	switch c.Proc {
	case "ecdsa-keygen":
		out = ekeygen.NewKeygen("c08-coords", 1, h, c08fakes.NewHub(1).Join(self), c08fakes.NewECDSAStore(filepath.Join(os.TempDir(), "c08-coords-none.keyshare"))).ValidCoordinators()
	case "frost-keygen":
		out = fkeygen.NewKeygen("c08-coords", 1, h, c08fakes.NewHub(1).Join(self), c08fakes.NewFrostStore(filepath.Join(os.TempDir(), "c08-coords-none-frost.keyshare"))).ValidCoordinators()
	case "ecdsa-signing":
		out = esigning.VerifValidCoordinators(h, kp)
	case "frost-signing":
		out = fsigning.VerifValidCoordinators(h, kp)
	case "ecdsa-resharing":
		out = eresharing.VerifValidCoordinators(h, kp)
	case "frost-resharing":
		out = fresharing.VerifValidCoordinators(h, kp)
	default:
		panic("unknown proc " + c.Proc)
	}
	return Obs{Cands: strs(out)}
}

// ---- scenarios -------------------------------------------------------------------------------------

var qOrder = btcec.S256().N

func lagrangeAt0(ids, ys []*big.Int) *big.Int {
	acc := new(big.Int)
	for i := range ids {
		num, den := big.NewInt(1), big.NewInt(1)
		for j := range ids {
			if i == j {
				continue
			}
			num.Mul(num, new(big.Int).Neg(ids[j]))
			num.Mod(num, qOrder)
			den.Mul(den, new(big.Int).Sub(ids[i], ids[j]))
			den.Mod(den, qOrder)
		}
		t := new(big.Int).Mul(ys[i], num)
		inv := new(big.Int).ModInverse(den, qOrder)
		if inv == nil {
			return big.NewInt(-1)
		}
		t.Mul(t, inv)
		acc.Add(acc, t)
		acc.Mod(acc, qOrder)
	}
	return acc
}

func universe(n int) []peer.ID {
	u := append([]peer.ID(nil), fixturePeers()...)
	for i := len(u); i < n; i++ {
		u = append(u, synthPeer(fmt.Sprintf("u%d", i)))
	}
	return u
}

func pick(u []peer.ID, idx []int) []peer.ID {
	out := make([]peer.ID, len(idx))
	for i, k := range idx {
		out[i] = u[k]
	}
	return out
}

func subsetsOf(idx []int, k int) [][]int {
	var out [][]int
	var rec func(start int, cur []int)
	rec = func(start int, cur []int) {
		if len(cur) == k {
			out = append(out, append([]int(nil), cur...))
			return
		}
		for i := start; i < len(idx); i++ {
			rec(i+1, append(cur, idx[i]))
		}
	}
	rec(0, nil)
	return out
}

func digestFor(seed uint64, stage int, subset []int) []byte {
	h := sha256.New()
	var b [8]byte
	binary.BigEndian.PutUint64(b[:], seed)
	h.Write(b[:])
	h.Write([]byte(fmt.Sprintf("|c08|%d|%v", stage, subset)))
	return h.Sum(nil)
}

// sharesStage reads the key-share files of the committee back and builds the shares observation.
// pubOnly: members of which only the stored public key and threshold are compared (OldOnly scenarios).
func sharesStage(w *world, proto string, u []peer.ID, members []int, t int, oldPts []Share, pubOnly ...int) (Stage, []byte) {
	st := Stage{IsShares: true, T: t, OldPts: oldPts}
	var ids, ys []*big.Int
	var pub []byte
	same := true
	for k, m := range append(append([]int(nil), members...), pubOnly...) {
		p := u[m]
		var id, y *big.Int
		var pk []byte
		if proto == "ecdsa" {
			k, err := w.ecdsaKey(p)
			if err != nil {
				st.Note += fmt.Sprintf("no key share for member %d; ", m)
				same = false
				continue
			}
			id, y = k.Key.ShareID, k.Key.Xi
			pk = ethcrypto.FromECDSAPub(k.Key.ECDSAPub.ToBtcecPubKey().ToECDSA())
			if k.Threshold != t {
				st.Note += fmt.Sprintf("member %d stores threshold %d; ", m, k.Threshold)
				same = false
			}
			if bad := w.ecdsaView(p, k); bad != "" {
				st.Note += fmt.Sprintf("member %d: %s; ", m, bad)
				same = false
			}
		} else {
			k, err := w.frostKey(p)
			if err != nil {
				st.Note += fmt.Sprintf("no key share for member %d; ", m)
				same = false
				continue
			}
			id = new(big.Int).SetBytes([]byte(string(k.Key.ID))) // party.ID.Scalar: the id's bytes as a number
			b, _ := k.Key.PrivateShare.MarshalBinary()
			y = new(big.Int).SetBytes(b)
			pk = append([]byte(nil), k.Key.PublicKey...)
			if k.Threshold != t || k.Key.Threshold != t {
				st.Note += fmt.Sprintf("member %d stores threshold %d/%d; ", m, k.Threshold, k.Key.Threshold)
				same = false
			}
			if bad := w.frostView(p, k); bad != "" {
				st.Note += fmt.Sprintf("member %d: %s; ", m, bad)
				same = false
			}
		}
		if pub == nil {
			pub = pk
		} else if string(pub) != string(pk) {
			same = false
			st.Note += "holders store different public keys; "
		}
		if k >= len(members) {
			continue
		}
		ids = append(ids, new(big.Int).Mod(id, qOrder))
		ys = append(ys, y)
		st.Pts = append(st.Pts, Share{ID: id.String(), Y: y.String()})
	}
	st.Pub = hex.EncodeToString(pub)
	x := big.NewInt(-1)
	if len(ids) >= t+1 {
		x = lagrangeAt0(ids[:t+1], ys[:t+1])
	}
	st.XGo = x.String()
	ok := same && x.Sign() >= 0
	if ok {
		_, gx := btcec.PrivKeyFromBytes(x.FillBytes(make([]byte, 32)))
		if proto == "ecdsa" {
			ok = string(ethcrypto.FromECDSAPub(gx.ToECDSA())) == string(pub)
		} else {
			// Taproot: the stored key is the x coordinate, the shared secret is the one with even y
			ok = string(schnorr.SerializePubKey(gx)) == string(pub) && gx.SerializeCompressed()[0] == 0x02
		}
	}
	st.PubOK = ok
	return st, pub
}

func digestInput(seed uint64, stage int, subset []int, input int) []byte {
	if input == 0 {
		return digestFor(seed, stage, subset)
	}
	h := sha256.Sum256(append(digestFor(seed, stage, subset), byte(input)))
	return h[:]
}

// normOpts: the BTC executor's pattern (one process per input) exists for FROST only.
func normOpts(proto string, o signOpts) signOpts {
	if proto == "ecdsa" && o.Chan == "btc" {
		o.Chan, o.Inputs = "cap1", 1
	}
	if o.Chan != "btc" {
		o.Inputs = 1
	}
	return o
}

// signPlan: session id, the digests (one per input) and, for FROST, the Taproot tweak of a signing
// session of `subset` after `stage`.
func signPlan(proto string, stage int, subset []int, seed uint64, pub []byte, o signOpts) (sid string, digests [][]byte, tweakHex string, tweaked *btcec.PublicKey, err error) {
	digests = make([][]byte, o.inputs())
	for k := range digests {
		digests[k] = digestInput(seed, stage, subset, k)
	}
	sid = fmt.Sprintf("sign-%d-%s", stage, strings.Trim(strings.ReplaceAll(fmt.Sprint(subset), " ", "_"), "[]"))
	if proto == "frost" {
		p, perr := schnorr.ParsePubKey(pub)
		if perr != nil {
			return sid, digests, "", nil, fmt.Errorf("stored taproot key does not parse: %v", perr)
		}
		tweak := chainhash.TaggedHash(chainhash.TagTapTweak, schnorr.SerializePubKey(p))
		tweaked = txscript.ComputeTaprootKeyNoScript(p)
		tweakHex = hex.EncodeToString(tweak[:])
	}
	return sid, digests, tweakHex, tweaked, nil
}

// signStage: one signing session of `subset` (coordinator = subset[coord]) with the result channels,
// readers and first-attempt failure that `o` asks for (session.go).  Released / Valid are reported for
// the relayers selected in the LAST attempt (the holders that completed the session), in order;
// Coord is the position of that attempt's coordinator among them.
// ex (non-empty: a "leaver" session): relayers that left the committee, still online with their old share.
func signStage(w *world, proto string, u []peer.ID, committee, subset []int, coord int, must bool, stage int, seed uint64, pub []byte, o signOpts, ex []int) Stage {
	st := Stage{Must: must, Subset: subset, Coord: coord}
	o = normOpts(proto, o)
	sid, digests, tweakHex, tweaked, perr := signPlan(proto, stage, subset, seed, pub, o)
	if perr != nil {
		st.Note = perr.Error()
		return st
	}
	if len(ex) > 0 {
		sid = leaverSid(sid, pick(u, subset), pick(u, ex))
	}
	// the relayers: the signers and, for a retry with a changed subset, one more committee member
	idx := append([]int(nil), subset...)
	retry := o.Retry
	if retry != "" && proto == "ecdsa" && len(subset) > 2 {
		// threshlib's first round emits one message per other signer on an unbuffered channel: after a
		// failed first send the remaining ones are never consumed and Party.Start() does not return
		retry = ""
		st.Note = "retry not exercised for more than two ECDSA signers; "
	}
	if retry == "subset" {
		extra := -1
		for _, m := range committee {
			in := false
			for _, s := range subset {
				in = in || s == m
			}
			if !in {
				extra = m
				break
			}
		}
		if extra < 0 {
			retry = "commerr"
		} else {
			idx = append(idx, extra)
		}
	}
	if len(ex) > 0 {
		retry = ""
		idx = append(idx, ex...)
	}
	members, sids, err := w.signMembers(proto, sid, pick(u, committee), pick(u, idx), digests, tweakHex)
	if err != nil {
		st.Note += "could not create the signing processes: " + err.Error()
		return st
	}
	if o.Offline {
		setOffline(members, u, committee, idx)
	}
	n := len(subset)
	all := make([]int, n)
	for i := range all {
		all[i] = i
	}
	plan := []attempt{{coord: coord, ready: all}}
	if len(ex) > 0 {
		// the ex-members' ready messages reach the coordinator first, then the other signers'
		var arrivals []int
		for i := range ex {
			arrivals = append(arrivals, n+i)
		}
		for i := 0; i < n; i++ {
			if i != coord {
				arrivals = append(arrivals, i)
			}
		}
		plan = []attempt{{coord: coord, arrivals: arrivals}}
	}
	switch retry {
	case "commerr":
		// Coordinator.retry: a new (bully) election, then the same processes run again
		plan = []attempt{{coord: coord, ready: all, fault: true}, {coord: (coord + 1) % n, ready: all}}
	case "subset":
		// the left-out member coordinates the second attempt and replaces the last non-coordinator
		drop := (coord + n - 1) % n
		var ready []int
		for i := 0; i < n; i++ {
			if i != drop {
				ready = append(ready, i)
			}
		}
		ready = append(ready, n)
		plan = []attempt{{coord: coord, ready: all, fault: true}, {coord: n, ready: ready}}
	}
	so := runSession(w.hub, members, sids, plan, o, 120*time.Second, proto == "ecdsa")
	fillStage(&st, so, members, proto, digests, pub, tweaked)
	return st
}

// setOffline: the committee members that are not relayers of the session (idx) cannot be reached by them.
func setOffline(members []*member, u []peer.ID, committee, idx []int) {
	var off []peer.ID
	for _, m := range committee {
		in := false
		for _, i := range idx {
			in = in || i == m
		}
		if !in {
			off = append(off, u[m])
		}
	}
	for _, m := range members {
		m.fc.setOffline(off)
	}
}

// fillStage: what the session's relayers released and whether it is valid (see signStage).
func fillStage(stp *Stage, so sessionOut, members []*member, proto string, digests [][]byte, pub []byte, tweaked *btcec.PublicKey) {
	st := *stp
	defer func() { *stp = st }()
	st.Completed, st.Coord = so.Completed, so.Coord
	if st.Coord < 0 { // the coordinator did not select itself: no position among the signers is the coordinator's
		st.Coord = len(so.Signers)
		st.Note += "the coordinator is not among the selected signers; "
	}
	if so.Note != "" {
		st.Note += so.Note
	}
	check := func(m *member) (released, valid bool) {
		valid = true
		seen := map[int]bool{}
		for _, v := range m.got {
			if v == nil {
				continue
			}
			released = true
			if proto == "ecdsa" {
				sg, ok := v.(*tsscommon.SignatureData)
				valid = valid && ok && sg != nil && ecdsaValid(sg, digests[0], pub)
				continue
			}
			sg, ok := v.(fsigning.Signature)
			if !ok || sg.Id < 0 || sg.Id >= len(digests) {
				valid = false
				continue
			}
			ps, perr := schnorr.ParseSignature([]byte(sg.Signature))
			valid = valid && perr == nil && ps.Verify(digests[sg.Id], tweaked)
			seen[sg.Id] = true
		}
		if proto == "frost" && released {
			valid = valid && len(seen) == len(digests) // every input of the transaction got its signature
		}
		return
	}
	isSigner := map[int]bool{}
	for _, i := range so.Signers {
		isSigner[i] = true
		rel, val := check(members[i])
		st.Released = append(st.Released, rel)
		if rel {
			st.Valid = append(st.Valid, val)
		}
	}
	for i, m := range members {
		if rel, val := check(m); rel && !isSigner[i] { // a relayer outside the session released something
			st.Released = append(st.Released, true)
			st.Valid = append(st.Valid, val)
			st.Note += fmt.Sprintf("; member %d is not a signer of the last attempt but released a signature", i)
		}
	}
	st.Attempts = so.Attempts
}

// ecdsaValid: the signature is over exactly the requested digest, verifies under the stored group
// key, and ecrecover returns that key (what the EVM bridge contract checks).
func ecdsaValid(sg *tsscommon.SignatureData, digest, pub []byte) bool {
	if string(new(big.Int).SetBytes(sg.M).FillBytes(make([]byte, 32))) != string(digest) {
		return false
	}
	if len(sg.R) > 32 || len(sg.S) > 32 || len(sg.SignatureRecovery) != 1 {
		return false
	}
	rs := append(new(big.Int).SetBytes(sg.R).FillBytes(make([]byte, 32)), new(big.Int).SetBytes(sg.S).FillBytes(make([]byte, 32))...)
	if !ethcrypto.VerifySignature(pub, digest, rs) {
		return false
	}
	rec, err := ethcrypto.Ecrecover(digest, append(rs, sg.SignatureRecovery[0]))
	return err == nil && string(rec) == string(pub)
}

// signSubsets: the threshold+1 subsets of the committee that sign after `stage` (all of them, or a
// rotating choice of MaxSubsets).
func signSubsets(c Case, committee []int, t, stage int) [][]int {
	subs := subsetsOf(committee, t+1)
	if c.MaxSubsets > 0 && len(subs) > c.MaxSubsets {
		off := int(c.Seed+uint64(stage)) % len(subs)
		subs = append(append([][]int(nil), subs[off:]...), subs[:off]...)[:c.MaxSubsets]
	}
	return subs
}

// optsFor: how the k-th signing session of a stage hands its result over.
func optsFor(c Case, k int) signOpts {
	if len(c.Modes) > 0 {
		m := c.Modes[k%len(c.Modes)]
		return signOpts{Chan: m.Chan, Reader: m.Reader, Retry: m.Retry, Inputs: m.Inputs, Offline: c.Offline}
	}
	return signOpts{Chan: c.Chan, Reader: c.Reader, Retry: c.Retry, Inputs: c.Inputs, Offline: c.Offline}
}

func runScenario(c Case) Obs {
	maxIdx := 3
	for _, r := range c.Reshares {
		for _, m := range r.Members {
			if m > maxIdx {
				maxIdx = m
			}
		}
	}
	if c.N-1 > maxIdx {
		maxIdx = c.N - 1
	}
	u := universe(maxIdx + 1)
	w := newWorld(c.Seed, u)
	defer w.close()
	o := Obs{}
	fail := func(must bool, note string) Obs {
		// a protocol run that does not complete on the benign in-process transport, rest of the
		// scenario skipped.  A key generation that fails is reported as a session that was not required
		// to complete (model and implementation differ); a REFRESH that fails is reported as a required
		// session that did not complete: its new committee cannot sign.
		o.Stages = append(o.Stages, Stage{Must: must, Completed: false, Note: note})
		return o
	}
	var committee []int
	t := 1
	if c.Start == "fixtures" {
		w.installFixtures()
		committee = []int{0, 1, 2}
	} else {
		for i := 0; i < c.N; i++ {
			committee = append(committee, i)
		}
		t = c.T
		var r runResult
		if c.Proto == "ecdsa" {
			r = w.ecdsaKeygen("keygen", pick(u, committee), t)
		} else {
			r = w.frostKeygen("keygen", pick(u, committee), t)
		}
		if r.TimedOut || firstErr(r.Errs) != "" {
			return fail(false, "keygen: "+firstErr(r.Errs))
		}
	}
	signAt := map[int]bool{}
	for _, s := range c.SignAt {
		signAt[s] = true
	}
	var prevPts []Share
	var ex []int     // relayers that left the committee (they keep their old share files)
	var joined []int // OldOnly: members that joined in a refresh (their shares are not observed)
	abandoned := false
	for stage := 0; ; stage++ {
		var oldPts []Share
		if stage > 0 && c.Proto == "frost" && !abandoned {
			oldPts = prevPts
		}
		whole := committee
		if c.OldOnly && len(joined) > 0 {
			var obs []int
			for _, m := range whole {
				if !containsInt(joined, m) {
					obs = append(obs, m)
				}
			}
			committee = obs
		}
		st, pub := sharesStage(w, c.Proto, u, committee, t, oldPts, joined...)
		o.Stages = append(o.Stages, st)
		prevPts = st.Pts
		// sessions whose abandoned first attempt ran with another subset (resub.go); they run while the
		// regular sessions of the stage do
		var rsubs []Resub
		for _, rs := range c.Resubs {
			if rs.Stage == stage {
				rsubs = append(rsubs, rs)
			}
		}
		// sessions through the real Coordinators in which a selected relayer dies (coord.go); likewise
		var csigns []CSign
		for _, cs := range c.CSigns {
			if cs.Stage == stage {
				csigns = append(csigns, cs)
			}
		}
		cres := make([]Stage, len(csigns))
		rres := make([]Stage, len(rsubs))
		var rwg sync.WaitGroup
		for k, cs := range csigns {
			rwg.Add(1)
			go func(k int, cs CSign, committee []int) {
				defer rwg.Done()
				cres[k] = csignStage(w, c, u, committee, t, cs, k, stage > 0, pub)
			}(k, cs, append([]int(nil), committee...))
		}
		for k, rs := range rsubs {
			rwg.Add(1)
			go func(k int, rs Resub, committee []int) {
				defer rwg.Done()
				rres[k] = resubStage(w, c, u, committee, rs, k, stage > 0, pub)
			}(k, rs, append([]int(nil), committee...))
		}
		if signAt[stage] {
			subs := signSubsets(c, committee, t, stage)
			res := make([]Stage, len(subs))
			var wg sync.WaitGroup
			for k, sub := range subs {
				wg.Add(1)
				go func(k int, sub []int) {
					defer wg.Done()
					coord := int((c.Seed + uint64(k) + uint64(stage)) % uint64(len(sub)))
					o := optsFor(c, k)
					res[k] = signStage(w, c.Proto, u, committee, sub, coord, stage > 0, stage, c.Seed, pub, o, nil)
				}(k, sub)
			}
			wg.Wait()
			o.Stages = append(o.Stages, res...)
			if c.Leaver && len(ex) > 0 {
				// the ex-members are still online and answer "ready" (at most two subsets)
				if len(subs) > 2 {
					subs = subs[:2]
				}
				res := make([]Stage, len(subs))
				for k, sub := range subs {
					wg.Add(1)
					go func(k int, sub []int) {
						defer wg.Done()
						coord := int((c.Seed + uint64(k) + uint64(stage) + 1) % uint64(len(sub)))
						res[k] = signStage(w, c.Proto, u, committee, sub, coord, true, stage, c.Seed+77, pub, signOpts{Offline: c.Offline}, ex)
					}(k, sub)
				}
				wg.Wait()
				o.Stages = append(o.Stages, res...)
			}
		}
		if len(rsubs)+len(csigns) > 0 {
			rwg.Wait()
			o.Stages = append(append(o.Stages, rres...), cres...)
		}
		committee = whole
		if stage >= len(c.Reshares) {
			break
		}
		rs := c.Reshares[stage]
		var r runResult
		var err error
		sid := fmt.Sprintf("reshare-%d", stage)
		w.ov = nil
		abandoned = rs.Abandon != ""
		if abandoned {
			// constructed on the relayers' stores and given up: committee, threshold and key stay
			if note := w.abandon(c.Proto, sid, pick(u, rs.Members), rs.T, rs.Op, rs.Abandon); note != "" {
				return fail(false, note)
			}
			continue
		}
		if c.Overlap && signAt[stage+1] {
			planOverlap(w, c, u, committee, rs.Members, rs.T, stage, pub)
		}
		who := ""
		switch {
		case rs.Via == "coord":
			if rs.Sid != "" {
				sid = rs.Sid
			}
			var by int
			r, by = w.coordReshare(c.Proto, sid, pick(u, rs.Members), rs.T)
			if by >= 0 {
				who = fmt.Sprintf(" (coordinated by relayer %d)", rs.Members[by])
			}
		case c.Proto == "ecdsa":
			r, err = w.ecdsaReshare(sid, pick(u, rs.Members), rs.T)
		default:
			r, err = w.frostReshare(sid, pick(u, rs.Members), rs.T)
		}
		if err != nil {
			return fail(true, "reshare: "+err.Error())
		}
		w.ov = nil
		if r.TimedOut || firstErr(r.Errs) != "" {
			if r.TimedOut && firstErr(r.Errs) == "" {
				return fail(true, "reshare: timed out"+who)
			}
			return fail(true, "reshare: "+firstErr(r.Errs)+who)
		}
		for _, m := range rs.Members {
			if c.OldOnly && !containsInt(committee, m) && !containsInt(joined, m) {
				joined = append(joined, m)
			}
		}
		for _, m := range committee {
			in := false
			for _, n := range rs.Members {
				in = in || n == m
			}
			if !in {
				ex = append(ex, m)
			}
		}
		committee, t = append([]int(nil), rs.Members...), rs.T
		// (a relayer that comes back is a member again)
		var still []int
		for _, m := range ex {
			in := false
			for _, n := range committee {
				in = in || n == m
			}
			if !in {
				still = append(still, m)
			}
		}
		ex = still
	}
	return o
}

func containsInt(l []int, x int) bool {
	for _, y := range l {
		if y == x {
			return true
		}
	}
	return false
}

// leaverSid: a session id (the given one with a suffix) for which at least one ex-member sorts among
// the first |subset| of the relayers that are ready - the order in which StartParams picks the signers.
func leaverSid(sid string, subset, ex []peer.ID) string {
	all := append(append([]peer.ID(nil), subset...), ex...)
	for k := 0; k < 200; k++ {
		cand := fmt.Sprintf("%s-lv%d", sid, k)
		sorted := tssutil.SortPeersForSession(all, cand)
		for i := 0; i < len(subset) && i < len(sorted); i++ {
			for _, e := range ex {
				if sorted[i].ID == e {
					return cand
				}
			}
		}
	}
	return sid + "-lv"
}

// scenario results are computed concurrently in the background as soon as the generator has
// produced them (FROST runs sleep 10 s per protocol run: frost/common/base.go STARTUP_PAUSE).
type future struct {
	once sync.Once
	obs  Obs
}

var (
	futMu   sync.Mutex
	futures = map[string]*future{}
	cpuSem  = make(chan struct{}, 4) // CPU-heavy ECDSA scenarios at a time
)

func caseKey(c Case) string { b, _ := json.Marshal(c); return string(b) }

func futureOf(c Case) *future {
	futMu.Lock()
	defer futMu.Unlock()
	k := caseKey(c)
	f := futures[k]
	if f == nil {
		f = &future{}
		futures[k] = f
	}
	return f
}

func (f *future) get(c Case) Obs {
	f.once.Do(func() {
		if os.Getenv("VERIF_C08_TIMING") != "" {
			t0 := time.Now()
			defer func() { fmt.Fprintf(os.Stderr, "c08-timing %6.1fs  %s\n", time.Since(t0).Seconds(), caseKey(c)) }()
		}
		if c.Proto == "ecdsa" {
			cpuSem <- struct{}{}
			defer func() { <-cpuSem }()
		}
		if c.Kind == "btcexec" {
			f.obs = runBtcExec(c)
			return
		}
		f.obs = runScenario(c)
	})
	return f.obs
}

func run(c Case) Obs {
	switch c.Kind {
	case "release":
		return runRelease(c)
	case "parties":
		return runParties(c)
	case "sortp":
		return runSortP(c)
	case "validate":
		return runValidate(c)
	case "coords":
		return runCoords(c)
	case "scenario", "btcexec":
		return futureOf(c).get(c)
	case "btcwatch":
		return runBtcWatch(c)
	}
	panic("unknown kind " + c.Kind)
}

// ---- generation ------------------------------------------------------------------------------------

func randPeer(r *vgen.Rng) peer.ID {
	if r.Chance(1, 3) {
		// ed25519-style id: identity multihash of the protobuf-encoded public key ("12D3Koo...")
		b := append([]byte{0x00, 0x24, 0x08, 0x01, 0x12, 0x20}, r.Bytes(32)...)
		return peer.ID(string(b))
	}
	return peer.ID(string(append([]byte{0x12, 0x20}, r.Bytes(32)...))) // sha2-256 multihash ("Qm...")
}

func strs(ps []peer.ID) []string {
	out := make([]string, len(ps))
	for i, p := range ps {
		out[i] = p.String()
	}
	return out
}

func gen(r *vgen.Rng, tier string) []Case {
	var out []Case
	// processEndMessage against result channels of every shape the executors use (unbuffered: EVM and
	// Substrate; buffered: BTC and the repository's tests) with a parked and with a late reader
	for _, cp := range []int{0, 1, 2, 8} {
		for _, late := range []bool{false, true} {
			out = append(out, Case{Kind: "release", Coordinator: true, Cap: cp, Late: late}, Case{Kind: "release", Coordinator: false, Cap: cp, Late: late})
		}
	}
	nGlue := 50
	if tier == "thorough" {
		nGlue = 250
	}
	fp := fixturePeers()
	out = append(out, Case{Kind: "parties", Peers: strs(fp)}, Case{Kind: "parties", Peers: strs(fp[:3])})
	for i := 0; i < nGlue; i++ {
		n := r.Range(1, 9)
		ps := make([]peer.ID, n)
		for j := range ps {
			ps[j] = randPeer(r)
		}
		out = append(out, Case{Kind: "parties", Peers: strs(ps)})
	}
	for i := 0; i < nGlue; i++ {
		n := r.Range(1, 8)
		ps := make([]peer.ID, n)
		for j := range ps {
			ps[j] = randPeer(r)
		}
		var old []peer.ID
		for _, p := range ps {
			if r.Chance(3, 5) {
				old = append(old, p)
			}
		}
		switch r.Intn(8) {
		case 0: // an old party the committee does not know (not the wf class; model and code must still agree)
			old = append(old, randPeer(r))
		case 1:
			old = nil
		}
		r.Shuffle(len(old), func(a, b int) { old[a], old[b] = old[b], old[a] })
		out = append(out, Case{Kind: "sortp", Peers: strs(ps), Old: strs(old)})
	}
	for i := 0; i < nGlue; i++ {
		n := r.Range(1, 7)
		store := make([]peer.ID, n)
		for j := range store {
			store[j] = randPeer(r)
		}
		var keyPeers []peer.ID
		if !r.Chance(1, 4) { // a holder
			for _, p := range store {
				if r.Chance(3, 4) {
					keyPeers = append(keyPeers, p)
				}
			}
			if r.Chance(1, 3) {
				keyPeers = append(keyPeers, randPeer(r)) // a member of the old committee that left
			}
		}
		var sub []peer.ID
		for _, p := range keyPeers {
			in := false
			for _, s := range store {
				in = in || s == p
			}
			if in {
				sub = append(sub, p)
			}
		}
		if len(keyPeers) == 0 {
			for _, p := range store {
				if r.Bool() {
					sub = append(sub, p)
				}
			}
		}
		switch r.Intn(6) {
		case 0:
			if len(sub) > 0 {
				sub = sub[1:]
			}
		case 1:
			sub = append(sub, randPeer(r))
		case 2:
			if len(sub) > 1 {
				sub[0] = sub[1]
			}
		}
		r.Shuffle(len(sub), func(a, b int) { sub[a], sub[b] = sub[b], sub[a] })
		r.Shuffle(len(keyPeers), func(a, b int) { keyPeers[a], keyPeers[b] = keyPeers[b], keyPeers[a] })
		oldT := r.Range(-1, len(sub)+1)
		out = append(out, Case{Kind: "validate", Peers: strs(store), KeyPeers: strs(keyPeers), Old: strs(sub), OldT: oldT})
	}
	// whom a process names as candidates for the coordinator: every process kind on peerstores of 1-6
	// relayers; the stored key share lists a part of them, all of them, nobody (a joining relayer) and - a
	// refresh in which somebody leaves - relayers that are not in the peerstore any more
	for _, proc := range coordProcs {
		// the fixture committee {0,1,2}: relayer 1 leaves and relayer 3 joins; a relayer that holds no share
		out = append(out, Case{Kind: "coords", Proc: proc, Peers: strs([]peer.ID{fp[0], fp[2], fp[3]}), KeyPeers: strs(fp[:3])},
			Case{Kind: "coords", Proc: proc, Peers: strs(fp), KeyPeers: nil})
	}
	for i := 0; i < 2*nGlue/3; i++ {
		n := r.Range(1, 6)
		store := make([]peer.ID, n)
		for j := range store {
			store[j] = randPeer(r)
		}
		var keyPeers []peer.ID
		if !r.Chance(1, 5) {
			for _, p := range store {
				if r.Chance(3, 4) {
					keyPeers = append(keyPeers, p)
				}
			}
			for k := r.Intn(3); k > 0 && r.Chance(1, 2); k-- {
				keyPeers = append(keyPeers, randPeer(r)) // left the committee
			}
		}
		r.Shuffle(len(keyPeers), func(a, b int) { keyPeers[a], keyPeers[b] = keyPeers[b], keyPeers[a] })
		out = append(out, Case{Kind: "coords", Proc: coordProcs[i%len(coordProcs)], Peers: strs(store), KeyPeers: strs(keyPeers)})
	}
	out = append(out, genBtcWatch(r, tier)...)
	seed := r.U64() % 1000
	u5 := universe(5)
	scn := []Case{
		// the repository's fixture shares: every pair signs
		{Kind: "scenario", Proto: "ecdsa", Start: "fixtures", SignAt: []int{0}, Seed: seed},
		{Kind: "scenario", Proto: "frost", Start: "fixtures", SignAt: []int{0}, Seed: seed},
		// refresh with a joining member, every pair of the new committee signs
		// (ECDSA: the six pairs hand their signature over in six ways, two of them after a failed first attempt)
		// (Overlap: one relayer's signing processes of the first session are constructed WHILE the refresh
		// runs there - overlap.go)
		// (Offline: the committee members outside a session are offline and a message addressed to them
		// comes back as a CommunicationError; Resubs: three more sessions whose abandoned first attempt ran
		// with another subset in which a common relayer had another position - resub.go)
		{Kind: "scenario", Proto: "ecdsa", Start: "fixtures", Reshares: []Reshare{{Members: []int{0, 1, 2, 3}, T: 1}}, SignAt: []int{1}, Seed: seed, Overlap: true, Offline: true,
			Modes:  []Mode{{}, {Chan: "unbuf", Reader: "late"}, {Retry: "commerr"}, {Chan: "unbuf", Reader: "evm"}, {Retry: "subset", Chan: "unbuf"}, {Chan: "cap1"}},
			Resubs: resubsFor(u5, []int{0, 1, 2, 3}, 1, 1, []string{"commerr", "lost", "commerr"}, 3, seed)},
		{Kind: "scenario", Proto: "frost", Start: "fixtures", Reshares: []Reshare{{Members: []int{0, 1, 2, 3}, T: 1}}, SignAt: []int{1}, Seed: seed},
		// refresh of the unchanged committee; the three pairs: retried, late reader, retried with a changed subset
		{Kind: "scenario", Proto: "frost", Start: "fixtures", Reshares: []Reshare{{Members: []int{0, 1, 2}, T: 1}}, SignAt: []int{1}, Seed: seed, Overlap: true, Offline: true,
			Modes:  []Mode{{Retry: "commerr"}, {Chan: "unbuf", Reader: "late"}, {Retry: "subset", Chan: "btc", Inputs: 2}},
			Resubs: resubsFor(u5, []int{0, 1, 2}, 1, 1, []string{"commerr", "lost"}, 2, seed)},
		// a member leaves (Leaver: and stays online with its old share, answering "ready" first)
		{Kind: "scenario", Proto: "ecdsa", Start: "fixtures", Reshares: []Reshare{{Members: []int{0, 2}, T: 1}}, SignAt: []int{1}, Seed: seed, Overlap: true, Leaver: true},
		{Kind: "scenario", Proto: "frost", Start: "fixtures", Reshares: []Reshare{{Members: []int{0, 2}, T: 1}}, SignAt: []int{1}, Seed: seed, Overlap: true, Leaver: true},
		// as many relayers join as leave (one leaves, one joins: old and new committee have the same SIZE
		// but are different sets), through the real StartParams / validateStartParams: the announced old
		// subset must not contain the leaver; every pair of the new committee signs
		{Kind: "scenario", Proto: "ecdsa", Start: "fixtures", Reshares: []Reshare{{Members: []int{0, 1, 3}, T: 1}}, SignAt: []int{1}, Seed: seed, Leaver: true},
		// threshold raised (ECDSA: together with a join and a leave)
		{Kind: "scenario", Proto: "ecdsa", Start: "fixtures", Reshares: []Reshare{{Members: []int{0, 1, 3, 4}, T: 2}}, SignAt: []int{1}, Seed: seed, Leaver: true, Offline: true,
			Modes:  []Mode{{}, {Chan: "unbuf", Reader: "late"}, {}, {Chan: "unbuf", Reader: "evm"}},
			Resubs: resubsFor(u5, []int{0, 1, 3, 4}, 2, 1, []string{"lost"}, 1, seed)},
		{Kind: "scenario", Proto: "frost", Start: "fixtures", Reshares: []Reshare{{Members: []int{0, 1, 2}, T: 2}}, SignAt: []int{1}, Seed: seed, Overlap: true},
		// abandoned sessions: a refresh with a changed threshold / committee or a key generation is
		// constructed on the relayers' long-lived stores and given up (Stop without Run, Run with a context
		// that is already cancelled, rejected start parameters); then every pair of the committee signs
		{Kind: "scenario", Proto: "frost", Start: "fixtures", Reshares: []Reshare{{Members: []int{0, 1, 2}, T: 2, Abandon: "stop"}}, SignAt: []int{1}, Seed: seed, Offline: true},
		{Kind: "scenario", Proto: "frost", Start: "fixtures", Reshares: []Reshare{{Members: []int{0, 1, 2, 3}, T: 1, Abandon: "cancel"},
			{Members: []int{0, 1, 2}, T: 2, Op: "keygen", Abandon: "stop"}, {Members: []int{0, 1, 3}, T: 2, Abandon: "badparams"}}, SignAt: []int{3}, Seed: seed + 1},
		{Kind: "scenario", Proto: "ecdsa", Start: "fixtures", Reshares: []Reshare{{Members: []int{0, 1, 3, 4}, T: 2, Abandon: "stop"},
			{Members: []int{0, 1, 2}, T: 2, Op: "keygen", Abandon: "stop"}, {Members: []int{0, 1, 2}, T: 2, Abandon: "badparams"}}, SignAt: []int{3}, Seed: seed, Offline: true},
	}
	// how the signature is handed over (the executors' result channels and readers) and retried
	// attempts on the same process objects (session.go); fixture shares, a rotating choice of subsets
	scn = append(scn,
		Case{Kind: "scenario", Proto: "ecdsa", Start: "fixtures", SignAt: []int{0}, Seed: seed, Chan: "unbuf", Reader: "late", MaxSubsets: 2},
		Case{Kind: "scenario", Proto: "ecdsa", Start: "fixtures", SignAt: []int{0}, Seed: seed + 1, Chan: "unbuf", Reader: "evm", MaxSubsets: 1},
		Case{Kind: "scenario", Proto: "ecdsa", Start: "fixtures", SignAt: []int{0}, Seed: seed + 2, Retry: "commerr", MaxSubsets: 1},
		Case{Kind: "scenario", Proto: "ecdsa", Start: "fixtures", SignAt: []int{0}, Seed: seed + 3, Retry: "subset", Chan: "unbuf", MaxSubsets: 1},
		Case{Kind: "scenario", Proto: "frost", Start: "fixtures", SignAt: []int{0}, Seed: seed, Chan: "unbuf", Reader: "late", MaxSubsets: 2},
		Case{Kind: "scenario", Proto: "frost", Start: "fixtures", SignAt: []int{0}, Seed: seed + 1, Chan: "btc", Inputs: 2, MaxSubsets: 2},
		Case{Kind: "scenario", Proto: "frost", Start: "fixtures", SignAt: []int{0}, Seed: seed + 2, Retry: "commerr", MaxSubsets: 2},
		Case{Kind: "scenario", Proto: "frost", Start: "fixtures", SignAt: []int{0}, Seed: seed + 3, Retry: "subset", Chan: "btc", Inputs: 2, MaxSubsets: 1},
	)
	// the complete BTC executor on three relayers: a transfer that needs two of the bridge's UTXOs
	// (Refresh: after a refresh of the committee's FROST shares - then the transfer MUST be signed and
	// broadcast: every input's signing session, run under the session id the executor gives it)
	// The bridge's UTXOs have DIFFERENT values (pairwise distinct, in no particular order): the digest every
	// input's FROST session signs commits to the amounts of all spent outputs, and every witness of the
	// broadcast transaction is verified against the outputs as the chain has them.  Transfers that need 2,
	// 3 (after a refresh) and 4 inputs; one control with equal values.
	utxoValues := func() []uint64 {
		var vs []uint64
		for len(vs) < 5 {
			v := 6000 + uint64(r.Intn(24000))
			dup := false
			for _, x := range vs {
				dup = dup || x == v
			}
			if !dup {
				vs = append(vs, v)
			}
		}
		return vs
	}
	// (one UTXO worth more than 2^32 satoshi, one more than 2^31)
	bigValues := utxoValues()
	bigValues[int(seed%2)] += 1 << 32
	bigValues[2+int(seed%2)] += 1 << 31
	scn = append(scn, Case{Kind: "btcexec", Inputs: 2, Seed: seed, Values: utxoValues()}, Case{Kind: "btcexec", Inputs: 3, Seed: seed + 4, Refresh: true, Values: utxoValues()},
		Case{Kind: "btcexec", Inputs: 4, Seed: seed + 7, Values: bigValues}, Case{Kind: "btcexec", Inputs: 2, Seed: seed + 8})
	// Sessions through the REAL tss.Coordinator on every relayer (coord.go, cnet.go).
	// (a) refreshes with a JOINING relayer under a session id for which the joiner sorts first among the new
	//     committee (who may coordinate a refresh is decided by the processes' ValidCoordinators + the session
	//     id): the refresh must complete, the key stay, the new committee sign.  FROST: what the joiner's
	//     share is worth is the open finding - the members that held a share before are observed (OldOnly).
	// (b) after a refresh through the Coordinators (ECDSA also: after abandoned refreshes), signing sessions
	//     of a committee LARGER than threshold+1 in which a selected relayer - the coordinator or another
	//     one - dies when the first attempt begins: the retry needs the relayers that were not selected.
	cj := []int{0, 1, 2, 3}
	c3 := []int{0, 1, 2}
	// rsid: a session id for which relayer `first` sorts first among `among`
	rsid := func(tag string, among []int, first int) string {
		return sidFirst(fmt.Sprintf("resharing-%s-%d", tag, seed), pick(u5, among), u5[first])
	}
	scn = append(scn,
		Case{Kind: "scenario", Proto: "ecdsa", Start: "fixtures", Reshares: []Reshare{{Members: cj, T: 1, Via: "coord", Sid: rsid("ej", cj, 3)}}, SignAt: []int{1}, Seed: seed + 40, MaxSubsets: 3,
			CSigns: csignsFor(u5, cj, 1, 1, 1, seed)},
		Case{Kind: "scenario", Proto: "frost", Start: "fixtures", Reshares: []Reshare{{Members: cj, T: 1, Via: "coord", Sid: rsid("fj", cj, 3)}}, SignAt: []int{1}, Seed: seed + 40, OldOnly: true},
		Case{Kind: "scenario", Proto: "frost", Start: "fixtures", Reshares: []Reshare{{Members: c3, T: 1, Via: "coord", Sid: rsid("fs", c3, int(seed%3))}}, Seed: seed + 41,
			CSigns: csignsFor(u5, c3, 1, 1, 2, seed)},
		Case{Kind: "scenario", Proto: "ecdsa", Start: "fixtures", Reshares: []Reshare{{Members: []int{0, 1, 2, 3}, T: 2, Abandon: "stop"}, {Members: c3, T: 1, Via: "coord", Sid: rsid("es", c3, int((seed+1)%3))}}, Seed: seed + 41,
			CSigns: csignsFor(u5, c3, 1, 2, 2, seed+1)},
	)
	if tier == "thorough" {
		scn = append(scn, Case{Kind: "btcexec", Inputs: 1, Seed: seed + 1, Values: utxoValues()}, Case{Kind: "btcexec", Inputs: 3, Seed: seed + 2, Values: utxoValues()}, Case{Kind: "btcexec", Inputs: 2, Seed: seed + 3},
			Case{Kind: "btcexec", Inputs: 4, Seed: seed + 5, Refresh: true, Values: utxoValues()}, Case{Kind: "btcexec", Inputs: 1, Seed: seed + 6, Refresh: true},
			// only the last / only the first UTXO of the transaction differs; ascending; descending
			Case{Kind: "btcexec", Inputs: 3, Seed: seed + 9, Values: []uint64{9000, 9000, 9001, 9000, 9000}},
			Case{Kind: "btcexec", Inputs: 3, Seed: seed + 10, Values: []uint64{20000, 9000, 9000, 9000, 9000}},
			Case{Kind: "btcexec", Inputs: 4, Seed: seed + 11, Refresh: true, Values: []uint64{7000, 8000, 9000, 10000, 11000}},
			Case{Kind: "btcexec", Inputs: 2, Seed: seed + 12, Refresh: true, Values: []uint64{30000, 6500, 9000, 9000, 9000}})
		// every relayer of the new committee in turn sorts first for the refresh's session id
		for first := 0; first < 4; first++ {
			scn = append(scn,
				Case{Kind: "scenario", Proto: "ecdsa", Start: "fixtures", Reshares: []Reshare{{Members: cj, T: 1, Via: "coord", Sid: rsid(fmt.Sprintf("tej%d", first), cj, first)}}, SignAt: []int{1}, Seed: seed + 42 + uint64(first), MaxSubsets: 3},
				Case{Kind: "scenario", Proto: "frost", Start: "fixtures", Reshares: []Reshare{{Members: cj, T: 1, Via: "coord", Sid: rsid(fmt.Sprintf("tfj%d", first), cj, first)}}, SignAt: []int{1}, Seed: seed + 42 + uint64(first), OldOnly: true})
		}
		c4 := []int{0, 1, 3, 4}
		c5 := []int{0, 1, 2, 3, 4}
		scn = append(scn,
			// the full FROST join through the Coordinators (the open finding's class)
			Case{Kind: "scenario", Proto: "frost", Start: "fixtures", Reshares: []Reshare{{Members: cj, T: 1, Via: "coord", Sid: rsid("tfjf", cj, 3)}}, SignAt: []int{1}, Seed: seed + 46},
			// join + leave + threshold up, a joiner sorting first; threshold 2: two selected relayers survive the
			// dead one and hold the re-election together; committees of threshold+2 and threshold+3
			Case{Kind: "scenario", Proto: "ecdsa", Start: "fixtures", Reshares: []Reshare{{Members: c4, T: 2, Via: "coord", Sid: rsid("te4a", c4, 3)}}, SignAt: []int{1}, Seed: seed + 47, MaxSubsets: 2,
				CSigns: csignsFor(u5, c4, 2, 1, 3, seed)},
			Case{Kind: "scenario", Proto: "ecdsa", Start: "fixtures", Reshares: []Reshare{{Members: c4, T: 2, Via: "coord", Sid: rsid("te4b", c4, 4)}}, SignAt: []int{1}, Seed: seed + 48, MaxSubsets: 2},
			Case{Kind: "scenario", Proto: "ecdsa", Start: "fixtures", Reshares: []Reshare{{Members: c5, T: 2, Via: "coord", Sid: rsid("te5", c5, 4)}}, SignAt: []int{1}, Seed: seed + 49, MaxSubsets: 2,
				CSigns: csignsFor(u5, c5, 2, 1, 3, seed+1)},
			Case{Kind: "scenario", Proto: "ecdsa", Start: "fixtures", Reshares: []Reshare{{Members: cj, T: 1, Via: "coord", Sid: rsid("te4c", cj, 3)}}, Seed: seed + 50,
				CSigns: csignsFor(u5, cj, 1, 1, 4, seed+2)},
			Case{Kind: "scenario", Proto: "ecdsa", Start: "fixtures", Reshares: []Reshare{{Members: c3, T: 1, Via: "coord", Sid: rsid("te3", c3, 2)}}, Seed: seed + 51,
				CSigns: csignsFor(u5, c3, 1, 1, 6, seed+2)},
			Case{Kind: "scenario", Proto: "frost", Start: "fixtures", Reshares: []Reshare{{Members: c3, T: 1, Via: "coord", Sid: rsid("tf3", c3, 1)}}, Seed: seed + 51,
				CSigns: csignsFor(u5, c3, 1, 1, 6, seed+2)},
			// a member leaves, every remaining one in turn sorts first
			Case{Kind: "scenario", Proto: "ecdsa", Start: "fixtures", Reshares: []Reshare{{Members: []int{0, 2}, T: 1, Via: "coord", Sid: rsid("tel0", c3, 0)}}, SignAt: []int{1}, Seed: seed + 52},
			Case{Kind: "scenario", Proto: "frost", Start: "fixtures", Reshares: []Reshare{{Members: []int{0, 2}, T: 1, Via: "coord", Sid: rsid("tfl2", c3, 2)}}, SignAt: []int{1}, Seed: seed + 52},
			// a member leaves and sorts first among the OLD committee for the refresh's session id
			Case{Kind: "scenario", Proto: "ecdsa", Start: "fixtures", Reshares: []Reshare{{Members: []int{0, 2}, T: 1, Via: "coord", Sid: rsid("telx", c3, 1)}}, SignAt: []int{1}, Seed: seed + 55, ExFirst: true},
			Case{Kind: "scenario", Proto: "frost", Start: "fixtures", Reshares: []Reshare{{Members: []int{0, 2}, T: 1, Via: "coord", Sid: rsid("tflx", c3, 1)}}, SignAt: []int{1}, Seed: seed + 55, ExFirst: true},
			// from a real key generation: FROST committees of threshold+3 (t = 1) and threshold+2 (t = 2)
			Case{Kind: "scenario", Proto: "frost", Start: "keygen", N: 4, T: 1, Reshares: []Reshare{{Members: cj, T: 1, Via: "coord", Sid: rsid("tfk1", cj, 2)}}, Seed: seed + 53,
				CSigns: csignsFor(u5, cj, 1, 1, 3, seed)},
			Case{Kind: "scenario", Proto: "frost", Start: "keygen", N: 4, T: 2, Reshares: []Reshare{{Members: cj, T: 2, Via: "coord", Sid: rsid("tfk2", cj, 0)}}, Seed: seed + 54,
				CSigns: csignsFor(u5, cj, 2, 1, 3, seed+1)},
		)
		for _, proto := range []string{"ecdsa", "frost"} {
			scn = append(scn,
				Case{Kind: "scenario", Proto: proto, Start: "fixtures", SignAt: []int{0}, Seed: seed + 5, Chan: "unbuf"},
				Case{Kind: "scenario", Proto: proto, Start: "fixtures", SignAt: []int{0}, Seed: seed + 5, Chan: "cap1", Reader: "late"},
				Case{Kind: "scenario", Proto: proto, Start: "fixtures", SignAt: []int{0}, Seed: seed + 6, Chan: "unbuf", Reader: "late", Retry: "commerr"},
				Case{Kind: "scenario", Proto: proto, Start: "fixtures", SignAt: []int{0}, Seed: seed + 6, Chan: "unbuf", Reader: "evm", Retry: "subset"},
				Case{Kind: "scenario", Proto: proto, Start: "fixtures", SignAt: []int{0}, Seed: seed + 7, Retry: "commerr"},
				Case{Kind: "scenario", Proto: proto, Start: "fixtures", SignAt: []int{0}, Seed: seed + 7, Retry: "subset"},
			)
		}
		scn = append(scn,
			Case{Kind: "scenario", Proto: "frost", Start: "fixtures", SignAt: []int{0}, Seed: seed + 8, Chan: "btc", Inputs: 3, Reader: "late"},
			Case{Kind: "scenario", Proto: "frost", Start: "fixtures", SignAt: []int{0}, Seed: seed + 8, Chan: "btc", Inputs: 3, Retry: "commerr"},
			// after a refresh: the new committee signs with late readers / after a failed first attempt
			Case{Kind: "scenario", Proto: "ecdsa", Start: "fixtures", Reshares: []Reshare{{Members: []int{0, 1, 2, 3}, T: 1}}, SignAt: []int{1}, Seed: seed + 9, Chan: "unbuf", Reader: "late", MaxSubsets: 3, Overlap: true},
			Case{Kind: "scenario", Proto: "ecdsa", Start: "fixtures", Reshares: []Reshare{{Members: []int{0, 1, 2, 3}, T: 1}}, SignAt: []int{1}, Seed: seed + 9, Retry: "subset", MaxSubsets: 3},
			Case{Kind: "scenario", Proto: "frost", Start: "fixtures", Reshares: []Reshare{{Members: []int{0, 1, 2}, T: 1}}, SignAt: []int{1}, Seed: seed + 9, Chan: "unbuf", Reader: "late"},
			Case{Kind: "scenario", Proto: "frost", Start: "fixtures", Reshares: []Reshare{{Members: []int{0, 1, 2}, T: 1}}, SignAt: []int{1}, Seed: seed + 9, Retry: "subset", Overlap: true},
		)
		scn = append(scn,
			// real key generation, every subset signs, then two refreshes in a row
			Case{Kind: "scenario", Proto: "ecdsa", Start: "keygen", N: 3, T: 1, SignAt: []int{0}, Seed: seed + 1},
			Case{Kind: "scenario", Proto: "frost", Start: "keygen", N: 3, T: 1, SignAt: []int{0}, Seed: seed + 1},
			Case{Kind: "scenario", Proto: "ecdsa", Start: "keygen", N: 4, T: 2, Reshares: []Reshare{{Members: []int{0, 1, 2, 3}, T: 1}, {Members: []int{1, 2, 3, 4}, T: 1}}, SignAt: []int{0, 1, 2}, Seed: seed + 2},
			Case{Kind: "scenario", Proto: "frost", Start: "keygen", N: 4, T: 2, Reshares: []Reshare{{Members: []int{0, 1, 2, 3}, T: 1}}, SignAt: []int{0, 1}, Seed: seed + 2},
			Case{Kind: "scenario", Proto: "frost", Start: "keygen", N: 4, T: 1, Reshares: []Reshare{{Members: []int{0, 1, 2, 3}, T: 2}, {Members: []int{0, 1, 3}, T: 2}}, SignAt: []int{0, 1, 2}, Seed: seed + 3},
			Case{Kind: "scenario", Proto: "ecdsa", Start: "keygen", N: 3, T: 1, Reshares: []Reshare{{Members: []int{0, 1, 2}, T: 1}, {Members: []int{0, 1, 2, 3, 4}, T: 3}}, SignAt: []int{1, 2}, Seed: seed + 3, Overlap: true},
			Case{Kind: "scenario", Proto: "frost", Start: "fixtures", Reshares: []Reshare{{Members: []int{1, 2, 3}, T: 1}}, SignAt: []int{1}, Seed: seed + 4},
			Case{Kind: "scenario", Proto: "ecdsa", Start: "fixtures", Reshares: []Reshare{{Members: []int{1, 2, 3}, T: 1}}, SignAt: []int{1}, Seed: seed + 4, Overlap: true},
		)
		// abandoned sessions between real refreshes; ex-members online after two refreshes
		scn = append(scn,
			Case{Kind: "scenario", Proto: "frost", Start: "fixtures", Reshares: []Reshare{{Members: []int{0, 1, 2}, T: 2, Abandon: "cancel"}, {Members: []int{0, 1, 2}, T: 1}, {Members: []int{0, 2}, T: 2, Abandon: "stop"}}, SignAt: []int{1, 3}, Seed: seed + 20},
			Case{Kind: "scenario", Proto: "ecdsa", Start: "fixtures", Reshares: []Reshare{{Members: []int{0, 1}, T: 1, Abandon: "stop"}, {Members: []int{0, 1, 2, 3}, T: 1}, {Members: []int{0, 1, 2, 3, 4}, T: 3, Abandon: "badparams"}}, SignAt: []int{1, 3}, Seed: seed + 20},
			Case{Kind: "scenario", Proto: "frost", Start: "keygen", N: 3, T: 1, Reshares: []Reshare{{Members: []int{0, 1, 2}, T: 2, Abandon: "stop"}, {Members: []int{0, 1, 2}, T: 2, Op: "keygen", Abandon: "stop"}}, SignAt: []int{0, 2}, Seed: seed + 21},
			Case{Kind: "scenario", Proto: "ecdsa", Start: "keygen", N: 3, T: 1, Reshares: []Reshare{{Members: []int{0, 1, 2, 3}, T: 2, Abandon: "stop"}}, SignAt: []int{1}, Seed: seed + 21},
			Case{Kind: "scenario", Proto: "ecdsa", Start: "fixtures", Reshares: []Reshare{{Members: []int{0, 1, 3}, T: 1}, {Members: []int{0, 3}, T: 1}}, SignAt: []int{1, 2}, Seed: seed + 22, Leaver: true},
			Case{Kind: "scenario", Proto: "frost", Start: "fixtures", Reshares: []Reshare{{Members: []int{1, 2}, T: 1}}, SignAt: []int{1}, Seed: seed + 22, Leaver: true},
		)
		// offline outsiders and retries with another subset (resub.go): every ordered pair of subsets of the
		// fixture committee after a refresh of the unchanged committee, both ways of abandoning, with the
		// executors' channels and readers; larger committees and thresholds; on the fixture shares themselves
		withModes := func(rs []Resub, ms []Mode) []Resub {
			for i := range rs {
				m := ms[i%len(ms)]
				rs[i].Chan, rs[i].Reader, rs[i].Inputs = m.Chan, m.Reader, m.Inputs
			}
			return rs
		}
		scn = append(scn,
			Case{Kind: "scenario", Proto: "ecdsa", Start: "fixtures", Reshares: []Reshare{{Members: []int{0, 1, 2}, T: 1}}, SignAt: []int{1}, Seed: seed + 30, Offline: true,
				Resubs: withModes(resubsFor(u5, []int{0, 1, 2}, 1, 1, []string{"commerr", "lost"}, 6, seed), []Mode{{}, {Chan: "unbuf", Reader: "late"}, {Chan: "unbuf", Reader: "evm"}, {Chan: "cap1"}})},
			Case{Kind: "scenario", Proto: "ecdsa", Start: "fixtures", Reshares: []Reshare{{Members: []int{0, 1, 2}, T: 1}}, SignAt: []int{1}, Seed: seed + 31, Offline: true,
				Resubs: resubsFor(u5, []int{0, 1, 2}, 1, 1, []string{"lost", "commerr"}, 6, seed+1)},
			Case{Kind: "scenario", Proto: "frost", Start: "fixtures", Reshares: []Reshare{{Members: []int{0, 1, 2}, T: 1}}, SignAt: []int{1}, Seed: seed + 30, Offline: true,
				Resubs: withModes(resubsFor(u5, []int{0, 1, 2}, 1, 1, []string{"commerr", "lost"}, 6, seed), []Mode{{}, {Chan: "unbuf", Reader: "late"}, {Chan: "btc", Inputs: 2}})},
			Case{Kind: "scenario", Proto: "frost", Start: "fixtures", Reshares: []Reshare{{Members: []int{0, 1, 2}, T: 1}}, SignAt: []int{1}, Seed: seed + 31, Offline: true,
				Resubs: resubsFor(u5, []int{0, 1, 2}, 1, 1, []string{"lost", "commerr"}, 6, seed+1)},
			Case{Kind: "scenario", Proto: "ecdsa", Start: "fixtures", Reshares: []Reshare{{Members: []int{0, 1, 2, 3, 4}, T: 2}}, SignAt: []int{1}, Seed: seed + 32, Offline: true, MaxSubsets: 4,
				Resubs: resubsFor(u5, []int{0, 1, 2, 3, 4}, 2, 1, []string{"lost"}, 6, seed)},
			Case{Kind: "scenario", Proto: "ecdsa", Start: "fixtures", Reshares: []Reshare{{Members: []int{1, 2, 3, 4}, T: 1}}, SignAt: []int{1}, Seed: seed + 33, Offline: true, MaxSubsets: 3,
				Resubs: resubsFor(u5, []int{1, 2, 3, 4}, 1, 1, []string{"commerr", "lost"}, 8, seed+2)},
			Case{Kind: "scenario", Proto: "frost", Start: "keygen", N: 4, T: 2, SignAt: []int{0}, Seed: seed + 34, Offline: true,
				Resubs: resubsFor(u5, []int{0, 1, 2, 3}, 2, 0, []string{"lost", "commerr"}, 6, seed)},
			Case{Kind: "scenario", Proto: "ecdsa", Start: "fixtures", SignAt: []int{0}, Seed: seed + 35, Offline: true,
				Resubs: resubsFor(u5, []int{0, 1, 2}, 1, 0, []string{"commerr", "lost"}, 6, seed)},
			Case{Kind: "scenario", Proto: "frost", Start: "fixtures", SignAt: []int{0}, Seed: seed + 35, Offline: true,
				Resubs: resubsFor(u5, []int{0, 1, 2}, 1, 0, []string{"commerr", "lost"}, 6, seed)},
		)
		for k := uint64(0); k < 4; k++ { // more seeds = other digests, coordinators and link delays
			scn = append(scn,
				Case{Kind: "scenario", Proto: "ecdsa", Start: "fixtures", SignAt: []int{0}, Seed: seed + 10 + k},
				Case{Kind: "scenario", Proto: "frost", Start: "fixtures", SignAt: []int{0}, Seed: seed + 10 + k})
		}
	}
	for _, c := range append(corpusScenarios(), scn...) {
		c := c
		f := futureOf(c)
		go f.get(c)
	}
	// spread the (expensive to judge) scenario cases evenly over the shards
	step := len(out)/len(scn) + 1
	var mixed []Case
	k := 0
	for i, c := range out {
		if i%step == 0 && k < len(scn) {
			mixed = append(mixed, scn[k])
			k++
		}
		mixed = append(mixed, c)
	}
	return append(mixed, scn[k:]...)
}

// corpusScenarios: the scenario cases of the corpus (vgen runs them first, one after the other);
// they are started in the background together with the generated ones.
func corpusScenarios() []Case {
	fl := flag.Lookup("corpus")
	if fl == nil || fl.Value.String() == "" {
		return nil
	}
	files, _ := filepath.Glob(filepath.Join(fl.Value.String(), "*.jsonl"))
	var out []Case
	for _, f := range files {
		b, err := os.ReadFile(f)
		if err != nil {
			continue
		}
		for _, line := range strings.Split(string(b), "\n") {
			line = strings.TrimSpace(line)
			if line == "" || strings.HasPrefix(line, "#") {
				continue
			}
			var probe map[string]json.RawMessage
			if json.Unmarshal([]byte(line), &probe) != nil {
				continue
			}
			raw := json.RawMessage(line)
			if in, ok := probe["input"]; ok {
				raw = in
			}
			var c Case
			if json.Unmarshal(raw, &c) == nil && (c.Kind == "scenario" || c.Kind == "btcexec") {
				out = append(out, c)
			}
		}
	}
	return out
}

// ---- Coq printing ------------------------------------------------------------------------------------

func big10(s string) string {
	x, ok := new(big.Int).SetString(s, 10)
	if !ok {
		x = big.NewInt(-1)
	}
	return vgen.ZBig(x)
}

func rawHex(ids []string) []string {
	out := make([]string, len(ids))
	for i, p := range decodePeers(ids) {
		out[i] = vgen.Hex([]byte(p))
	}
	return out
}

func coqShares(ps []Share) string {
	return vgen.ListOf(ps, func(s Share) string { return vgen.Pair(big10(s.ID), big10(s.Y)) })
}

func coq(c Case, o Obs) string {
	switch c.Kind {
	case "release":
		return "Release " + vgen.Bool(c.Coordinator) + " " + vgen.Nat(c.Cap) + " " + vgen.Bool(c.Late) + " " + vgen.Bool(o.Sig) + " " + vgen.Bool(o.Nil) + " " + vgen.Nat(o.Count)
	case "parties":
		return "Parties " + vgen.ListOf(c.Peers, vgen.Str) + " " +
			vgen.ListOf(o.Parties, func(p PartyObs) string {
				return "(" + vgen.Str(p.ID) + ", " + big10(p.Key) + ", " + vgen.Z(int64(p.Index)) + ")"
			})
	case "sortp":
		return "SortP " + vgen.ListOf(c.Peers, vgen.Str) + " " + vgen.ListOf(c.Old, vgen.Str) + " " + vgen.N(uint64(o.SPKind)) + " " +
			vgen.ListOf(o.Parties, func(p PartyObs) string { return vgen.Pair(vgen.Str(p.ID), vgen.Z(int64(p.Index))) })
	case "validate":
		return "Validate " + vgen.Z(int64(c.OldT)) + " " + vgen.List(rawHex(c.Old)) + " " + vgen.List(rawHex(c.KeyPeers)) + " " +
			vgen.List(rawHex(c.Peers)) + " " + vgen.N(uint64(o.VCode))
	case "coords":
		k := 0
		for i, p := range coordProcs {
			if p == c.Proc {
				k = i / 2 // 0 keygen, 1 signing, 2 resharing
			}
		}
		return "Coords " + vgen.N(uint64(k)) + " " + vgen.List(rawHex(c.KeyPeers)) + " " + vgen.List(rawHex(c.Peers)) + " " + vgen.List(rawHex(o.Cands))
	case "btcwatch":
		sent := o.Sent
		if o.BtcNote != "" {
			// the case could not be driven as asked / watchExecution ended in an error or a panic: model and
			// implementation differ (what did reach the node is still judged)
			if sent == 0 {
				o.Valids = make([]bool, c.Inputs)
				for i := range o.Valids {
					o.Valids[i] = true
				}
			}
			sent = 99
		}
		return "BtcWatch " + vgen.Nat(c.Inputs) + " " + vgen.ListOf(c.Results, func(id int) string {
			if id < 0 {
				return "None"
			}
			return "(Some " + vgen.Nat(id) + ")"
		}) + " " + vgen.Nat(sent) + " " + vgen.ListOf(o.Valids, vgen.Bool)
	case "btcexec":
		rs := o.Relayers
		if o.BtcNote != "" {
			// the case could not be driven as asked / the signers did not finish: model and implementation
			// differ (what did reach the nodes is still judged)
			all := make([]bool, c.Inputs)
			for i := range all {
				all[i] = true
			}
			// (after a refresh, when no relayer sent anything: nothing is added - the obligation to sign is
			// judged on what the relayers did)
			anySent := false
			for _, r := range rs {
				anySent = anySent || r.Sent > 0
			}
			if !c.Refresh || anySent {
				rs = append(append([]RelayerTx(nil), rs...), RelayerTx{Sent: 99, Valids: all})
			}
		}
		return "BtcExec " + vgen.Bool(c.Refresh) + " " + vgen.Nat(c.Inputs) + " " + vgen.ListOf(rs, func(r RelayerTx) string {
			return vgen.Pair(vgen.Nat(r.Sent), vgen.ListOf(r.Valids, vgen.Bool))
		})
	case "scenario":
		return "Scenario " + vgen.Bool(c.Proto == "ecdsa") + " " + vgen.ListOf(o.Stages, func(s Stage) string {
			if s.IsShares {
				return "OShares " + vgen.Nat(s.T) + " " + coqShares(s.Pts) + " " + big10(s.XGo) + " " + vgen.Bool(s.PubOK) + " " + coqShares(s.OldPts)
			}
			return "OSign " + vgen.Bool(s.Must) + " " + vgen.Nat(s.Coord) + " " + vgen.Bool(s.Completed) + " " +
				vgen.ListOf(s.Released, vgen.Bool) + " " + vgen.ListOf(s.Valid, vgen.Bool)
		})
	}
	panic("unknown kind")
}

// kind of a scenario: protocol + what the refreshes change (used to match known findings)
func scenarioKind(c Case) string {
	committee := map[int]bool{0: true, 1: true, 2: true}
	t := 1
	if c.Start == "keygen" {
		committee = map[int]bool{}
		for i := 0; i < c.N; i++ {
			committee[i] = true
		}
		t = c.T
	}
	flags := map[string]bool{}
	anyAbandoned := false
	realReshares := 0
	for _, r := range c.Reshares {
		if r.Abandon != "" {
			anyAbandoned = true
			continue
		}
		realReshares++
		next := map[int]bool{}
		for _, m := range r.Members {
			next[m] = true
			if !committee[m] {
				flags["join"] = true
			}
		}
		for m := range committee {
			if !next[m] {
				flags["leave"] = true
			}
		}
		if r.T > t {
			flags["tup"] = true
		}
		if r.T < t {
			flags["tdown"] = true
		}
		committee, t = next, r.T
	}
	var ops []string
	for _, f := range []string{"join", "tdown", "leave", "tup"} {
		if flags[f] {
			ops = append(ops, f)
		}
	}
	if len(ops) == 0 {
		if realReshares > 0 {
			ops = []string{"same"}
		} else {
			ops = []string{"plain"}
		}
	}
	if c.OldOnly {
		for i, op := range ops {
			if op == "join" {
				ops[i] = "old-after-join" // (not the class of the open finding about what a joiner's share is worth)
			}
		}
	}
	kind := "scn/" + c.Proto + "/" + strings.Join(ops, "+")
	var mode []string
	if c.Chan != "" {
		mode = append(mode, c.Chan)
	}
	if c.Reader != "" {
		mode = append(mode, c.Reader)
	}
	if c.Retry != "" {
		mode = append(mode, "retry-"+c.Retry)
	}
	if len(c.Modes) > 0 {
		mode = []string{"mixed"}
	}
	if c.Overlap {
		mode = append(mode, "overlap")
	}
	if c.Leaver {
		mode = append(mode, "leaver")
	}
	if c.Offline {
		mode = append(mode, "offline")
	}
	if len(c.Resubs) > 0 {
		mode = append(mode, "resub")
	}
	if anyAbandoned {
		mode = append(mode, "abandon")
	}
	for _, r := range c.Reshares {
		if r.Via == "coord" {
			mode = append(mode, "coordrefresh")
			if c.ExFirst {
				mode = append(mode, "exfirst")
			}
			break
		}
	}
	if len(c.CSigns) > 0 {
		mode = append(mode, "csign")
	}
	if len(mode) > 0 {
		kind += "/" + strings.Join(mode, "-")
	}
	return kind
}

func main() {
	vgen.Main(vgen.Spec[Case, Obs]{
		Property:  "C08",
		RunModule: "C08",
		Gen:       gen,
		Run:       run,
		Coq:       coq,
		ShardSize: 12,
		Kind: func(c Case) string {
			if c.Kind == "scenario" {
				return scenarioKind(c)
			}
			if c.Kind == "coords" {
				return "coords/" + c.Proc
			}
			if c.Kind == "btcexec" {
				k := fmt.Sprintf("btcexec/%d-inputs", c.Inputs)
				if c.Refresh {
					k += "-after-refresh"
				}
				distinct := false
				for _, v := range c.Values {
					distinct = distinct || v != c.Values[0]
				}
				if distinct {
					k += "/different-values"
				}
				return k
			}
			return c.Kind
		},
		NonTrivial: func(c Case, o Obs) bool {
			switch c.Kind {
			case "release":
				return true
			case "parties":
				return len(c.Peers) >= 2
			case "sortp":
				return len(c.Old) >= 1 && len(c.Old) < len(c.Peers)
			case "validate":
				return len(c.Old) >= 1
			case "coords":
				return len(c.Peers) >= 2
			case "btcwatch":
				return len(c.Results) >= 1
			case "btcexec":
				return len(o.Relayers) >= 2
			}
			return len(o.Stages) >= 2
		},
		Rule: "glue: both coordinator flags through the real processEndMessage; random committees of 1-9 well-formed peer ids (sha256- and identity-multihash) through PartiesFromPeers, sortParties (old subset, incl. non-subset and empty) and unmarshallStartParams/validateStartParams (holder / non-holder, perturbed subsets, thresholds -1..|sub|+1); scenarios: real in-process ECDSA and FROST runs from the fixture key shares (thorough: also from a real keygen) with join / leave / threshold change refreshes and every threshold+1 subset signing, every process of a relayer on ONE long-lived store object per protocol whose hand-outs are compared with the file after every stage (read twice, the first result modified); abandoned refreshes / key generations (Stop without Run, Run with a cancelled context, rejected start parameters) followed by signing; after a refresh with a leaving member extra sessions in which the ex-member is online with its old share and answers ready first; signing sessions with the executors' result channels (unbuffered / capacity 1 / one FROST process per input sharing a channel of capacity = inputs) read by a parked, a late or an EVM-watchExecution-style reader, and sessions whose first attempt fails (CommunicationError on every signer's first key-sign broadcast, optionally a left-out member joining) and whose SAME process objects run again; OFFLINE outsiders: in the scenarios marked offline the committee members that take no part in a signing session cannot be reached and the transport reports a message addressed to one of them the way comm/p2p does (the reachable addressees get it, the call returns comm.CommunicationError) - threshold+1 online holders must still sign; RETRIES WITH ANOTHER SUBSET (resubs): sessions whose first attempt runs with a subset S1 and is abandoned (CommunicationError on every first broadcast, or every message lost and the attempt cancelled once everybody waits) and whose second attempt runs on the SAME process objects with another subset S2 - pairs in which a common relayer has another position among the sorted parties first, ECDSA with 2 and 3 signers, FROST -, the holders of S2 must obtain a valid signature; the complete BTC executor also after a refresh of the FROST shares, where the transfer must be signed and broadcast, on UTXO sets whose values are pairwise different (2, 3 and 4 inputs, one value above 2^32 and one above 2^31 satoshi; one control with equal values), every witness verified against the outputs as the chain has them; WHO MAY COORDINATE (coords): the real ValidCoordinators of all six process kinds on random peerstores of 1-6 relayers whose stored key share lists a part / all / none of them and relayers that have left, plus the fixture committee with a leaver and a joiner; SESSIONS THROUGH THE REAL tss.Coordinator ON EVERY RELAYER (coord.go): refreshes with a joining relayer under session ids for which the joiner sorts first (thorough: every relayer in turn; an ex-member first), and signing sessions of committees of threshold+2 and threshold+3 relayers after such a refresh in which a selected relayer - the coordinator or another one, rotating with the seed - dies when the first attempt begins, so that the retry (handleError, real bully election) needs the relayers that were not selected; processEndMessage with channel capacities 0/1/2/8 x parked/late reader; distinct = distinct input JSON; non-trivial = at least 2 peers (parties), a proper non-empty old subset (sortp), a non-empty subset (validate), a scenario with at least two observed stages",
	})
}
