// Signing sessions the way the executors use them (chains/evm, chains/substrate, chains/btc):
// every relayer owns ONE result channel and ONE reader (watchExecution); tss.Coordinator hands that
// channel to Run of each of the relayer's processes and, after a retryable failure, calls Run AGAIN
// on the SAME process objects with the SAME channel (Coordinator.handleError -> retry -> start).
//
// What is varied here (the property quantifies over schedules):
//   - the channel: cap 8 drained after the session (the old harness), unbuffered (EVM / Substrate
//     executor), capacity 1, capacity = number of inputs shared by one process per input (BTC executor)
//   - the reader: parked on the channel from the start, LATE (starts reading only once every Run has
//     returned or the session's transport has gone quiet), or the EVM executor's watchExecution loop
//     (select on the channel and a ticker; the ticker branch is busy while the session ends; every
//     received value cancels the relayer's execution context)
//   - a failed first attempt: every signer's first key-sign broadcast returns a
//     comm.CommunicationError (optionally a committee member that was left out - SubsetError - joins
//     the second attempt in place of a signer), then Run is called again on the same objects.
//   - who is reachable (Offline): the committee members that take no part in the session are offline and
//     the transport REPORTS a failed delivery the way comm/p2p does (the reachable addressees get the
//     message, the call returns a comm.CommunicationError naming the unreachable one)
//   - an abandoned first attempt with ANOTHER subset (resub.go): the attempt is given up after a
//     CommunicationError on every first broadcast, or after all its messages were lost and nobody made
//     progress (what monitorSigning ends with a CommunicationError); Run is then called on the same
//     objects with a subset in which a common relayer has another position among the sorted parties.
package main

import (
	"context"
	"encoding/json"
	"errors"
	"fmt"
	"sync"
	"time"

	"github.com/ChainSafe/sygma-relayer/comm"
	"github.com/ChainSafe/sygma-relayer/tss"
	fsigning "github.com/ChainSafe/sygma-relayer/tss/frost/signing"
	"github.com/libp2p/go-libp2p/core/peer"

	"verifharness/c08fakes"
)

type signOpts struct {
	Chan   string // "" cap 8, drained after the session | "unbuf" | "cap1" | "btc" (cap = Inputs)
	Reader string // "" parked from the start | "late" | "evm"
	Retry  string // "" | "commerr" | "subset"
	Inputs int    // processes per relayer sharing its channel (BTC executor: one per transaction input)
	// the committee members that are not among the session's relayers are offline: a message addressed
	// to one of them comes back as a comm.CommunicationError (signStage sets member.fc.offline)
	Offline bool
}

func (o signOpts) inputs() int {
	if o.Inputs < 1 {
		return 1
	}
	return o.Inputs
}

func (o signOpts) plain() bool {
	return o.Chan == "" && o.Reader == "" && o.Retry == "" && o.inputs() == 1
}

// quiet: a session whose transport has carried at least one message and then nothing for this long
// is taken to have ended (the protocols send their rounds back to back; between two rounds lies only
// local computation).  Only used to decide when a LATE reader starts: too early a start can hide a
// lost result, it can never produce a false alarm.
const quiet = 3 * time.Second

// faultComm: the relayer's communication with a one-shot failure of the next key-sign broadcast of
// a session (what comm/p2p returns when a peer cannot be reached).
type faultComm struct {
	*c08fakes.Comm
	mu    sync.Mutex
	armed map[string]bool
	// offline: relayers that cannot be reached.  As with comm/p2p's Broadcast (one send per addressee,
	// all of them attempted, the first error returned) the reachable addressees get the message and the
	// call returns a comm.CommunicationError for an unreachable one.
	offline map[peer.ID]bool
	// lost (by session id): every message of the session is silently lost (the addressees are hung or
	// partitioned away and the transport does not notice); calls counts them
	lost  map[string]bool
	calls map[string]int
}

func (f *faultComm) setOffline(ps []peer.ID) {
	f.mu.Lock()
	f.offline = map[peer.ID]bool{}
	for _, p := range ps {
		f.offline[p] = true
	}
	f.mu.Unlock()
}

func (f *faultComm) lose(sid string, on bool) {
	f.mu.Lock()
	if f.lost == nil {
		f.lost, f.calls = map[string]bool{}, map[string]int{}
	}
	if on {
		f.lost[sid] = true
		f.calls[sid] = 0
	} else {
		delete(f.lost, sid)
	}
	f.mu.Unlock()
}

func (f *faultComm) lostCalls(sid string) int {
	f.mu.Lock()
	defer f.mu.Unlock()
	return f.calls[sid]
}

func (f *faultComm) arm(sid string, on bool) {
	f.mu.Lock()
	if on {
		f.armed[sid] = true
	} else {
		delete(f.armed, sid)
	}
	f.mu.Unlock()
}

func (f *faultComm) Broadcast(peers peer.IDSlice, msg []byte, t comm.MessageType, sid string) error {
	if t == comm.TssKeySignMsg {
		f.mu.Lock()
		hit := f.armed[sid]
		delete(f.armed, sid)
		f.mu.Unlock()
		if hit {
			var to peer.ID
			if len(peers) > 0 {
				to = peers[0]
			}
			return &comm.CommunicationError{Peer: to, Err: fmt.Errorf("injected: peer unreachable")}
		}
	}
	f.mu.Lock()
	if f.lost[sid] {
		f.calls[sid]++
		f.mu.Unlock()
		return nil
	}
	var online peer.IDSlice
	var down peer.ID
	for _, p := range peers {
		if f.offline[p] {
			if down == "" {
				down = p
			}
			continue
		}
		online = append(online, p)
	}
	f.mu.Unlock()
	if down != "" {
		_ = f.Comm.Broadcast(online, msg, t, sid)
		return &comm.CommunicationError{Peer: down, Err: fmt.Errorf("dial backoff (the peer is offline)")}
	}
	return f.Comm.Broadcast(peers, msg, t, sid)
}

type member struct {
	peer   peer.ID
	procs  []tss.TssProcess // one per input
	fc     *faultComm
	ch     chan interface{}
	ctx    context.Context
	cancel context.CancelFunc
	got    []interface{} // owned by the reader until readerDone is closed
	rdone  chan struct{}
}

type attempt struct {
	coord int   // index into members
	ready []int // members the coordinator has heard "ready" from (it selects threshold+1 of them)
	fault bool  // every member's first key-sign broadcast of this attempt fails
	// lost: every message of this attempt is silently lost; once every selected relayer has sent its
	// first round and waits, the attempt's contexts are cancelled (the attempt is abandoned) and the
	// next attempt follows whatever Run returned
	lost bool
	// arrivals (non-nil: instead of ready): the members whose "ready" messages reach the coordinator, in
	// order of arrival; the start parameters are computed exactly as Coordinator.initiate computes them:
	// readyPeers = [coordinator] + arrivals so far, after every arrival Ready(readyPeers) is asked, and
	// the first time it says yes StartParams(readyPeers) is sent to EVERY member (also to those that are
	// no key holders any more but still online)
	arrivals []int
}

type sessionOut struct {
	Signers   []int // members selected in the last attempt, in member order
	Coord     int   // position of the last attempt's coordinator in Signers
	Completed bool
	Attempts  int
	Note      string
}

func retryable(err error) bool {
	var ce *comm.CommunicationError
	var se *tss.SubsetError
	var co *tss.CoordinatorError
	return errors.As(err, &ce) || errors.As(err, &se) || errors.As(err, &co)
}

func (m *member) read(o signOpts, goCh, runsDone <-chan struct{}) {
	defer close(m.rdone)
	// after the last Run has returned: take what is still in the buffer or still being handed over (a
	// result sent from a goroutine of its own is as good as one sent before Run returns)
	drain := func() {
		for {
			select {
			case v := <-m.ch:
				m.got = append(m.got, v)
			case <-time.After(150 * time.Millisecond):
				return
			}
		}
	}
	if o.Chan == "" && o.Reader == "" {
		<-runsDone
		drain()
		return
	}
	if o.Reader == "late" {
		<-goCh
	}
	var tick <-chan time.Time
	if o.Reader == "evm" {
		t := time.NewTicker(20 * time.Millisecond)
		defer t.Stop()
		tick = t.C
	}
	busyOnce := false
	filled := map[int]bool{}
	for {
		select {
		case v := <-m.ch:
			m.got = append(m.got, v)
			switch {
			case o.Reader == "evm":
				m.cancel() // watchExecution: cancelExecution() on every result, nil included
			case o.Chan == "btc":
				if s, ok := v.(fsigning.Signature); ok {
					filled[s.Id] = true
					if len(filled) == o.inputs() {
						m.cancel() // all inputs signed: cancelExecution(), the transaction is sent
					}
				}
			}
		case <-tick:
			if !busyOnce { // areProposalsExecuted: an on-chain query that is under way while the session ends
				<-goCh
				busyOnce = true
			}
		case <-runsDone:
			drain()
			return
		}
	}
}

// runSession runs the attempts one after the other on the members' process objects.
func runSession(hub *c08fakes.Hub, members []*member, sids []string, plan []attempt, o signOpts, timeout time.Duration, ecdsa bool) sessionOut {
	out := sessionOut{}
	root, cancelRoot := context.WithCancel(context.Background())
	defer cancelRoot()
	capacity := 8
	switch o.Chan {
	case "unbuf":
		capacity = 0
	case "cap1":
		capacity = 1
	case "btc":
		capacity = o.inputs()
	}
	goCh, runsDone := make(chan struct{}), make(chan struct{})
	for _, m := range members {
		m.ch = make(chan interface{}, capacity)
		m.ctx, m.cancel = context.WithCancel(root)
		m.rdone = make(chan struct{})
		go m.read(o, goCh, runsDone)
	}
	// the "session has ended" event for late / busy readers
	var goOnce sync.Once
	fire := func() { goOnce.Do(func() { close(goCh) }) }
	ctlStop := make(chan struct{})
	go func() {
		t := time.NewTicker(50 * time.Millisecond)
		defer t.Stop()
		for {
			select {
			case <-ctlStop:
				return
			case <-t.C:
				n, last := 0, time.Time{}
				for _, sid := range sids {
					k, l := hub.Activity(sid)
					n += k
					if l.After(last) {
						last = l
					}
				}
				if n > 0 && time.Since(last) >= quiet {
					fire()
					return
				}
			}
		}
	}()

	type runErr struct {
		m, k int
		err  error
	}
	for a, at := range plan {
		out.Attempts = a + 1
		ready := make([]peer.ID, len(at.ready))
		for i, r := range at.ready {
			ready[i] = members[r].peer
		}
		if at.arrivals != nil {
			ready = []peer.ID{members[at.coord].peer}
			started := false
			for _, a := range at.arrivals {
				dup := false
				for _, p := range ready {
					dup = dup || p == members[a].peer
				}
				if !dup {
					ready = append(ready, members[a].peer)
				}
				ok, err := members[at.coord].procs[0].Ready(ready, []peer.ID{})
				if err != nil {
					out.Note = "Ready: " + err.Error()
					break
				}
				if ok {
					started = true
					break
				}
			}
			if !started {
				if out.Note == "" {
					out.Note = "the coordinator never found enough ready peers"
				}
				break
			}
		}
		// coordinator.go initiate: the start parameters of the first process go to every process
		params := members[at.coord].procs[0].StartParams(ready)
		var selected []peer.ID
		_ = json.Unmarshal(params, &selected)
		out.Signers, out.Coord = nil, -1
		for i, m := range members {
			for _, p := range selected {
				if p == m.peer {
					if i == at.coord {
						out.Coord = len(out.Signers)
					}
					out.Signers = append(out.Signers, i)
				}
			}
		}
		for _, m := range members {
			for _, sid := range sids {
				m.fc.arm(sid, at.fault)
				m.fc.lose(sid, at.lost)
			}
		}
		errCh := make(chan runErr, len(members)*len(sids))
		n := 0
		actx, acancel := context.WithCancel(context.Background())
		for i, m := range members {
			ctx := m.ctx
			if at.lost {
				// an attempt that will be abandoned: its own context below the relayer's
				c, cancel := context.WithCancel(m.ctx)
				go func() { <-actx.Done(); cancel() }()
				ctx = c
			}
			for k, p := range m.procs {
				n++
				go func(i, k int, m *member, p tss.TssProcess) {
					var err error
					defer func() {
						if r := recover(); r != nil {
							err = fmt.Errorf("panic: %v", r)
						}
						errCh <- runErr{i, k, err}
					}()
					err = p.Run(ctx, i == at.coord, m.ch, params)
				}(i, k, m, p)
			}
		}
		if at.lost {
			// abandon the attempt once every selected relayer has sent its whole first round into the void
			// (ECDSA: one message per other signer, FROST: one broadcast) - from then on everybody waits
			need := 1
			if ecdsa {
				need = len(out.Signers) - 1
			}
			go func(signers []int) {
				limit := time.After(60 * time.Second)
				t := time.NewTicker(10 * time.Millisecond)
				defer t.Stop()
				for {
					all := true
					for _, i := range signers {
						for _, sid := range sids {
							all = all && members[i].fc.lostCalls(sid) >= need
						}
					}
					if all {
						time.Sleep(100 * time.Millisecond)
						acancel()
						return
					}
					select {
					case <-t.C:
					case <-limit:
						acancel()
						return
					case <-actx.Done():
						return
					}
				}
			}(append([]int(nil), out.Signers...))
		}
		errs := make([][]error, len(members))
		for i, m := range members {
			errs[i] = make([]error, len(m.procs))
		}
		deadline := time.After(timeout)
		timedOut := false
		hurry := false
		for got := 0; got < n; {
			select {
			case e := <-errCh:
				errs[e.m][e.k] = e.err
				got++
				var se *tss.SubsetError
				if e.err != nil && !errors.As(e.err, &se) && (!retryable(e.err) || a+1 == len(plan)) && !hurry {
					// a process has failed for good (an error tss.Coordinator does not retry, a panic, or any
					// failure in the last attempt the scenario provides for): the session cannot complete any
					// more; its other processes get a few more seconds
					hurry = true
					deadline = time.After(8 * time.Second)
				}
			case <-deadline:
				if timedOut { // second expiry: give up on the stragglers
					got = n
					break
				}
				timedOut = true
				fire()
				cancelRoot()
				deadline = time.After(15 * time.Second)
			}
		}
		acancel()
		for _, m := range members {
			for _, sid := range sids {
				m.fc.arm(sid, false)
				m.fc.lose(sid, false)
			}
		}
		if at.lost && !timedOut && a+1 < len(plan) {
			// abandoned; whatever the Runs returned (nil after the cancellation, SubsetError for the
			// relayers that were not selected), the coordinator starts the next attempt
			sent := true
			for _, i := range out.Signers {
				for _, sid := range sids {
					sent = sent && members[i].fc.lostCalls(sid) > 0
				}
			}
			if !sent {
				out.Note = fmt.Sprintf("attempt %d: a selected relayer never sent anything; ", a+1)
			}
			continue
		}
		isSigner := map[int]bool{}
		for _, i := range out.Signers {
			isSigner[i] = true
		}
		ok, allRetryable, first := !timedOut, true, ""
		for i := range members {
			for k, e := range errs[i] {
				if e == nil {
					continue
				}
				var se *tss.SubsetError
				if !isSigner[i] && errors.As(e, &se) {
					continue // a relayer that was not selected: expected
				}
				ok = false
				allRetryable = allRetryable && retryable(e)
				if first == "" {
					s := e.Error()
					if len(s) > 160 {
						s = s[:160]
					}
					first = fmt.Sprintf("attempt %d member %d input %d: %s", a+1, i, k, s)
				}
			}
		}
		if ok {
			out.Completed = true
			if a+1 < len(plan) {
				out.Note = fmt.Sprintf("attempt %d was meant to fail but succeeded", a+1)
			}
			break
		}
		out.Note = first
		if timedOut {
			out.Note = "timed out; " + first
			break
		}
		if !allRetryable {
			break // tss.Coordinator gives up on anything else
		}
	}
	close(ctlStop)
	fire()
	close(runsDone)
	for _, m := range members {
		<-m.rdone
		for _, p := range m.procs {
			func() {
				defer func() { _ = recover() }()
				p.Stop()
			}()
		}
	}
	return out
}
