// Sessions driven through the REAL tss.Coordinator on every relayer (network: cnet.go).
//
// csign - a signing session of a committee that is LARGER than threshold+1 whose first attempt fails:
// the static coordinator collects the ready answers (released in the order the case scripts), announces
// the threshold+1 relayers it selected, and one of the selected ones - the coordinator itself or
// another one - dies when the attempt begins.  Every send addressed to it fails with the transport's
// CommunicationError, the surviving selected relayers go through Coordinator.handleError -> retry (the
// real bully election over the network) and the relayers that were NOT selected - which Run turned away
// with a SubsetError and which the Coordinator therefore keeps waiting for a later start message - are
// the only healthy key holders left to complete the retry with.  Enough healthy key holders exist:
// threshold+1 of them must obtain a valid signature (after a refresh: "the new committee can sign").
//
// coordReshare - a refresh in which every relayer of the new committee runs Coordinator.Execute around
// its real resharing process: who coordinates is decided by the processes' ValidCoordinators and the
// session id, the coordinator's StartParams reach everybody through the start message.  The generator
// chooses session ids for which each relayer in turn - a JOINING one included - sorts first.
package main

import (
	"context"
	"encoding/json"
	"fmt"
	"math/big"
	"os"
	"strings"
	"sync"
	"time"

	"github.com/ChainSafe/sygma-relayer/comm/elector"
	"github.com/ChainSafe/sygma-relayer/config/relayer"
	"github.com/ChainSafe/sygma-relayer/tss"
	eresharing "github.com/ChainSafe/sygma-relayer/tss/ecdsa/resharing"
	esigning "github.com/ChainSafe/sygma-relayer/tss/ecdsa/signing"
	fresharing "github.com/ChainSafe/sygma-relayer/tss/frost/resharing"
	fsigning "github.com/ChainSafe/sygma-relayer/tss/frost/signing"
	tssutil "github.com/ChainSafe/sygma-relayer/tss/util"
	libtss "github.com/binance-chain/tss-lib/tss"
	"github.com/libp2p/go-libp2p/core/peer"

	"verifharness/c08fakes"
)

// CSign: one csign session after stage Stage.
type CSign struct {
	Stage int    `json:"stage"`
	Sid   string `json:"sid"`
	// Order: the committee (universe indexes) in the order in which the ready answers to the first initiate
	// message are released to the coordinator (its own entry is skipped): the first threshold of them are
	// selected together with the coordinator
	Order []int `json:"order"`
	// Victim: 0 = the coordinator dies once it has announced the subset; k > 0 = the k-th selected relayer
	// besides the coordinator (in Order) dies when the attempt begins
	Victim int `json:"victim"`
}

type cnode struct {
	self   peer.ID
	cm     *ccomm
	procs  []tss.TssProcess
	co     *tss.Coordinator
	res    chan interface{}
	done   chan struct{}
	ferr   error
	cancel context.CancelFunc
	mu     sync.Mutex
	got    []interface{}
}

func (n *cnode) values() []interface{} {
	n.mu.Lock()
	defer n.mu.Unlock()
	return append([]interface{}(nil), n.got...)
}

func (n *cnode) returned() bool {
	select {
	case <-n.done:
		return true
	default:
		return false
	}
}

// newCnode: one relayer with a real Coordinator (static election first, real bully election over the
// network for a retry).  several = more than one relayer can fail at a time and hold the re-election
// together (longer election waits: under load their failures can lie apart).
func newCnode(net *cnet, self peer.ID, peerstore []peer.ID, several bool) *cnode {
	n := &cnode{self: self, res: make(chan interface{}, 8), done: make(chan struct{})}
	n.cm = net.join(self)
	h := c08fakes.NewHost(self, peerstore)
	cfg := relayer.BullyConfig{PingWaitTime: time.Second, PingBackOff: time.Second, PingInterval: time.Second,
		ElectionWaitTime: 150 * time.Millisecond, BullyWaitTime: 700 * time.Millisecond}
	if several {
		cfg.ElectionWaitTime, cfg.BullyWaitTime = 600*time.Millisecond, 3*time.Second
	}
	n.co = tss.NewCoordinator(h, n.cm, elector.NewCoordinatorElectorFactoryWithComm(h, n.cm, cfg))
	// (the initiate message is repeated, as by the relayer every 15 s: an answer that is lost with a
	// subscription that is just being given up is asked for again)
	n.co.CoordinatorTimeout, n.co.TssTimeout, n.co.InitiatePeriod = 15*time.Minute, 15*time.Minute, 3*time.Second
	return n
}

func (n *cnode) start(root context.Context, stop <-chan struct{}) {
	ctx, cancel := context.WithCancel(root)
	n.cancel = cancel
	go func() { // the relayer's reader of the result channel
		for {
			select {
			case v := <-n.res:
				n.mu.Lock()
				n.got = append(n.got, v)
				n.mu.Unlock()
			case <-stop:
				return
			}
		}
	}()
	go func() {
		defer close(n.done)
		defer func() {
			if x := recover(); x != nil {
				n.ferr = fmt.Errorf("panic: %v", x)
			}
		}()
		n.ferr = n.co.Execute(ctx, n.procs, n.res)
	}()
}

func peersOfParams(params []byte) []peer.ID {
	var ps []peer.ID
	_ = json.Unmarshal(params, &ps)
	return ps
}

func shortErr(err error) string {
	s := strings.ReplaceAll(err.Error(), "\n", " ")
	if len(s) > 160 {
		s = s[:160]
	}
	return s
}

func csignStage(w *world, c Case, u []peer.ID, committee []int, t int, cs CSign, k int, must bool, pub []byte) Stage {
	proto := c.Proto
	st := Stage{Must: must, Subset: append([]int(nil), committee...)}
	undriven := func(note string) Stage {
		// the script could not be played: reported as a session that was not required to complete and did
		// not (model and implementation differ), never as a violation
		st.Must, st.Completed, st.Released, st.Valid = false, false, nil, nil
		st.Note += note
		return st
	}
	if len(committee) < t+2 || len(cs.Order) == 0 {
		return undriven("csign: the committee is not larger than threshold+1")
	}
	_, digests, tweakHex, tweaked, perr := signPlan(proto, cs.Stage, committee, c.Seed+2000+uint64(k), pub, signOpts{})
	if perr != nil {
		st.Note = perr.Error()
		return st
	}
	holders := pick(u, committee)
	net := newCnet()
	defer net.close()
	net.holdReady = true
	nodes := make([]*cnode, len(committee))
	members := make([]*member, len(committee))
	for i, p := range holders {
		n := newCnode(net, p, holders, t >= 2)
		h := c08fakes.NewHost(p, holders)
		var proc tss.TssProcess
		var err error
		if proto == "ecdsa" {
			proc, err = esigning.NewSigning(new(big.Int).SetBytes(digests[0]), cs.Sid, cs.Sid, h, n.cm, w.estore(p))
		} else {
			proc, err = fsigning.NewSigning(0, digests[0], tweakHex, cs.Sid, cs.Sid, h, n.cm, w.fstore(p))
		}
		if err != nil {
			st.Note += "could not create the signing processes: " + err.Error()
			return st
		}
		n.procs = []tss.TssProcess{proc}
		nodes[i] = n
		members[i] = &member{peer: p}
	}
	index := func(p peer.ID) int {
		for i, q := range holders {
			if p == q {
				return i
			}
		}
		return -1
	}
	rank := map[peer.ID]int{}
	for r, m := range cs.Order {
		if m >= 0 && m < len(u) {
			rank[u[m]] = r + 1
		}
	}
	// the attempt begins: the victim dies
	var vmu sync.Mutex
	victim := -1
	net.onStart = func(kk int, from peer.ID) {
		if kk != 1 {
			return
		}
		net.stopHolding()
		starts := net.startsSoFar()
		var others []peer.ID
		for _, p := range peersOfParams(starts[0].Params) {
			if p != from && index(p) >= 0 {
				others = append(others, p)
			}
		}
		// (in the order in which their ready answers were released)
		for i := range others {
			for j := i + 1; j < len(others); j++ {
				if rank[others[j]] < rank[others[i]] {
					others[i], others[j] = others[j], others[i]
				}
			}
		}
		v := index(from)
		if cs.Victim > 0 && len(others) > 0 {
			v = index(others[(cs.Victim-1)%len(others)])
		}
		if v < 0 {
			return
		}
		vmu.Lock()
		victim = v
		vmu.Unlock()
		net.kill(holders[v])
		nodes[v].cancel()
	}
	root, cancelRoot := context.WithCancel(context.Background())
	stopReaders := make(chan struct{})
	defer close(stopReaders)
	defer cancelRoot()
	for _, n := range nodes {
		n.start(root, stopReaders)
	}
	// the ready answers to the first initiate message: once every other relayer has answered (the
	// coordinator is the one they answer to), they are released in the scripted order
	var initiator peer.ID
	waitUntil(30*time.Second, func() bool {
		net.mu.Lock()
		defer net.mu.Unlock()
		from := map[peer.ID]bool{}
		for _, h := range net.held {
			from[h.from] = true
			initiator = h.to
		}
		return len(from) >= len(holders)-1 || len(net.starts) > 0
	})
	released := 0
	for _, m := range cs.Order {
		if m < 0 || m >= len(u) || index(u[m]) < 0 || u[m] == initiator || len(net.startsSoFar()) > 0 {
			continue
		}
		if !net.releaseHeld(u[m], nil, 10*time.Millisecond) {
			continue // (this relayer never answered)
		}
		released++
		if released >= t {
			// enough for Ready: the subset is announced (if it is not, the next answers follow)
			waitUntil(5*time.Second, func() bool { return len(net.startsSoFar()) > 0 })
		}
	}
	net.stopHolding()

	// the session: the retry's selected relayers hand a result to their readers
	total := 70 * time.Second
	if proto == "frost" {
		total = 95 * time.Second // (every FROST attempt sleeps ten seconds before its first send)
	}
	deadline := time.Now().Add(total)
	var grace time.Time
	completed := false
	var last cstart
	for {
		starts := net.startsSoFar()
		vmu.Lock()
		v := victim
		vmu.Unlock()
		if len(starts) >= 2 {
			last = starts[len(starts)-1]
			all := true
			sel := peersOfParams(last.Params)
			for _, p := range sel {
				i := index(p)
				all = all && i >= 0 && i != v && len(nodes[i].values()) > 0
			}
			if all && len(sel) > 0 {
				completed = true
				break
			}
		}
		// the healthy relayers that are still in the session
		in := 0
		for i, n := range nodes {
			if i != v && !n.returned() {
				in++
			}
		}
		if in < t+1 && grace.IsZero() {
			grace = time.Now().Add(3 * time.Second) // too few are left: the session cannot complete any more
		}
		now := time.Now()
		if now.After(deadline) || (!grace.IsZero() && now.After(grace)) {
			break
		}
		time.Sleep(10 * time.Millisecond)
	}
	if completed {
		time.Sleep(150 * time.Millisecond) // (a value that is still being handed over)
	}
	starts := net.startsSoFar()
	vmu.Lock()
	v := victim
	vmu.Unlock()
	if os.Getenv("VERIF_C08_COORD_DEBUG") != "" {
		for i, s := range starts {
			fmt.Fprintf(os.Stderr, "csign %s: start %d by relayer %v selects %v (victim %d)\n", cs.Sid, i+1, idxOf(u, []peer.ID{s.From}), idxOf(u, peersOfParams(s.Params)), v)
		}
	}
	// what the relayers did, before the session is torn down
	var left []string
	for i, n := range nodes {
		if i != v && n.returned() && len(n.values()) == 0 {
			e := "nil"
			if n.ferr != nil {
				e = shortErr(n.ferr)
			}
			left = append(left, fmt.Sprintf("relayer %d left the session (Execute returned %s)", committee[i], e))
		}
	}
	cancelRoot()
	for i, n := range nodes {
		if i == v {
			continue // (a cancelled FROST process sleeps out its ten seconds)
		}
		select {
		case <-n.done:
		case <-time.After(5 * time.Second):
		}
	}
	switch {
	case len(starts) == 0:
		// every relayer is healthy up to here: a session that never starts is a session that did not complete
		st.Note += fmt.Sprintf("csign: no coordinator announced a subset (%d ready answers released); %s", released, strings.Join(left, "; "))
		return st
	case v < 0:
		return undriven("csign: nobody died")
	}
	for i, n := range nodes {
		members[i].got = n.values()
	}
	so := sessionOut{Completed: completed, Attempts: len(starts), Coord: -1}
	if len(starts) >= 2 {
		last = starts[len(starts)-1]
	} else {
		last = starts[0]
	}
	for i, p := range holders {
		for _, q := range peersOfParams(last.Params) {
			if p == q {
				if p == last.From {
					so.Coord = len(so.Signers)
				}
				so.Signers = append(so.Signers, i)
			}
		}
	}
	if !completed {
		so.Note = fmt.Sprintf("csign: attempt 1 selected %v and relayer %d died; %d attempts; the retry did not complete; %s",
			idxOf(u, peersOfParams(starts[0].Params)), committee[v], len(starts), strings.Join(left, "; "))
		if len(starts) < 2 {
			// nobody was selected a second time: the observation is about the first attempt's survivors
			so.Signers, so.Coord = nil, 0
		}
	} else if net.failed() == 0 {
		so.Note = "csign: no send to the dead relayer ever failed"
	}
	fillStage(&st, so, members, proto, digests, pub, tweaked)
	return st
}

// waitUntil polls cond (every 2 ms) until it holds or the limit has passed.
func waitUntil(limit time.Duration, cond func() bool) bool {
	deadline := time.Now().Add(limit)
	for {
		if cond() {
			return true
		}
		if time.Now().After(deadline) {
			return false
		}
		time.Sleep(2 * time.Millisecond)
	}
}

func idxOf(u []peer.ID, ps []peer.ID) []int {
	var out []int
	for _, p := range ps {
		k := -1
		for i, q := range u {
			if p == q {
				k = i
			}
		}
		out = append(out, k)
	}
	return out
}

// usableSid: threshlib derives the nonce of its zero-knowledge proofs from the session id
// (tss.ExpandSessionID: 33 bytes of SHA-256 XMD output for ids of at most 32 bytes) and its proof
// constructors refuse a nonce of fewer than 255 bits ("invalid nonce") - about one short session id in a
// thousand, for which no ECDSA session can ever complete (reported: a liveness matter of the third-party
// library, witness known_findings.d/C08-ecdsa-short-nonce-sid-witness.jsonl).  The generator does not use such ids.
func usableSid(sid string) bool {
	return libtss.ExpandSessionID(new(big.Int).SetBytes([]byte(sid)), 32).BitLen() >= 255
}

// sidFirst: a session id (prefix + counter) for which `want` sorts first among `peers`.
func sidFirst(prefix string, peers []peer.ID, want peer.ID) string {
	for k := 0; k < 5000; k++ {
		sid := fmt.Sprintf("%s-%d", prefix, k)
		if s := tssutil.SortPeersForSession(peers, sid); len(s) > 0 && s[0].ID == want && usableSid(sid) {
			return sid
		}
	}
	return prefix
}

// csignsFor: `count` sessions after `stage`; the static coordinator (the relayer that sorts first among
// the committee for the session id) rotates over the committee, so does the order of the ready
// answers, and the victim alternates between the coordinator and the other selected relayers.
func csignsFor(u []peer.ID, committee []int, t, stage, count int, rot uint64) []CSign {
	var out []CSign
	n := len(committee)
	for k := 0; k < count; k++ {
		first := committee[int((rot+uint64(k))%uint64(n))]
		sid := sidFirst(fmt.Sprintf("csign-%d-%d-%d", stage, rot%1000, k), pick(u, committee), u[first])
		off := int((rot/3 + uint64(k)) % uint64(n))
		order := append(append([]int(nil), committee[off:]...), committee[:off]...)
		if (rot+uint64(k))%2 == 1 {
			for i, j := 0, len(order)-1; i < j; i, j = i+1, j-1 {
				order[i], order[j] = order[j], order[i]
			}
		}
		out = append(out, CSign{Stage: stage, Sid: sid, Order: order, Victim: int((rot + uint64(k)) % uint64(t+1))})
	}
	return out
}

// coordReshare: the refresh to the committee newMembers (threshold newThreshold) with every relayer
// running Coordinator.Execute around its real resharing process.  who = the relayer (index into
// newMembers) whose start message began the refresh, -1 if none.
func (w *world) coordReshare(proto, sid string, newMembers []peer.ID, newThreshold int) (runResult, int) {
	net := newCnet()
	defer net.close()
	nodes := make([]*cnode, len(newMembers))
	for i, p := range newMembers {
		n := newCnode(net, p, newMembers, false)
		// (the relayer waits 3 minutes for the coordinator it expects before it gives the refresh up)
		n.co.CoordinatorTimeout = 45 * time.Second
		h := c08fakes.NewHost(p, newMembers)
		if proto == "ecdsa" {
			n.procs = []tss.TssProcess{eresharing.NewResharing(sid, newThreshold, h, n.cm, w.estore(p))}
		} else {
			n.procs = []tss.TssProcess{fresharing.NewResharing(sid, newThreshold, h, n.cm, w.fstore(p))}
		}
		nodes[i] = n
	}
	w.whileRefreshHoldsLock()
	root, cancelRoot := context.WithCancel(context.Background())
	defer cancelRoot()
	stop := make(chan struct{})
	defer close(stop)
	for _, n := range nodes {
		n.start(root, stop)
	}
	total := 180 * time.Second
	if proto == "frost" {
		total = 100 * time.Second
	}
	deadline := time.Now().Add(total)
	var grace time.Time
	res := runResult{Errs: make([]error, len(nodes)), Results: make([]released, len(nodes))}
	for {
		done, failed := 0, false
		for _, n := range nodes {
			if n.returned() {
				done++
				failed = failed || n.ferr != nil
			}
		}
		if done == len(nodes) {
			break
		}
		// a refresh is not retried: once a relayer has given up, the others get a moment
		if failed && grace.IsZero() {
			grace = time.Now().Add(4 * time.Second)
		}
		now := time.Now()
		if now.After(deadline) || (!grace.IsZero() && now.After(grace)) {
			res.TimedOut = !failed
			break
		}
		time.Sleep(10 * time.Millisecond)
	}
	cancelRoot()
	for i, n := range nodes {
		select {
		case <-n.done:
			res.Errs[i] = n.ferr
		case <-time.After(12 * time.Second):
			res.Errs[i] = fmt.Errorf("Execute did not return")
		}
	}
	who := -1
	if starts := net.startsSoFar(); len(starts) > 0 {
		for i, p := range newMembers {
			if p == starts[0].From {
				who = i
			}
		}
	} else if firstErr(res.Errs) == "" {
		res.Errs[0] = fmt.Errorf("no relayer started the refresh")
	}
	return res, who
}
