// The in-process network of the sessions that are driven through the REAL tss.Coordinator on every
// relayer (coord.go): election of the coordinator, initiate / ready / start messages, Run of the real
// processes, and - after a failed attempt - handleError, the bully re-election over this network and
// the retry on the same process objects.
//
// What the network adds to an ideal transport:
//   - a relayer can DIE: from then on every send addressed to it comes back with the transport's
//     *comm.CommunicationError (the other addressees of the call still get the message, as with
//     comm/p2p's Broadcast), and whatever it sends itself vanishes;
//   - the ready answers to the FIRST initiate message of a session can be held and released in a
//     scripted order (Coordinator.initiate selects the first threshold ready relayers: the order of
//     arrival decides the signing subset);
//   - protocol round messages belong to the attempt in which they were sent (epoch = number of start
//     messages that have entered the network): they reach a subscription of the same attempt only - a
//     late message of an abandoned attempt never reaches the retry.
//
// A message that finds nobody subscribed waits for the next matching subscription (a start message
// must not be lost to the race with the receiver's subscription, which is not this property's subject);
// every subscription gets its messages in the order of their arrival.
package main

import (
	"errors"
	"fmt"
	"sync"
	"time"

	"github.com/ChainSafe/sygma-relayer/comm"
	"github.com/ChainSafe/sygma-relayer/tss/message"
	"github.com/libp2p/go-libp2p/core/peer"
)

type csub struct {
	sid   string
	t     comm.MessageType
	ch    chan *comm.WrappedMessage
	done  chan struct{}
	epoch int
	mu    sync.Mutex
	queue []*comm.WrappedMessage
	busy  bool
}

type cstart struct {
	From   peer.ID
	Params []byte
}

type cheld struct {
	from, to peer.ID
	w        *comm.WrappedMessage
}

type cnet struct {
	mu     sync.Mutex
	nodes  map[peer.ID]*ccomm
	closed chan struct{}
	epoch  int
	dead   map[peer.ID]bool
	// ready messages are held (until the first start message)
	holdReady bool
	held      []cheld
	starts    []cstart
	// onStart: called when the k-th (1-based) start message enters the network, before it is delivered
	onStart func(k int, from peer.ID)
	// sends that failed because the addressee was dead
	failedSends int
}

func newCnet() *cnet {
	return &cnet{nodes: map[peer.ID]*ccomm{}, closed: make(chan struct{}), dead: map[peer.ID]bool{}}
}

func (n *cnet) close() { close(n.closed) }

func (n *cnet) kill(p peer.ID) {
	n.mu.Lock()
	n.dead[p] = true
	n.mu.Unlock()
}

func (n *cnet) failed() int {
	n.mu.Lock()
	defer n.mu.Unlock()
	return n.failedSends
}

func (n *cnet) startsSoFar() []cstart {
	n.mu.Lock()
	defer n.mu.Unlock()
	return append([]cstart(nil), n.starts...)
}

type crearly struct {
	w     *comm.WrappedMessage
	epoch int
}

type ccomm struct {
	net   *cnet
	self  peer.ID
	mu    sync.Mutex
	subs  map[comm.SubscriptionID]*csub
	nsub  int
	early []*crearly
}

func (n *cnet) join(self peer.ID) *ccomm {
	c := &ccomm{net: n, self: self, subs: map[comm.SubscriptionID]*csub{}}
	n.mu.Lock()
	n.nodes[self] = c
	n.mu.Unlock()
	return c
}

func (c *ccomm) CloseSession(string) {}

func roundMsg(t comm.MessageType) bool {
	return t == comm.TssKeySignMsg || t == comm.TssKeyGenMsg || t == comm.TssReshareMsg
}

func (c *ccomm) Subscribe(sid string, t comm.MessageType, ch chan *comm.WrappedMessage) comm.SubscriptionID {
	c.net.mu.Lock()
	ep := c.net.epoch
	c.net.mu.Unlock()
	c.mu.Lock()
	c.nsub++
	id := comm.SubscriptionID(fmt.Sprintf("%s-%d-%d", sid, t, c.nsub))
	s := &csub{sid: sid, t: t, ch: ch, done: make(chan struct{}), epoch: ep}
	c.subs[id] = s
	var flush []*comm.WrappedMessage
	var keep []*crearly
	for _, e := range c.early {
		if e.w.SessionID == sid && e.w.MessageType == t {
			if !roundMsg(t) || e.epoch == ep {
				flush = append(flush, e.w)
			} else if e.epoch > ep {
				keep = append(keep, e)
			} // (a round message of an earlier attempt is dropped)
		} else {
			keep = append(keep, e)
		}
	}
	c.early = keep
	c.mu.Unlock()
	for _, w := range flush {
		c.push(s, w)
	}
	return id
}

func (c *ccomm) UnSubscribe(id comm.SubscriptionID) {
	c.mu.Lock()
	if s := c.subs[id]; s != nil {
		close(s.done)
		delete(c.subs, id)
	}
	c.mu.Unlock()
}

// push: the subscription takes its messages one after the other, in the order of their arrival, for as
// long as it lives.
func (c *ccomm) push(s *csub, w *comm.WrappedMessage) {
	s.mu.Lock()
	s.queue = append(s.queue, w)
	if s.busy {
		s.mu.Unlock()
		return
	}
	s.busy = true
	s.mu.Unlock()
	go func() {
		for {
			s.mu.Lock()
			if len(s.queue) == 0 {
				s.busy = false
				s.mu.Unlock()
				return
			}
			m := s.queue[0]
			s.queue = s.queue[1:]
			s.mu.Unlock()
			select {
			case s.ch <- m:
			case <-s.done:
				return
			case <-c.net.closed:
				return
			}
		}
	}()
}

func (c *ccomm) arrive(w *comm.WrappedMessage, epoch int) {
	c.mu.Lock()
	var to []*csub
	for _, s := range c.subs {
		if s.sid == w.SessionID && s.t == w.MessageType && (!roundMsg(w.MessageType) || s.epoch == epoch) {
			to = append(to, s)
		}
	}
	if len(to) == 0 {
		c.early = append(c.early, &crearly{w: w, epoch: epoch})
	}
	c.mu.Unlock()
	for _, s := range to {
		c.push(s, w)
	}
}

func (c *ccomm) subscribed(sid string, t comm.MessageType) bool {
	c.mu.Lock()
	defer c.mu.Unlock()
	for _, s := range c.subs {
		if s.sid == sid && s.t == t {
			return true
		}
	}
	return false
}

func (c *ccomm) Broadcast(peers peer.IDSlice, msg []byte, t comm.MessageType, sid string) error {
	n := c.net
	payload := append([]byte(nil), msg...)
	n.mu.Lock()
	if n.dead[c.self] {
		n.mu.Unlock()
		return nil // (nobody hears a dead relayer)
	}
	var hook func(int, peer.ID)
	k := 0
	if t == comm.TssStartMsg {
		n.epoch++
		var params []byte
		if sm, err := message.UnmarshalStartMessage(payload); err == nil {
			params = sm.Params
		}
		n.starts = append(n.starts, cstart{From: c.self, Params: params})
		k = len(n.starts)
		hook = n.onStart
	}
	epoch := n.epoch
	n.mu.Unlock()
	if hook != nil {
		hook(k, c.self)
	}
	var first error
	for _, p := range peers {
		if p == c.self {
			continue // the real Libp2pCommunication.Broadcast does not send to itself either
		}
		n.mu.Lock()
		dst, dead := n.nodes[p], n.dead[p]
		if dead {
			n.failedSends++
		}
		hold := t == comm.TssReadyMsg && n.holdReady && !dead && dst != nil
		w := &comm.WrappedMessage{MessageType: t, SessionID: sid, Payload: payload, From: c.self}
		if hold {
			n.held = append(n.held, cheld{from: c.self, to: p, w: w})
		}
		n.mu.Unlock()
		switch {
		case dead:
			if first == nil {
				first = &comm.CommunicationError{Peer: p, Err: errors.New("failed to dial: all dials failed (the relayer is gone)")}
			}
		case dst == nil, hold:
		default:
			dst.arrive(w, epoch)
		}
	}
	return first
}

// releaseHeld delivers the oldest held ready message from -> (whoever it was addressed to), waiting for
// it; false: none came.
func (n *cnet) releaseHeld(from peer.ID, stop <-chan struct{}, limit time.Duration) bool {
	deadline := time.Now().Add(limit)
	for {
		n.mu.Lock()
		for i, h := range n.held {
			if h.from == from {
				n.held = append(n.held[:i], n.held[i+1:]...)
				dst, ep := n.nodes[h.to], n.epoch
				n.mu.Unlock()
				if dst != nil {
					dst.arrive(h.w, ep)
				}
				return true
			}
		}
		n.mu.Unlock()
		select {
		case <-stop:
			return false
		default:
		}
		if time.Now().After(deadline) {
			return false
		}
		time.Sleep(2 * time.Millisecond)
	}
}

// stopHolding: from now on ready messages travel freely; what is still held is lost.
func (n *cnet) stopHolding() {
	n.mu.Lock()
	n.holdReady = false
	n.held = nil
	n.mu.Unlock()
}
