// BtcExec cases: the COMPLETE BTC executor on three relayers - the real Executor.Execute (transaction
// assembly from the mempool's UTXOs, one Taproot signature hash and one FROST signing process per
// input, the real tss.Coordinator, watchExecution, sendTx) with the repository's FROST fixture shares,
// an in-process transport and one in-process JSON-RPC node per relayer.  Every transaction that
// reaches a node is verified input by input with btcd's script engine against the bridge's Taproot
// output (tweaked group key): what the executor submits must carry a valid BIP-340 signature on
// every input.
package main

import (
	"context"
	"crypto/sha256"
	"encoding/hex"
	"fmt"
	"net/http/httptest"
	"strings"
	"sync"
	"time"

	btcconfig "github.com/ChainSafe/sygma-relayer/chains/btc/config"
	"github.com/ChainSafe/sygma-relayer/chains/btc/connection"
	btcexec "github.com/ChainSafe/sygma-relayer/chains/btc/executor"
	"github.com/ChainSafe/sygma-relayer/chains/btc/mempool"
	"github.com/ChainSafe/sygma-relayer/comm/elector"
	"github.com/ChainSafe/sygma-relayer/config/relayer"
	"github.com/ChainSafe/sygma-relayer/store"
	"github.com/ChainSafe/sygma-relayer/tss"
	"github.com/btcsuite/btcd/btcec/v2/schnorr"
	"github.com/btcsuite/btcd/btcutil"
	"github.com/btcsuite/btcd/chaincfg"
	"github.com/btcsuite/btcd/chaincfg/chainhash"
	"github.com/btcsuite/btcd/rpcclient"
	"github.com/btcsuite/btcd/txscript"
	"github.com/btcsuite/btcd/wire"
	"github.com/sygmaprotocol/sygma-core/relayer/proposal"

	"verifharness/tssfakes"
)

type memProps struct {
	mu sync.Mutex
	m  map[string]store.PropStatus
}

func (p *memProps) key(s, d uint8, n uint64) string { return fmt.Sprintf("%d-%d-%d", s, d, n) }
func (p *memProps) StorePropStatus(s, d uint8, n uint64, st store.PropStatus) error {
	p.mu.Lock()
	defer p.mu.Unlock()
	p.m[p.key(s, d, n)] = st
	return nil
}
func (p *memProps) PropStatus(s, d uint8, n uint64) (store.PropStatus, error) {
	p.mu.Lock()
	defer p.mu.Unlock()
	if st, ok := p.m[p.key(s, d, n)]; ok {
		return st, nil
	}
	return store.MissingProp, nil
}

type fixedMempool struct{ utxos []mempool.Utxo }

func (m fixedMempool) RecommendedFee() (*mempool.Fee, error) { return &mempool.Fee{EconomyFee: 1}, nil }
func (m fixedMempool) Utxos(string) ([]mempool.Utxo, error)  { return m.utxos, nil }

type fixedUploader struct{}

func (fixedUploader) Upload([]map[string]interface{}) (string, error) { return "QmC08", nil }

func runBtcExec(c Case) Obs {
	o := Obs{}
	n := c.Inputs
	btcexec.VerifSetSigningTimeout(90 * time.Second)
	fp := fixturePeers()[:3]
	w := newWorld(c.Seed, fixturePeers())
	defer w.close()
	w.installFixtures()
	if c.Refresh {
		// the committee's shares are refreshed first (the real resharing processes, same committee and
		// threshold); the executors below get the relayers' long-lived stores
		r, err := w.frostReshare("reshare-btcexec", fp, 1)
		if err != nil || r.TimedOut || firstErr(r.Errs) != "" {
			o.BtcNote = "refresh: " + firstErr(r.Errs)
			return o
		}
	}
	k0, err := w.frostKey(fp[0])
	if err != nil {
		o.BtcNote = "fixture share: " + err.Error()
		return o
	}
	internal, err := schnorr.ParsePubKey(k0.Key.PublicKey)
	if err != nil {
		o.BtcNote = "group key: " + err.Error()
		return o
	}
	tweak := chainhash.TaggedHash(chainhash.TagTapTweak, schnorr.SerializePubKey(internal))
	outKey := txscript.ComputeTaprootKeyNoScript(internal)
	params := chaincfg.RegressionNetParams
	addr, err := btcutil.NewAddressTaproot(schnorr.SerializePubKey(outKey), &params)
	if err != nil {
		o.BtcNote = "address: " + err.Error()
		return o
	}
	pkScript, _ := txscript.PayToAddrScript(addr)
	var rid [32]byte
	rid[31] = 0x30
	resource := btcconfig.Resource{Address: addr, ResourceID: rid, Tweak: hex.EncodeToString(tweak[:]), Script: pkScript}

	// the bridge's UTXOs as the mempool serves them (c.Values: in general every one of another value); the
	// executor needs exactly the first n of them for the transfer.  prevOuts is the CHAIN's view of these
	// outputs - amount and script of each - and what every witness of a broadcast transaction is verified
	// against below (BIP-341: the digest an input's signature covers commits to the amounts and scripts of
	// ALL spent outputs), whatever the executor itself took them to be.
	values := c.Values
	if len(values) == 0 {
		values = []uint64{10000, 10000, 10000, 10000, 10000}
	}
	if n < 1 || n > len(values) {
		o.BtcNote = "more inputs asked for than UTXOs offered"
		return o
	}
	var utxos []mempool.Utxo
	prevOuts := map[wire.OutPoint]*wire.TxOut{}
	for i, value := range values {
		h := sha256.Sum256([]byte(fmt.Sprintf("c08-btcexec-utxo-%d-%d", c.Seed, i)))
		ch := chainhash.Hash(h)
		utxos = append(utxos, mempool.Utxo{TxID: ch.String(), Vout: uint32(i), Value: value})
		prevOuts[*wire.NewOutPoint(&ch, uint32(i))] = wire.NewTxOut(int64(value), pkScript)
	}
	fetcher := txscript.NewMultiPrevOutFetcher(prevOuts)
	// (the first n-1 do not cover amount + fee estimate, the first n cover amount + fee: every value is
	// at least 6000, the fee of a transaction with 4 inputs is 3940)
	amount := uint64(1000)
	for _, v := range values[:n-1] {
		amount += v
	}
	msgID := fmt.Sprintf("c08-btcexec-%d", c.Seed)
	props := []*proposal.Proposal{{Source: 1, Destination: 2, MessageID: msgID,
		Data: btcexec.BtcTransferProposalData{Amount: amount, Recipient: addr.EncodeAddress(), DepositNonce: c.Seed%1000 + 1, ResourceId: rid}}}

	hub := tssfakes.NewHub()
	nodes := make([]*btcNode, len(fp))
	done := make(chan int, len(fp))
	var closers []func()
	defer func() {
		for _, f := range closers {
			f()
		}
	}()
	for i, p := range fp {
		led := tssfakes.NewLedger()
		host := tssfakes.NewFakeHost(p, fp)
		cm := tssfakes.NewRecComm(p, led)
		hub.Join(cm)
		co := tss.NewCoordinator(host, cm, elector.NewCoordinatorElectorFactory(host, relayer.BullyConfig{}))
		co.InitiatePeriod, co.CoordinatorTimeout, co.TssTimeout = 200*time.Millisecond, 60*time.Second, 90*time.Second
		nodes[i] = &btcNode{}
		srv := httptest.NewServer(nodes[i])
		client, err := rpcclient.New(&rpcclient.ConnConfig{HTTPPostMode: true, Host: strings.TrimPrefix(srv.URL, "http://"), User: "u", Pass: "p", DisableTLS: true}, nil)
		if err != nil {
			srv.Close()
			o.BtcNote = "rpc client: " + err.Error()
			return o
		}
		closers = append(closers, client.Shutdown, srv.Close)
		ex := btcexec.NewExecutor(&memProps{m: map[string]store.PropStatus{}}, host, cm, co, w.fstore(p),
			&connection.Connection{Client: client}, fixedMempool{utxos}, map[[32]byte]btcconfig.Resource{rid: resource}, params, &sync.RWMutex{}, fixedUploader{})
		go func(i int) {
			defer func() { _ = recover(); done <- i }()
			_ = ex.Execute(props)
		}(i)
	}
	// threshold+1 = 2 relayers sign and send; the third one is not selected and keeps waiting for a
	// start message (its Execute ends with the signing timeout): wait for two, then a moment for a
	// third transaction that must not be different
	deadline := time.After(80 * time.Second)
	for got := 0; got < 2; {
		select {
		case <-done:
			got++
		case <-deadline:
			o.BtcNote += "the signers did not finish; "
			got = 2
		}
	}
	time.Sleep(300 * time.Millisecond)

	for _, node := range nodes {
		node.mu.Lock()
		sent := len(node.sent) + node.bad
		valids := make([]bool, n)
		for i := range valids {
			valids[i] = node.bad == 0
		}
		for _, got := range node.sent {
			if len(got.TxIn) != n {
				for i := range valids {
					valids[i] = false
				}
				continue
			}
			hashes := txscript.NewTxSigHashes(got, fetcher)
			for i := range got.TxIn {
				prev := fetcher.FetchPrevOutput(got.TxIn[i].PreviousOutPoint)
				if prev == nil { // (an input that spends nothing the bridge owns)
					valids[i] = false
					continue
				}
				vm, err := txscript.NewEngine(prev.PkScript, got, i, txscript.StandardVerifyFlags, nil, hashes, prev.Value, fetcher)
				if err != nil || vm.Execute() != nil {
					valids[i] = false
				}
			}
		}
		node.mu.Unlock()
		o.Relayers = append(o.Relayers, RelayerTx{Sent: sent, Valids: valids})
	}
	_ = context.Background
	return o
}
