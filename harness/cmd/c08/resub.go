// Signing sessions whose ABANDONED first attempt ran with ANOTHER subset.
//
// tss.Coordinator keeps the process objects of a session for its whole life: after a retryable failure
// (a CommunicationError from the transport, or the one monitorSigning returns when nobody has made
// progress) it elects a coordinator again, collects the relayers that are ready NOW and calls Run again
// on the same objects with the subset computed from them - in general another subset than the one of
// the abandoned attempt.  Whatever an attempt left in the object (the party store with the parties'
// positions among that attempt's sorted subset, the narrowed peer list, the local party, the
// subscription, the coordinator flag) belongs to that attempt only: the threshold+1 healthy holders of
// the retry must obtain a valid signature.
//
// A Resub case names both subsets.  The generator (resubsFor) prefers pairs in which a relayer common
// to both has a different position among the sorted parties of S1 and of S2 (the party index of
// tss-lib / the order of the FROST party ids), and adds pairs in which the retry's subset shares
// several, one or all-but-one relayers with the abandoned one.
package main

import (
	"fmt"
	"strings"
	"time"

	ecommon "github.com/ChainSafe/sygma-relayer/tss/ecdsa/common"
	"github.com/libp2p/go-libp2p/core/peer"
)

func resubStage(w *world, c Case, u []peer.ID, committee []int, rs Resub, k int, must bool, pub []byte) Stage {
	proto := c.Proto
	st := Stage{Must: must, Subset: rs.S2, Coord: rs.C2}
	inCommittee := func(l []int) bool {
		for _, x := range l {
			ok := false
			for _, m := range committee {
				ok = ok || m == x
			}
			if !ok {
				return false
			}
		}
		return len(l) > 0
	}
	if !inCommittee(rs.S1) || !inCommittee(rs.S2) || rs.C1 < 0 || rs.C1 >= len(rs.S1) || rs.C2 < 0 || rs.C2 >= len(rs.S2) {
		st.Must = false
		st.Note = "resub: the subsets are not subsets of the committee"
		return st
	}
	o := normOpts(proto, signOpts{Chan: rs.Chan, Reader: rs.Reader, Inputs: rs.Inputs, Offline: c.Offline})
	_, digests, tweakHex, tweaked, perr := signPlan(proto, rs.Stage, rs.S2, c.Seed+1000+uint64(k), pub, o)
	if perr != nil {
		st.Note = perr.Error()
		return st
	}
	join := func(l []int) string { return strings.Trim(strings.ReplaceAll(fmt.Sprint(l), " ", "_"), "[]") }
	sid := fmt.Sprintf("resub-%d-%d-%s-%s", rs.Stage, k, join(rs.S1), join(rs.S2))
	// the relayers: those of the retry first (positions 0..|S2|-1), then the ones only the abandoned attempt had
	idx := append([]int(nil), rs.S2...)
	pos := map[int]int{}
	for i, m := range idx {
		pos[m] = i
	}
	for _, m := range rs.S1 {
		if _, ok := pos[m]; !ok {
			pos[m] = len(idx)
			idx = append(idx, m)
		}
	}
	members, sids, err := w.signMembers(proto, sid, pick(u, committee), pick(u, idx), digests, tweakHex)
	if err != nil {
		st.Note += "could not create the signing processes: " + err.Error()
		return st
	}
	if o.Offline {
		setOffline(members, u, committee, idx)
	}
	first := attempt{coord: pos[rs.S1[rs.C1]]}
	for _, m := range rs.S1 {
		first.ready = append(first.ready, pos[m])
	}
	switch rs.How {
	case "lost":
		first.lost = true
	default:
		first.fault = true
		if proto == "ecdsa" && len(rs.S1) > 2 {
			// (see signStage: after a failed first send threshlib's Start() never returns with > 2 signers)
			first.fault, first.lost = false, true
		}
	}
	second := attempt{coord: rs.C2}
	for i := range rs.S2 {
		second.ready = append(second.ready, i)
	}
	so := runSession(w.hub, members, sids, []attempt{first, second}, o, 120*time.Second, proto == "ecdsa")
	if so.Attempts < 2 && so.Completed {
		so.Completed = false // (cannot happen: nothing of the first attempt is delivered)
	}
	fillStage(&st, so, members, proto, digests, pub, tweaked)
	return st
}

// rankIn: position of relayer m among the sorted parties of the subset (PartiesFromPeers: the order both
// protocols of this code base use - the value / the text of the peer id).
func rankIn(u []peer.ID, subset []int, m int) int {
	for _, p := range ecommon.PartiesFromPeers(pick(u, subset)) {
		if p.Id == u[m].String() {
			return p.Index
		}
	}
	return -1
}

// resubsFor: ordered pairs (S1, S2) of threshold+1 subsets of the committee, S1 != S2, with at least one
// common relayer; first those in which a common relayer changes its position, most-overlapping first.
// Coordinators rotate with k.
func resubsFor(u []peer.ID, committee []int, t, stage int, how []string, max int, rot uint64) []Resub {
	subs := subsetsOf(committee, t+1)
	type cand struct {
		s1, s2 []int
		moved  bool
		common int
	}
	var moved, other []cand
	for _, s1 := range subs {
		for _, s2 := range subs {
			if fmt.Sprint(s1) == fmt.Sprint(s2) {
				continue
			}
			cd := cand{s1: s1, s2: s2}
			for _, m := range s1 {
				for _, n := range s2 {
					if m == n {
						cd.common++
						if rankIn(u, s1, m) != rankIn(u, s2, m) {
							cd.moved = true
						}
					}
				}
			}
			if cd.common == 0 {
				continue
			}
			if cd.moved {
				moved = append(moved, cd)
			} else {
				other = append(other, cd)
			}
		}
	}
	rotate := func(l []cand) []cand {
		if len(l) == 0 {
			return l
		}
		off := int(rot % uint64(len(l)))
		return append(append([]cand(nil), l[off:]...), l[:off]...)
	}
	all := append(rotate(moved), rotate(other)...)
	var out []Resub
	for k, cd := range all {
		if len(out) >= max {
			break
		}
		out = append(out, Resub{Stage: stage, S1: cd.s1, C1: int((rot + uint64(k)) % uint64(len(cd.s1))), S2: cd.s2,
			C2: int((rot + uint64(k) + 1) % uint64(len(cd.s2))), How: how[k%len(how)]})
	}
	return out
}
