// BtcWatch cases: the REAL BTC executor's watchExecution (the code between the signing results and
// the broadcast of the transaction; reached through the add-only hook
// harness/hooks/C08/chains/btc/executor) on a Taproot transaction with n inputs.
//
// The harness plays the signing processes: for every entry of Results it puts what the process of
// that input releases - a real BIP-340 signature over that input's BIP-341 signature hash under the
// tweaked output key (a retried process signs again with a fresh nonce) - or a nil value on the
// executor's signature channel, in the order given: inputs deliver more than once (a retried batch
// runs every process again), out of order, or never.  The node is an HTTP JSON-RPC server in this
// process: every transaction that reaches sendrawtransaction is decoded and each input's witness
// is verified with btcd's script engine against the Taproot output it spends.
package main

import (
	"bytes"
	"context"
	"crypto/sha256"
	"encoding/hex"
	"encoding/json"
	"fmt"
	"io"
	"net/http"
	"net/http/httptest"
	"strings"
	"sync"
	"time"

	"github.com/ChainSafe/sygma-relayer/chains/btc/connection"
	btcexec "github.com/ChainSafe/sygma-relayer/chains/btc/executor"
	fsigning "github.com/ChainSafe/sygma-relayer/tss/frost/signing"
	"github.com/btcsuite/btcd/btcec/v2"
	"github.com/btcsuite/btcd/btcec/v2/schnorr"
	"github.com/btcsuite/btcd/chaincfg/chainhash"
	"github.com/btcsuite/btcd/rpcclient"
	"github.com/btcsuite/btcd/txscript"
	"github.com/btcsuite/btcd/wire"
	"github.com/taurusgroup/multi-party-sig/pkg/taproot"

	"verifharness/c08fakes"
	"verifharness/vgen"
)

// btcNode: the JSON-RPC methods rpcclient needs for SendRawTransaction.
type btcNode struct {
	mu   sync.Mutex
	sent []*wire.MsgTx
	bad  int // sendrawtransaction calls whose payload did not decode
}

func (n *btcNode) ServeHTTP(w http.ResponseWriter, r *http.Request) {
	body, _ := io.ReadAll(r.Body)
	var req struct {
		Method string            `json:"method"`
		Params []json.RawMessage `json:"params"`
		ID     json.RawMessage   `json:"id"`
	}
	_ = json.Unmarshal(body, &req)
	var result interface{}
	switch req.Method {
	case "getnetworkinfo":
		result = map[string]interface{}{"version": 250000, "subversion": "/Satoshi:25.0.0/"}
	case "getblockchaininfo":
		result = map[string]interface{}{"chain": "regtest"}
	case "sendrawtransaction":
		var txHex string
		tx := wire.NewMsgTx(wire.TxVersion)
		ok := len(req.Params) > 0 && json.Unmarshal(req.Params[0], &txHex) == nil
		if ok {
			raw, err := hex.DecodeString(txHex)
			ok = err == nil && tx.Deserialize(bytes.NewReader(raw)) == nil
		}
		n.mu.Lock()
		if ok {
			n.sent = append(n.sent, tx)
		} else {
			n.bad++
		}
		n.mu.Unlock()
		result = tx.TxHash().String()
	}
	resp, _ := json.Marshal(map[string]interface{}{"result": result, "error": nil, "id": req.ID})
	w.Header().Set("Content-Type", "application/json")
	_, _ = w.Write(resp)
}

func runBtcWatch(c Case) Obs {
	n := c.Inputs
	o := Obs{}
	node := &btcNode{}
	srv := httptest.NewServer(node)
	defer srv.Close()
	client, err := rpcclient.New(&rpcclient.ConnConfig{
		HTTPPostMode: true,
		Host:         strings.TrimPrefix(srv.URL, "http://"),
		User:         "u",
		Pass:         "p",
		DisableTLS:   true,
	}, nil)
	if err != nil {
		o.BtcNote = "rpc client: " + err.Error()
		return o
	}
	defer client.Shutdown()

	// the bridge's Taproot output: internal key P (here an ordinary key; in the relayer the FROST
	// group key), output key Q = P + H_TapTweak(P) G, spent by the key path
	seed := sha256.Sum256([]byte(fmt.Sprintf("c08-btc-key-%d", c.Seed)))
	priv, _ := btcec.PrivKeyFromBytes(seed[:])
	pkScript, err := txscript.PayToTaprootScript(txscript.ComputeTaprootKeyNoScript(priv.PubKey()))
	if err != nil {
		o.BtcNote = "pkScript: " + err.Error()
		return o
	}
	signKey := txscript.TweakTaprootPrivKey(*priv, nil)

	tx := wire.NewMsgTx(wire.TxVersion)
	amounts := make([]int64, n)
	prevOuts := make(map[wire.OutPoint]*wire.TxOut)
	total := int64(0)
	for i := 0; i < n; i++ {
		amounts[i] = 5000 + 1000*int64(i) + int64(c.Seed%977)
		total += amounts[i]
		h := chainhash.Hash(sha256.Sum256([]byte(fmt.Sprintf("c08-btc-prev-%d-%d", c.Seed, i))))
		op := wire.NewOutPoint(&h, uint32(i))
		tx.AddTxIn(wire.NewTxIn(op, nil, nil))
		prevOuts[*op] = wire.NewTxOut(amounts[i], pkScript)
	}
	tx.AddTxOut(wire.NewTxOut(total-1000, pkScript))
	fetcher := txscript.NewMultiPrevOutFetcher(prevOuts)
	sigHashes := txscript.NewTxSigHashes(tx, fetcher)
	hashes := make([][]byte, n)
	for i := 0; i < n; i++ {
		hashes[i], err = txscript.CalcTaprootSignatureHash(sigHashes, txscript.SigHashDefault, tx, i, fetcher)
		if err != nil {
			o.BtcNote = "sighash: " + err.Error()
			return o
		}
	}

	sigChn := make(chan interface{}, n) // executeResourceProps: make(chan interface{}, len(tx.TxIn))
	ctx, cancel := context.WithCancel(context.Background())
	defer cancel()
	done := make(chan string, 1)
	h := c08fakes.NewHost(fixturePeers()[0], fixturePeers()[:3])
	hub := c08fakes.NewHub(c.Seed)
	cm := hub.Join(fixturePeers()[0])
	go func() {
		note := ""
		defer func() {
			if r := recover(); r != nil {
				note = fmt.Sprintf("watchExecution panicked: %v", r)
			}
			done <- note
		}()
		if err := btcexec.VerifWatchExecution(ctx, func() {}, &connection.Connection{Client: client}, h, cm, tx, sigChn, "c08btc", "c08btc"); err != nil {
			note = "watchExecution: " + err.Error()
		}
	}()

	finished := false
	note := ""
	deliveries := map[int]int{}
feed:
	for _, id := range c.Results {
		var v interface{}
		if id >= 0 {
			// what the signing process of input id releases (a retried process signs afresh)
			aux := sha256.Sum256([]byte(fmt.Sprintf("c08-btc-aux-%d-%d-%d", c.Seed, id, deliveries[id])))
			deliveries[id]++
			s, err := schnorr.Sign(signKey, hashes[id], schnorr.CustomNonce(aux))
			if err != nil {
				o.BtcNote = "sign: " + err.Error()
				return o
			}
			v = fsigning.Signature{Id: id, Signature: taproot.Signature(s.Serialize())}
		}
		select {
		case sigChn <- v:
		case note = <-done:
			finished = true
			break feed
		case <-time.After(20 * time.Second):
			o.BtcNote = "the executor stopped reading the signature channel; "
			break feed
		}
	}
	if !finished {
		// everything delivered has been taken (each value is handled before the next select)
		deadline := time.Now().Add(20 * time.Second)
		for len(sigChn) > 0 && time.Now().Before(deadline) {
			select {
			case note = <-done:
				finished = true
			default:
				time.Sleep(200 * time.Microsecond)
			}
			if finished {
				break
			}
		}
	}
	if !finished {
		cancel() // nothing more will come: the execution ends (context) without a transaction
		select {
		case note = <-done:
		case <-time.After(20 * time.Second):
			o.BtcNote += "watchExecution did not return; "
		}
	}
	o.BtcNote += note

	node.mu.Lock()
	defer node.mu.Unlock()
	o.Sent = len(node.sent) + node.bad
	if o.Sent > 0 {
		o.Valids = make([]bool, n)
		for i := range o.Valids {
			o.Valids[i] = node.bad == 0
		}
		for _, got := range node.sent {
			if len(got.TxIn) != n {
				for i := range o.Valids {
					o.Valids[i] = false
				}
				continue
			}
			gotHashes := txscript.NewTxSigHashes(got, fetcher)
			for i := range got.TxIn {
				if got.TxIn[i].PreviousOutPoint != tx.TxIn[i].PreviousOutPoint {
					o.Valids[i] = false
					continue
				}
				vm, err := txscript.NewEngine(pkScript, got, i, txscript.StandardVerifyFlags, nil, gotHashes, amounts[i], fetcher)
				if err != nil || vm.Execute() != nil {
					o.Valids[i] = false
				}
			}
		}
	}
	return o
}

// genBtcWatch: result sequences for transactions with 1..4 inputs.
func genBtcWatch(r *vgen.Rng, tier string) []Case {
	var out []Case
	mk := func(n int, res []int) {
		out = append(out, Case{Kind: "btcwatch", Inputs: n, Results: res, Seed: r.U64() % 100000})
	}
	perm := func(n int) []int {
		p := make([]int, n)
		for i := range p {
			p[i] = i
		}
		r.Shuffle(n, func(a, b int) { p[a], p[b] = p[b], p[a] })
		return p
	}
	// a finished input delivers again before the missing one (partial failure, retried batch)
	mk(2, []int{0, 0, 1})
	mk(2, []int{1, 1, 0})
	mk(3, []int{2, 0, 2, 0, 1})
	mk(1, []int{0})
	mk(2, []int{0, -1, 1})
	mk(2, []int{0, 0})
	mk(3, []int{1, 1, 1})
	k := 40
	if tier == "thorough" {
		k = 400
	}
	for i := 0; i < k; i++ {
		n := r.Range(1, 4)
		var res []int
		switch r.Intn(5) {
		case 0: // every input once, any order
			res = perm(n)
		case 1: // a first attempt in which some inputs finish, then the whole batch again
			for _, id := range perm(n) {
				if r.Bool() {
					res = append(res, id)
				}
			}
			if len(res) == n {
				res = res[:n-1]
			}
			if r.Bool() && len(res) > 0 { // ... and once more
				res = append(res, res[r.Intn(len(res))])
			}
			res = append(res, perm(n)...)
		case 2: // some input never delivers
			miss := r.Intn(n)
			for j := r.Range(0, 2*n); j > 0; j-- {
				if id := r.Intn(n); id != miss {
					res = append(res, id)
				}
			}
		case 3: // anything
			for j := r.Range(0, 3*n); j > 0; j-- {
				res = append(res, r.Intn(n))
			}
		case 4: // complete, and results keep coming afterwards
			res = append(perm(n), perm(n)...)
		}
		// nil values in between
		if r.Chance(1, 3) {
			var with []int
			for _, id := range res {
				if r.Chance(1, 3) {
					with = append(with, -1)
				}
				with = append(with, id)
			}
			res = with
		}
		mk(n, res)
	}
	return out
}
