// Abandoned sessions and the relayers' long-lived stores.
//
// A running relayer owns ONE ECDSA and ONE FROST key-share store object; every keygen / resharing /
// signing process it ever constructs gets that object.  Most key generations and refreshes a relayer
// constructs are never run to completion: not all peers were ready, the request was refused as
// already pending, the session timed out or was cancelled before start, the start parameters were
// rejected - tss.Coordinator.Execute then just calls Stop.  Whatever such an abandoned process did to
// what it loaded from the store (FROST NewResharing sets key.Key.Threshold in place, FROST Resharing.Run
// adds verification shares to the map it loaded, ECDSA validateStartParams sorts key.Peers in place)
// must stay ITS copy: the stored key is still the key, and the committee signs as before.
//
//   - abandon: a keygen / resharing process (changed threshold, changed committee) is constructed on
//     every member's long-lived store and then given up: Stop without Run | Run with a context that
//     is already cancelled, then Stop (FROST) | Run with rejected start parameters, then Stop
//   - storeView: after every stage each holder's share is read TWICE through its long-lived store;
//     the first result is modified the way the processes of this repository modify what they loaded,
//     the second must still equal what a fresh store object reads from the file
package main

import (
	"context"
	"fmt"
	"time"

	"github.com/ChainSafe/sygma-relayer/keyshare"
	"github.com/ChainSafe/sygma-relayer/tss"
	ekeygen "github.com/ChainSafe/sygma-relayer/tss/ecdsa/keygen"
	eresharing "github.com/ChainSafe/sygma-relayer/tss/ecdsa/resharing"
	fkeygen "github.com/ChainSafe/sygma-relayer/tss/frost/keygen"
	fresharing "github.com/ChainSafe/sygma-relayer/tss/frost/resharing"
	"github.com/libp2p/go-libp2p/core/peer"
	"github.com/taurusgroup/multi-party-sig/pkg/math/curve"
	"github.com/taurusgroup/multi-party-sig/pkg/party"

	"verifharness/c08fakes"
)

// abandon constructs the processes of a key generation (op keygen) or refresh of `members` with
// threshold t on the members' long-lived stores and gives them up in the way `mode` says.  It returns
// a note if the harness could not drive it (a Run that does not come back).
func (w *world) abandon(proto, sid string, members []peer.ID, t int, op, mode string) string {
	procs := make([]tss.TssProcess, len(members))
	coord := 0
	haveCoord := false
	for i, p := range members {
		h := c08fakes.NewHost(p, members)
		switch {
		case proto == "ecdsa" && op == "keygen":
			procs[i] = ekeygen.NewKeygen(sid, t, h, w.comm[p], w.estore(p))
		case proto == "ecdsa":
			procs[i] = eresharing.NewResharing(sid, t, h, w.comm[p], w.estore(p))
			if _, err := w.ecdsaKey(p); err == nil && !haveCoord {
				coord, haveCoord = i, true
			}
		case op == "keygen":
			procs[i] = fkeygen.NewKeygen(sid, t, h, w.comm[p], w.fstore(p))
		default:
			procs[i] = fresharing.NewResharing(sid, t, h, w.comm[p], w.fstore(p))
			if _, err := w.frostKey(p); err == nil && !haveCoord {
				coord, haveCoord = i, true
			}
		}
	}
	note := ""
	run := func(ctx context.Context, params []byte, bound time.Duration) {
		done := make(chan struct{}, len(procs))
		for i := range procs {
			go func(i int) {
				defer func() { _ = recover(); done <- struct{}{} }()
				_ = procs[i].Run(ctx, i == coord, make(chan interface{}, 4), params)
			}(i)
		}
		deadline := time.After(bound)
		for range procs {
			select {
			case <-done:
			case <-deadline:
				note = fmt.Sprintf("abandoned %s: Run did not return within %v; ", sid, bound)
				return
			}
		}
	}
	switch {
	case mode == "cancel" && proto == "frost" && op != "keygen":
		// the session is cancelled before the process runs: Run with a context that is already done
		// (the FROST processes still sleep their start-up pause before they look at the context)
		ctx, cancel := context.WithCancel(context.Background())
		cancel()
		run(ctx, procs[coord].StartParams(members), 40*time.Second)
	case mode == "badparams" && op != "keygen":
		// the start parameters are rejected: Run returns an error before the protocol starts
		params := []byte("\x00 not start parameters")
		if proto == "ecdsa" {
			params = []byte(`{"oldThreshold":0,"oldSubset":[]}`)
		}
		run(context.Background(), params, 20*time.Second)
	}
	// every other mode: Stop without Run (what Execute's deferred clean-up does with the processes of a
	// session that never started)
	for i := range procs {
		func() {
			defer func() { _ = recover() }()
			procs[i].Stop()
		}()
	}
	return note
}

func samePeers(a, b []peer.ID) bool {
	if len(a) != len(b) {
		return false
	}
	for i := range a {
		if a[i] != b[i] {
			return false
		}
	}
	return true
}

// ecdsaView: the share of relayer p as its long-lived store hands it out, read twice; file = what a
// fresh store object reads.  Returns what is wrong ("" = the second read equals the file).
func (w *world) ecdsaView(p peer.ID, file keyshare.ECDSAKeyshare) string {
	st := w.estore(p)
	k1, err := st.GetKeyshare()
	if err != nil {
		return "the relayer's store cannot read the share: " + err.Error()
	}
	// what a process does with what it loaded: resharing's validateStartParams sorts key.Peers in place
	for i, j := 0, len(k1.Peers)-1; i < j; i, j = i+1, j-1 {
		k1.Peers[i], k1.Peers[j] = k1.Peers[j], k1.Peers[i]
	}
	k1.Threshold += 5
	k2, err := st.GetKeyshare()
	if err != nil {
		return "the relayer's store cannot read the share a second time: " + err.Error()
	}
	switch {
	case k2.Threshold != file.Threshold:
		return fmt.Sprintf("the relayer's store hands out threshold %d, the file says %d", k2.Threshold, file.Threshold)
	case !samePeers(k2.Peers, file.Peers):
		return "the relayer's store hands out another committee than the file"
	case k2.Key.Xi == nil || file.Key.Xi == nil || k2.Key.Xi.Cmp(file.Key.Xi) != 0 || k2.Key.ShareID.Cmp(file.Key.ShareID) != 0:
		return "the relayer's store hands out another share than the file"
	case k2.Key.ECDSAPub == nil || !k2.Key.ECDSAPub.Equals(file.Key.ECDSAPub):
		return "the relayer's store hands out another public key than the file"
	case len(k2.Key.Ks) != len(file.Key.Ks):
		return "the relayer's store hands out another party list than the file"
	}
	return ""
}

func (w *world) frostView(p peer.ID, file keyshare.FrostKeyshare) string {
	st := w.fstore(p)
	k1, err := st.GetKeyshare()
	if err != nil {
		return "the relayer's store cannot read the share: " + err.Error()
	}
	// what the processes of this repository do with what they loaded: NewResharing sets
	// key.Key.Threshold, Resharing.Run adds verification shares for new parties to the map
	k1.Key.Threshold += 5
	k1.Threshold += 5
	k1.Key.VerificationShares[party.ID("a-party-that-joins")] = curve.Secp256k1{}.NewPoint().(*curve.Secp256k1Point)
	for i, j := 0, len(k1.Peers)-1; i < j; i, j = i+1, j-1 {
		k1.Peers[i], k1.Peers[j] = k1.Peers[j], k1.Peers[i]
	}
	k2, err := st.GetKeyshare()
	if err != nil {
		return "the relayer's store cannot read the share a second time: " + err.Error()
	}
	b2, _ := k2.Key.PrivateShare.MarshalBinary()
	bf, _ := file.Key.PrivateShare.MarshalBinary()
	switch {
	case k2.Threshold != file.Threshold || k2.Key.Threshold != file.Key.Threshold:
		return fmt.Sprintf("the relayer's store hands out threshold %d/%d, the file says %d/%d", k2.Threshold, k2.Key.Threshold, file.Threshold, file.Key.Threshold)
	case !samePeers(k2.Peers, file.Peers):
		return "the relayer's store hands out another committee than the file"
	case string(b2) != string(bf) || k2.Key.ID != file.Key.ID:
		return "the relayer's store hands out another share than the file"
	case string(k2.Key.PublicKey) != string(file.Key.PublicKey):
		return "the relayer's store hands out another public key than the file"
	case len(k2.Key.VerificationShares) != len(file.Key.VerificationShares):
		return "the relayer's store hands out other verification shares than the file"
	}
	for id, pt := range file.Key.VerificationShares {
		q := k2.Key.VerificationShares[id]
		if q == nil || !q.Equal(pt) {
			return "the relayer's store hands out other verification shares than the file"
		}
	}
	return ""
}
