// Signing sessions that OVERLAP a refresh on one relayer.
//
// The property's "after a refresh ... the new committee can sign" quantifies over schedules: a
// signing request can reach a relayer while the refresh is still running there.  The refresh
// (NewResharing ... Stop) holds the relayer's key-share lock; a signing process constructed in
// between has to wait for it and then reads the REFRESHED share - the other signers, constructing
// after their refresh ended, hold refreshed shares too, and the session completes.
//
// For a scenario with Overlap set, before every refresh that is followed by signing: one relayer of
// the first signing session - a member of the old committee - gets a store whose lock really locks
// (shared by its resharing process and its signing constructors), and its signing processes for that
// session are constructed in a goroutine of their own once every resharing process of the refresh
// has been constructed (= holds its lock) and before any of them runs.  The refresh runs only when
// that constructor has either returned or is waiting for the lock.
package main

import (
	"time"

	"github.com/libp2p/go-libp2p/core/peer"

	"verifharness/c08fakes"
)

type overlap struct {
	peer  peer.ID
	lock  *c08fakes.SoftLock
	build func() (*member, error) // the relayer's signing processes (constructors)
	sid   string
	fired bool
}

type earlyMember struct {
	m    *member
	err  error
	done chan struct{}
}

// whileRefreshHoldsLock is called by the refresh when all its processes exist and none has run.
func (w *world) whileRefreshHoldsLock() {
	ov := w.ov
	if ov == nil || ov.fired {
		return
	}
	ov.fired = true
	em := &earlyMember{done: make(chan struct{})}
	if w.early == nil {
		w.early = map[string]map[peer.ID]*earlyMember{}
	}
	if w.early[ov.sid] == nil {
		w.early[ov.sid] = map[peer.ID]*earlyMember{}
	}
	w.early[ov.sid][ov.peer] = em
	go func() {
		defer close(em.done)
		em.m, em.err = ov.build()
	}()
	// the constructor has come back, or waits for the lock the refresh holds
	deadline := time.Now().Add(10 * time.Second)
	for time.Now().Before(deadline) {
		select {
		case <-em.done:
			return
		default:
		}
		if ov.lock.Waiters() > 0 {
			return
		}
		time.Sleep(time.Millisecond)
	}
}

// planOverlap prepares the overlap for the refresh after `stage` (committee -> next, threshold
// nextT); pub = the group key as stored before the refresh.
func planOverlap(w *world, c Case, u []peer.ID, committee, next []int, nextT, stage int, pub []byte) {
	w.ov = nil
	subs := signSubsets(c, next, nextT, stage+1)
	if len(subs) == 0 {
		return
	}
	sub := subs[0]
	r := -1
	for _, m := range sub {
		for _, old := range committee {
			if m == old && r < 0 {
				r = m
			}
		}
	}
	if r < 0 {
		return
	}
	o := normOpts(c.Proto, optsFor(c, 0))
	sid, digests, tweakHex, _, err := signPlan(c.Proto, stage+1, sub, c.Seed, pub, o)
	if err != nil {
		return
	}
	ov := &overlap{peer: u[r], lock: c08fakes.NewSoftLock(), sid: sid}
	holders := pick(u, next)
	ov.build = func() (*member, error) {
		// (the stores are the relayer's locking ones: w.ov is this overlap until the refresh has ended)
		return w.signMember(c.Proto, inputSids(sid, len(digests)), holders, ov.peer, digests, tweakHex,
			&c08fakes.LockedECDSAStore{ECDSAKeyshareStore: w.rawEStore(ov.peer), L: ov.lock},
			&c08fakes.LockedFrostStore{FrostKeyshareStore: w.rawFStore(ov.peer), L: ov.lock})
	}
	w.ov = ov
}
