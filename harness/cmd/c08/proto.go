// In-process driving of the REAL tss processes (keygen / signing / resharing, ECDSA and FROST).
// The processes are started exactly the way tss.Coordinator starts them: the coordinator's process
// computes the start parameters (StartParams) and runs with coordinator=true, every other process
// runs with coordinator=false and the same parameters.  Key generation and resharing: runProcs below;
// signing sessions (result channels, readers, retried attempts): session.go.
package main

import (
	"context"
	"crypto/sha256"
	"encoding/hex"
	"fmt"
	"math/big"
	"os"
	"path/filepath"
	"sort"
	"sync"
	"time"

	"github.com/ChainSafe/sygma-relayer/keyshare"
	"github.com/ChainSafe/sygma-relayer/tss"
	ekeygen "github.com/ChainSafe/sygma-relayer/tss/ecdsa/keygen"
	eresharing "github.com/ChainSafe/sygma-relayer/tss/ecdsa/resharing"
	esigning "github.com/ChainSafe/sygma-relayer/tss/ecdsa/signing"
	fkeygen "github.com/ChainSafe/sygma-relayer/tss/frost/keygen"
	fresharing "github.com/ChainSafe/sygma-relayer/tss/frost/resharing"
	fsigning "github.com/ChainSafe/sygma-relayer/tss/frost/signing"
	"github.com/libp2p/go-libp2p/core/crypto"
	"github.com/libp2p/go-libp2p/core/peer"
	"github.com/rs/zerolog"
	"github.com/rs/zerolog/log"

	"verifharness/c08fakes"
)

func init() {
	zerolog.SetGlobalLevel(zerolog.Disabled)
	log.Logger = zerolog.Nop()
}

func repoDir() string {
	if d := os.Getenv("VERIF_REPO"); d != "" {
		return d
	}
	return "/repo"
}

// fixturePeers: the identities of tss/test/pks/<i>.pk (i = 0..3); the fixture key shares
// tss/test/keyshares/<i>.keyshare and <i>-frost.keyshare (i = 0..2) belong to them.
var (
	fixOnce  sync.Once
	fixPeers []peer.ID
)

func fixturePeers() []peer.ID {
	fixOnce.Do(func() {
		for i := 0; i < 4; i++ {
			b, err := os.ReadFile(filepath.Join(repoDir(), "tss/test/pks", fmt.Sprintf("%d.pk", i)))
			if err != nil {
				panic(err)
			}
			priv, err := crypto.UnmarshalPrivateKey(b)
			if err != nil {
				panic(err)
			}
			id, err := peer.IDFromPrivateKey(priv)
			if err != nil {
				panic(err)
			}
			fixPeers = append(fixPeers, id)
		}
	})
	return fixPeers
}

// synthPeer: a well-formed peer id (sha2-256 multihash, "Qm...") derived from a label; no private
// key is needed because the fake host never opens a connection.
func synthPeer(label string) peer.ID {
	h := sha256.Sum256([]byte("c08-peer-" + label))
	return peer.ID(string(append([]byte{0x12, 0x20}, h[:]...)))
}

// world = one committee universe: per peer a host (peerstore = current committee), a comm endpoint
// and the two key-share files.
type world struct {
	dir   string
	hub   *c08fakes.Hub
	peers []peer.ID
	comm  map[peer.ID]*c08fakes.Comm
	// overlap.go: the relayer whose store really locks during the next refresh, and the signing
	// members constructed meanwhile (by session id, then peer)
	ov    *overlap
	early map[string]map[peer.ID]*earlyMember
	// the relayers' LONG-LIVED key-share store objects: like the running relayer (app.go creates one
	// ECDSA and one FROST store at start-up and hands them to every keygen / resharing / signing
	// process), every process a relayer takes part in during a scenario - abandoned ones included -
	// gets the SAME store object
	smu  sync.Mutex
	rawE map[peer.ID]*keyshare.ECDSAKeyshareStore
	rawF map[peer.ID]*keyshare.FrostKeyshareStore
}

func (w *world) rawEStore(p peer.ID) *keyshare.ECDSAKeyshareStore {
	w.smu.Lock()
	defer w.smu.Unlock()
	if w.rawE == nil {
		w.rawE = map[peer.ID]*keyshare.ECDSAKeyshareStore{}
	}
	if w.rawE[p] == nil {
		w.rawE[p] = keyshare.NewECDSAKeyshareStore(w.ecdsaPath(p))
	}
	return w.rawE[p]
}

func (w *world) rawFStore(p peer.ID) *keyshare.FrostKeyshareStore {
	w.smu.Lock()
	defer w.smu.Unlock()
	if w.rawF == nil {
		w.rawF = map[peer.ID]*keyshare.FrostKeyshareStore{}
	}
	if w.rawF[p] == nil {
		w.rawF[p] = keyshare.NewFrostKeyshareStore(w.frostPath(p))
	}
	return w.rawF[p]
}

type ecdsaStorer interface {
	StoreKeyshare(keyshare.ECDSAKeyshare) error
	GetKeyshare() (keyshare.ECDSAKeyshare, error)
	LockKeyshare()
	UnlockKeyshare()
}
type frostStorer interface {
	StoreKeyshare(keyshare.FrostKeyshare) error
	GetKeyshare() (keyshare.FrostKeyshare, error)
	LockKeyshare()
	UnlockKeyshare()
}

// estore / fstore: the relayer's key-share store - the repository's file store, ONE object per relayer
// for the whole scenario; Lock / Unlock are no-ops except on the relayer picked for an overlapping
// refresh (overlap.go).
func (w *world) estore(p peer.ID) ecdsaStorer {
	if w.ov != nil && w.ov.peer == p {
		return &c08fakes.LockedECDSAStore{ECDSAKeyshareStore: w.rawEStore(p), L: w.ov.lock}
	}
	return &c08fakes.ECDSAStore{ECDSAKeyshareStore: w.rawEStore(p)}
}
func (w *world) fstore(p peer.ID) frostStorer {
	if w.ov != nil && w.ov.peer == p {
		return &c08fakes.LockedFrostStore{FrostKeyshareStore: w.rawFStore(p), L: w.ov.lock}
	}
	return &c08fakes.FrostStore{FrostKeyshareStore: w.rawFStore(p)}
}

func newWorld(seed uint64, peers []peer.ID) *world {
	base := os.Getenv("VERIF_WORK")
	if base == "" {
		base = os.TempDir()
	}
	dir, err := os.MkdirTemp(base, "c08w")
	if err != nil {
		panic(err)
	}
	w := &world{dir: dir, hub: c08fakes.NewHub(seed), peers: peers, comm: map[peer.ID]*c08fakes.Comm{}}
	for _, p := range peers {
		w.comm[p] = w.hub.Join(p)
	}
	return w
}

func (w *world) close() { os.RemoveAll(w.dir) }

func (w *world) ecdsaPath(p peer.ID) string { return filepath.Join(w.dir, p.String()+".keyshare") }
func (w *world) frostPath(p peer.ID) string {
	return filepath.Join(w.dir, p.String()+"-frost.keyshare")
}

func (w *world) ecdsaKey(p peer.ID) (keyshare.ECDSAKeyshare, error) {
	return keyshare.NewECDSAKeyshareStore(w.ecdsaPath(p)).GetKeyshare()
}
func (w *world) frostKey(p peer.ID) (keyshare.FrostKeyshare, error) {
	return keyshare.NewFrostKeyshareStore(w.frostPath(p)).GetKeyshare()
}

// installFixtures copies the repo's fixture key shares (committee = fixture peers 0..2, threshold 1).
func (w *world) installFixtures() {
	fp := fixturePeers()
	for i := 0; i < 3; i++ {
		for _, sfx := range []string{".keyshare", "-frost.keyshare"} {
			b, err := os.ReadFile(filepath.Join(repoDir(), "tss/test/keyshares", fmt.Sprintf("%d%s", i, sfx)))
			if err != nil {
				panic(err)
			}
			dst := w.ecdsaPath(fp[i])
			if sfx != ".keyshare" {
				dst = w.frostPath(fp[i])
			}
			if err := os.WriteFile(dst, b, 0o644); err != nil {
				panic(err)
			}
		}
	}
}

type runResult struct {
	Results  []released // what process i put on the result channel
	Errs     []error
	TimedOut bool
}

// runProcs runs procs[i] for members[i]; procs[coord] is the coordinator's.  readyForParams is what
// the coordinator passes to StartParams.
func runProcs(procs []tss.TssProcess, coord int, readyForParams []peer.ID, timeout time.Duration) runResult {
	params := procs[coord].StartParams(readyForParams)
	ctx, cancel := context.WithCancel(context.Background())
	defer cancel()
	res := runResult{Errs: make([]error, len(procs))}
	// one result channel per process so that we can tell WHO released what; the real coordinator
	// shares one channel, which only merges these streams.
	chans := make([]chan interface{}, len(procs))
	var wg sync.WaitGroup
	for i := range procs {
		chans[i] = make(chan interface{}, 8)
		wg.Add(1)
		go func(i int) {
			defer wg.Done()
			defer func() {
				if r := recover(); r != nil {
					res.Errs[i] = fmt.Errorf("panic: %v", r)
				}
			}()
			res.Errs[i] = procs[i].Run(ctx, i == coord, chans[i], params)
		}(i)
	}
	done := make(chan struct{})
	go func() { wg.Wait(); close(done) }()
	select {
	case <-done:
	case <-time.After(timeout):
		res.TimedOut = true
		cancel()
		select {
		case <-done:
		case <-time.After(10 * time.Second):
		}
	}
	for i := range procs {
		func() {
			defer func() { _ = recover() }()
			procs[i].Stop()
		}()
	}
	res.Results = make([]released, len(procs))
	for i := range procs {
		select {
		case v := <-chans[i]:
			res.Results[i] = released{v: v, any: true}
		default:
			res.Results[i] = released{}
		}
	}
	return res
}

type released struct {
	v   interface{}
	any bool // something (possibly nil) was put on the result channel
}

func firstErr(errs []error) string {
	for i, e := range errs {
		if e != nil {
			s := e.Error()
			if len(s) > 160 {
				s = s[:160]
			}
			return fmt.Sprintf("proc %d: %s", i, s)
		}
	}
	return ""
}

func sortedPeers(ps []peer.ID) []peer.ID {
	out := append([]peer.ID(nil), ps...)
	sort.Slice(out, func(i, j int) bool { return out[i] < out[j] })
	return out
}

// ---- ECDSA ---------------------------------------------------------------------------------------

func (w *world) ecdsaKeygen(sid string, members []peer.ID, threshold int) runResult {
	procs := make([]tss.TssProcess, len(members))
	for i, p := range members {
		h := c08fakes.NewHost(p, members)
		procs[i] = ekeygen.NewKeygen(sid, threshold, h, w.comm[p], w.estore(p))
	}
	return runProcs(procs, 0, members, 120*time.Second)
}

// signMembers builds the relayers of a signing session: one member per peer in `peers`, each with one
// signing process per digest (the BTC executor signs every transaction input in its own process, all
// sharing the relayer's result channel), its own host (peerstore = the committee) and a
// fault-injecting view of its communication endpoint.
func (w *world) signMembers(proto, sid string, holders, peers []peer.ID, digests [][]byte, tweakHex string) ([]*member, []string, error) {
	sids := inputSids(sid, len(digests))
	members := make([]*member, len(peers))
	for i, p := range peers {
		if em := w.early[sid][p]; em != nil {
			// this relayer's processes were constructed while the refresh ran (overlap.go)
			select {
			case <-em.done:
			case <-time.After(60 * time.Second):
				return nil, nil, fmt.Errorf("a signing constructor started during the refresh has not returned a minute after the refresh ended")
			}
			if em.err != nil {
				return nil, nil, em.err
			}
			members[i] = em.m
			continue
		}
		m, err := w.signMember(proto, sids, holders, p, digests, tweakHex, w.estore(p), w.fstore(p))
		if err != nil {
			return nil, nil, err
		}
		members[i] = m
	}
	return members, sids, nil
}

// signMember: one relayer of a signing session with one real signing process per digest.
func (w *world) signMember(proto string, sids []string, holders []peer.ID, p peer.ID, digests [][]byte, tweakHex string, es ecdsaStorer, fs frostStorer) (*member, error) {
	m := &member{peer: p, fc: &faultComm{Comm: w.comm[p], armed: map[string]bool{}}}
	h := c08fakes.NewHost(p, holders)
	for k, dg := range digests {
		var proc tss.TssProcess
		var err error
		if proto == "ecdsa" {
			proc, err = esigning.NewSigning(new(big.Int).SetBytes(dg), sids[k], sids[k], h, m.fc, es)
		} else {
			proc, err = fsigning.NewSigning(k, dg, tweakHex, sids[k], sids[k], h, m.fc, fs)
		}
		if err != nil {
			return nil, err
		}
		m.procs = append(m.procs, proc)
	}
	return m, nil
}

func inputSids(sid string, n int) []string {
	sids := make([]string, n)
	for k := range sids {
		sids[k] = sid
		if k > 0 {
			sids[k] = fmt.Sprintf("%s-in%d", sid, k)
		}
	}
	return sids
}

// ecdsaReshare: newMembers = the new committee (every host's peerstore); holders among them take
// part as old parties.  coordinator = first new member that holds a key.
func (w *world) ecdsaReshare(sid string, newMembers []peer.ID, newThreshold int) (runResult, error) {
	procs := make([]tss.TssProcess, len(newMembers))
	coord := -1
	for i, p := range newMembers {
		h := c08fakes.NewHost(p, newMembers)
		if _, err := w.ecdsaKey(p); err == nil && coord < 0 {
			coord = i
		}
		procs[i] = eresharing.NewResharing(sid, newThreshold, h, w.comm[p], w.estore(p))
	}
	if coord < 0 {
		return runResult{}, fmt.Errorf("no key holder in the new committee")
	}
	w.whileRefreshHoldsLock()
	return runProcs(procs, coord, newMembers, 180*time.Second), nil
}

// ---- FROST ---------------------------------------------------------------------------------------

func (w *world) frostKeygen(sid string, members []peer.ID, threshold int) runResult {
	procs := make([]tss.TssProcess, len(members))
	for i, p := range members {
		h := c08fakes.NewHost(p, members)
		procs[i] = fkeygen.NewKeygen(sid, threshold, h, w.comm[p], w.fstore(p))
	}
	return runProcs(procs, 0, members, 120*time.Second)
}

func (w *world) frostReshare(sid string, newMembers []peer.ID, newThreshold int) (runResult, error) {
	procs := make([]tss.TssProcess, len(newMembers))
	coord := -1
	for i, p := range newMembers {
		h := c08fakes.NewHost(p, newMembers)
		if _, err := w.frostKey(p); err == nil && coord < 0 {
			coord = i
		}
		procs[i] = fresharing.NewResharing(sid, newThreshold, h, w.comm[p], w.fstore(p))
	}
	if coord < 0 {
		return runResult{}, fmt.Errorf("no key holder in the new committee")
	}
	w.whileRefreshHoldsLock()
	return runProcs(procs, coord, newMembers, 120*time.Second), nil
}

func hexs(b []byte) string { return hex.EncodeToString(b) }
