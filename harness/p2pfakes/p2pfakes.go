// Package p2pfakes holds the minimal libp2p stand-ins used by the C12 and C13 runners: a host that
// owns a real in-memory peerstore and records stream handlers, and an inbound stream whose
// "authenticated remote peer" is chosen by the test.  Everything not overridden is a nil embedded
// interface and panics when touched, so a runner can never silently depend on unmodelled behaviour.
package p2pfakes

import (
	"bytes"
	"crypto/sha256"
	"io"

	"github.com/libp2p/go-libp2p/core/crypto"
	"github.com/libp2p/go-libp2p/core/host"
	"github.com/libp2p/go-libp2p/core/network"
	"github.com/libp2p/go-libp2p/core/peer"
	"github.com/libp2p/go-libp2p/core/peerstore"
	"github.com/libp2p/go-libp2p/core/protocol"
	"github.com/libp2p/go-libp2p/p2p/host/peerstore/pstoremem"
)

type Host struct {
	host.Host
	Id       peer.ID
	Ps       peerstore.Peerstore
	Handlers map[protocol.ID]network.StreamHandler
}

func NewHost(id peer.ID) *Host {
	ps, err := pstoremem.NewPeerstore()
	if err != nil {
		panic(err)
	}
	return &Host{Id: id, Ps: ps, Handlers: map[protocol.ID]network.StreamHandler{}}
}

func (h *Host) ID() peer.ID                    { return h.Id }
func (h *Host) Peerstore() peerstore.Peerstore { return h.Ps }
func (h *Host) SetStreamHandler(pid protocol.ID, handler network.StreamHandler) {
	h.Handlers[pid] = handler
}

type Conn struct {
	network.Conn
	Remote peer.ID
}

func (c *Conn) RemotePeer() peer.ID { return c.Remote }

// Stream is an inbound stream carrying the given bytes, then EOF.
type Stream struct {
	network.Stream
	r      io.Reader
	conn   *Conn
	Closed bool
}

func NewStream(remote peer.ID, data []byte) *Stream {
	return &Stream{r: bytes.NewReader(data), conn: &Conn{Remote: remote}}
}

func (s *Stream) Read(p []byte) (int, error) { return s.r.Read(p) }
func (s *Stream) Conn() network.Conn         { return s.conn }
func (s *Stream) Close() error               { s.Closed = true; return nil }

// detReader is a deterministic byte source (SHA-256 in counter mode) for key generation.
type detReader struct {
	seed [32]byte
	ctr  uint64
	buf  []byte
}

func (d *detReader) Read(p []byte) (int, error) {
	for i := range p {
		if len(d.buf) == 0 {
			var b [40]byte
			copy(b[:], d.seed[:])
			for k := 0; k < 8; k++ {
				b[32+k] = byte(d.ctr >> (8 * k))
			}
			d.ctr++
			h := sha256.Sum256(b[:])
			d.buf = h[:]
		}
		p[i] = d.buf[0]
		d.buf = d.buf[1:]
	}
	return len(p), nil
}

// Key returns the n-th identity of a fixed deterministic family (ed25519).
func Key(n int) (crypto.PrivKey, peer.ID) {
	d := &detReader{seed: sha256.Sum256([]byte{byte(n), byte(n >> 8), 'v', 'e', 'r', 'i', 'f'})}
	priv, pub, err := crypto.GenerateEd25519Key(d)
	if err != nil {
		panic(err)
	}
	id, err := peer.IDFromPublicKey(pub)
	if err != nil {
		panic(err)
	}
	return priv, id
}

// PeerID returns the peer id of the n-th identity.
func PeerID(n int) peer.ID {
	_, id := Key(n)
	return id
}
