// Outbound side of the fake host (added for the C12 "other operations" cases; nothing that existed
// before is changed): a host on which Libp2pCommunication.Broadcast / sendMessage work without a
// network.  Connect succeeds for every peer that is not listed in FailDial, NewStream hands out a
// recording stream (what was written to it, whether it was closed).
package p2pfakes

import (
	"bytes"
	"context"
	"errors"
	"sync"

	"github.com/libp2p/go-libp2p/core/network"
	"github.com/libp2p/go-libp2p/core/peer"
	"github.com/libp2p/go-libp2p/core/peerstore"
	"github.com/libp2p/go-libp2p/core/protocol"
	ma "github.com/multiformats/go-multiaddr"
)

// OutHost is a Host that can also "dial".
type OutHost struct {
	*Host
	mu       sync.Mutex
	failDial map[peer.ID]bool
	streams  []*OutStream
}

func NewOutHost(id peer.ID) *OutHost {
	return &OutHost{Host: NewHost(id), failDial: map[peer.ID]bool{}}
}

// Know gives the peer an address (Broadcast refuses peers without one: "no defined addresses").
func (h *OutHost) Know(p peer.ID) {
	addr, err := ma.NewMultiaddr("/ip4/127.0.0.1/tcp/4001")
	if err != nil {
		panic(err)
	}
	h.Ps.AddAddr(p, addr, peerstore.PermanentAddrTTL)
}

// Refuse makes every later dial of the peer fail.
func (h *OutHost) Refuse(p peer.ID) {
	h.mu.Lock()
	h.failDial[p] = true
	h.mu.Unlock()
}

func (h *OutHost) Connect(ctx context.Context, pi peer.AddrInfo) error {
	h.mu.Lock()
	defer h.mu.Unlock()
	if h.failDial[pi.ID] {
		return errors.New("failed to dial: all dials failed")
	}
	return nil
}

func (h *OutHost) NewStream(ctx context.Context, p peer.ID, pids ...protocol.ID) (network.Stream, error) {
	h.mu.Lock()
	defer h.mu.Unlock()
	if h.failDial[p] {
		return nil, errors.New("failed to dial: all dials failed")
	}
	s := &OutStream{conn: &Conn{Remote: p}}
	h.streams = append(h.streams, s)
	return s, nil
}

// Streams returns the outbound streams opened so far.
func (h *OutHost) Streams() []*OutStream {
	h.mu.Lock()
	defer h.mu.Unlock()
	return append([]*OutStream(nil), h.streams...)
}

// OutStream records what is written to it.
type OutStream struct {
	network.Stream
	conn   *Conn
	mu     sync.Mutex
	buf    bytes.Buffer
	closed bool
}

func (s *OutStream) Write(p []byte) (int, error) {
	s.mu.Lock()
	defer s.mu.Unlock()
	if s.closed {
		return 0, errors.New("stream closed")
	}
	return s.buf.Write(p)
}
func (s *OutStream) Close() error {
	s.mu.Lock()
	s.closed = true
	s.mu.Unlock()
	return nil
}
func (s *OutStream) Reset() error       { return s.Close() }
func (s *OutStream) Conn() network.Conn { return s.conn }
func (s *OutStream) Written() []byte {
	s.mu.Lock()
	defer s.mu.Unlock()
	return append([]byte(nil), s.buf.Bytes()...)
}
func (s *OutStream) IsClosed() bool {
	s.mu.Lock()
	defer s.mu.Unlock()
	return s.closed
}
