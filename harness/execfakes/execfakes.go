// Package execfakes holds the fakes shared by the C14 and C03 runners: a fake libp2p host (real
// in-memory peerstore), a recording comm.Communication, a key-share fetcher, and scripted / recording
// EVM bridge, Substrate pallet, key-value store and IPFS uploader.  None of them contains any of the
// logic the properties are about; they only answer as scripted and record what they are handed.
package execfakes

import (
	"crypto/ed25519"
	"errors"
	"sync"

	"github.com/ChainSafe/sygma-relayer/comm"
	"github.com/ChainSafe/sygma-relayer/keyshare"
	"github.com/ChainSafe/sygma-relayer/relayer/transfer"
	"github.com/centrifuge/go-substrate-rpc-client/v4/rpc/author"
	"github.com/centrifuge/go-substrate-rpc-client/v4/types"
	ethCommon "github.com/ethereum/go-ethereum/common"
	"github.com/libp2p/go-libp2p/core/crypto"
	"github.com/libp2p/go-libp2p/core/host"
	"github.com/libp2p/go-libp2p/core/network"
	"github.com/libp2p/go-libp2p/core/peer"
	"github.com/libp2p/go-libp2p/core/peerstore"
	"github.com/libp2p/go-libp2p/core/protocol"
	"github.com/libp2p/go-libp2p/p2p/host/peerstore/pstoremem"
	"github.com/sygmaprotocol/sygma-core/chains/evm/transactor"
	"github.com/syndtr/goleveldb/leveldb"
)

// ---- host ---------------------------------------------------------------------------------------

// Host is a host.Host of which only ID, Peerstore and the stream-handler registration are usable.
type Host struct {
	host.Host
	id peer.ID
	ps peerstore.Peerstore
}

func NewHost() *Host {
	seed := make([]byte, ed25519.SeedSize)
	copy(seed, "sygma-verif-fake-host-seed------")
	priv := ed25519.NewKeyFromSeed(seed)
	pk, err := crypto.UnmarshalEd25519PrivateKey(priv)
	if err != nil {
		panic(err)
	}
	id, err := peer.IDFromPrivateKey(pk)
	if err != nil {
		panic(err)
	}
	ps, err := pstoremem.NewPeerstore()
	if err != nil {
		panic(err)
	}
	return &Host{id: id, ps: ps}
}

func (h *Host) ID() peer.ID                                           { return h.id }
func (h *Host) Peerstore() peerstore.Peerstore                        { return h.ps }
func (h *Host) SetStreamHandler(protocol.ID, network.StreamHandler)   {}
func (h *Host) RemoveStreamHandler(protocol.ID)                       {}

// ---- communication ------------------------------------------------------------------------------

// Comm records the session id of every call and never delivers a message.
type Comm struct {
	mu sync.Mutex
	n  int
	// OnSession is called (outside the lock) with the session id of every Subscribe / Broadcast /
	// CloseSession call; OnClose after CloseSession; OnUnsubscribe with the id handed to UnSubscribe.
	OnSession     func(method, sessionID string)
	OnUnsubscribe func(id comm.SubscriptionID)
}

func (c *Comm) CloseSession(sessionID string) {
	if c.OnSession != nil {
		c.OnSession("CloseSession", sessionID)
	}
}
func (c *Comm) Broadcast(peers peer.IDSlice, msg []byte, msgType comm.MessageType, sessionID string) error {
	if c.OnSession != nil {
		c.OnSession("Broadcast", sessionID)
	}
	return nil
}
func (c *Comm) Subscribe(sessionID string, msgType comm.MessageType, channel chan *comm.WrappedMessage) comm.SubscriptionID {
	if c.OnSession != nil {
		c.OnSession("Subscribe", sessionID)
	}
	c.mu.Lock()
	c.n++
	n := c.n
	c.mu.Unlock()
	// never empty, so that the zero SubscriptionID of a process that was never run is recognisable
	return comm.SubscriptionID("sub#" + itoa(n))
}
func (c *Comm) UnSubscribe(id comm.SubscriptionID) {
	if c.OnUnsubscribe != nil {
		c.OnUnsubscribe(id)
	}
}

func itoa(n int) string {
	if n == 0 {
		return "0"
	}
	s := ""
	for n > 0 {
		s = string(rune('0'+n%10)) + s
		n /= 10
	}
	return s
}

// ---- key share ----------------------------------------------------------------------------------

// Fetcher is a signing.SaveDataFetcher.  With Fail set, GetKeyshare errors, so signing.NewSigning
// returns before any coordinator / MPC activity.
type Fetcher struct {
	Peers []peer.ID
	Fail  bool
	mu    sync.Mutex
	Calls int
}

var ErrNoKeyshare = errors.New("execfakes: no key share")

func (f *Fetcher) GetKeyshare() (keyshare.ECDSAKeyshare, error) {
	f.Calls++
	if f.Fail {
		return keyshare.ECDSAKeyshare{}, ErrNoKeyshare
	}
	return keyshare.ECDSAKeyshare{Threshold: 1, Peers: f.Peers}, nil
}
func (f *Fetcher) LockKeyshare()   { f.mu.Lock() }
func (f *Fetcher) UnlockKeyshare() { f.mu.Unlock() }

// ---- destination chain: executed oracle + recording bridge / pallet --------------------------------

// Key identifies a transfer on the destination: (source domain, deposit nonce).
type Key struct {
	Source uint8
	Nonce  uint64
}

var ErrLookup = errors.New("execfakes: executed-status lookup failed")
var ErrHash = errors.New("execfakes: ProposalsHash failed")

// Chain is the scripted destination.  Answer (if set) decides each IsProposalExecuted query from its
// running number; otherwise the Executed set does.
type Chain struct {
	mu       sync.Mutex
	Executed map[Key]bool
	// FailQuery: running numbers (0-based, per Chain) of IsProposalExecuted queries that fail.
	FailQuery map[int]bool
	Queries   []Key
	HashCalls [][]Key
	// HashIdx: per ProposalsHash call the delivery positions of its members (see IdxOf)
	HashIdx [][]int
	ExecCalls []ExecCall
	// OnHash, if set, is called (outside the lock) at the start of every ProposalsHash.
	OnHash func(ps []Key)
}

type ExecCall struct {
	Props    []Key
	GasLimit uint64
	Sig      []byte
}

func NewChain() *Chain { return &Chain{Executed: map[Key]bool{}, FailQuery: map[int]bool{}} }

func KeysOf(ps []*transfer.TransferProposal) []Key {
	out := make([]Key, len(ps))
	for i, p := range ps {
		out[i] = Key{p.Source, p.Data.DepositNonce}
	}
	return out
}

func (c *Chain) IsProposalExecuted(p *transfer.TransferProposal) (bool, error) {
	c.mu.Lock()
	defer c.mu.Unlock()
	q := len(c.Queries)
	k := Key{p.Source, p.Data.DepositNonce}
	c.Queries = append(c.Queries, k)
	if c.FailQuery[q] {
		return false, ErrLookup
	}
	return c.Executed[k], nil
}

// IdxOf decodes the position tag the runners put into TransferProposalData.Data (big endian).
func IdxOf(p *transfer.TransferProposal) int {
	n := 0
	for _, b := range p.Data.Data {
		n = n<<8 | int(b)
	}
	return n
}

func (c *Chain) ProposalsHash(ps []*transfer.TransferProposal) ([]byte, error) {
	ks := KeysOf(ps)
	if c.OnHash != nil {
		c.OnHash(ks)
	}
	idx := make([]int, len(ps))
	for i, p := range ps {
		idx[i] = IdxOf(p)
	}
	c.mu.Lock()
	defer c.mu.Unlock()
	c.HashCalls = append(c.HashCalls, ks)
	c.HashIdx = append(c.HashIdx, idx)
	h := make([]byte, 32)
	h[0] = byte(len(c.HashCalls))
	h[31] = 1
	return h, nil
}

// EvmBridge adapts Chain to the EVM executor's BridgeContract.
type EvmBridge struct{ *Chain }

func (b EvmBridge) ExecuteProposals(ps []*transfer.TransferProposal, sig []byte, opts transactor.TransactOptions) (*ethCommon.Hash, error) {
	b.mu.Lock()
	defer b.mu.Unlock()
	b.ExecCalls = append(b.ExecCalls, ExecCall{Props: KeysOf(ps), GasLimit: opts.GasLimit, Sig: append([]byte{}, sig...)})
	return &ethCommon.Hash{}, nil
}

// SubPallet adapts Chain to the Substrate executor's BridgePallet.
type SubPallet struct{ *Chain }

func (b SubPallet) ExecuteProposals(ps []*transfer.TransferProposal, sig []byte) (types.Hash, *author.ExtrinsicStatusSubscription, error) {
	b.mu.Lock()
	defer b.mu.Unlock()
	b.ExecCalls = append(b.ExecCalls, ExecCall{Props: KeysOf(ps), Sig: append([]byte{}, sig...)})
	return types.Hash{}, nil, nil
}
func (b SubPallet) TrackExtrinsic(types.Hash, *author.ExtrinsicStatusSubscription) error { return nil }

// ---- key-value store under the real store.PropStore ------------------------------------------------

// KV is an in-memory store.KeyValueReaderWriter with scripted failures: the n-th Get / Set (0-based,
// counted separately) fails when listed.
type KV struct {
	mu      sync.Mutex
	M       map[string]string
	FailGet map[int]bool
	FailSet map[int]bool
	Gets    int
	Sets    int
}

var ErrKV = errors.New("execfakes: key-value store failure")

func NewKV() *KV { return &KV{M: map[string]string{}, FailGet: map[int]bool{}, FailSet: map[int]bool{}} }

func (k *KV) GetByKey(key []byte) ([]byte, error) {
	k.mu.Lock()
	defer k.mu.Unlock()
	n := k.Gets
	k.Gets++
	if k.FailGet[n] {
		return nil, ErrKV
	}
	v, ok := k.M[string(key)]
	if !ok {
		return nil, leveldb.ErrNotFound
	}
	return []byte(v), nil
}
func (k *KV) SetByKey(key []byte, value []byte) error {
	k.mu.Lock()
	defer k.mu.Unlock()
	n := k.Sets
	k.Sets++
	if k.FailSet[n] {
		return ErrKV
	}
	k.M[string(key)] = string(value)
	return nil
}

// ---- IPFS uploader --------------------------------------------------------------------------------

// Uploader records what the BTC executor is about to put into a transaction and then fails, so that
// the real Execute stops before any UTXO / signing work.
type Uploader struct {
	mu    sync.Mutex
	Calls [][]Key
}

var ErrUpload = errors.New("execfakes: upload refused (stop before signing)")

func (u *Uploader) Upload(data []map[string]interface{}) (string, error) {
	u.mu.Lock()
	defer u.mu.Unlock()
	ks := make([]Key, len(data))
	for i, d := range data {
		ks[i] = Key{Source: d["sourceDomain"].(uint8), Nonce: d["depositNonce"].(uint64)}
	}
	u.Calls = append(u.Calls, ks)
	return "", ErrUpload
}
