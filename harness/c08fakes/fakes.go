// Package c08fakes: in-process stand-ins used by the C08 runner to drive the REAL tss processes of
// /repo (tss/ecdsa/*, tss/frost/*) without a network: a host.Host that only knows its id and a
// real in-memory peerstore, an in-memory comm.Communication hub (per-link FIFO, seeded random
// per-link delays = PRNG-chosen interleaving of the senders) and in-memory key-share storers.
package c08fakes

import (
	"sync"
	"time"

	"github.com/ChainSafe/sygma-relayer/comm"
	"github.com/ChainSafe/sygma-relayer/keyshare"
	"github.com/libp2p/go-libp2p/core/host"
	"github.com/libp2p/go-libp2p/core/peer"
	"github.com/libp2p/go-libp2p/core/peerstore"
	"github.com/libp2p/go-libp2p/p2p/host/peerstore/pstoremem"
	ma "github.com/multiformats/go-multiaddr"
)

// ---- host ----------------------------------------------------------------------------------------

type Host struct {
	host.Host // nil: every method not overridden below panics, so an unexpected use is noticed
	id        peer.ID
	ps        peerstore.Peerstore
}

func (h *Host) ID() peer.ID                    { return h.id }
func (h *Host) Peerstore() peerstore.Peerstore { return h.ps }

// NewHost returns a host with identity self whose peerstore knows `peers` (self should be among
// them, as it is for a real libp2p host).
func NewHost(self peer.ID, peers []peer.ID) *Host {
	ps, err := pstoremem.NewPeerstore()
	if err != nil {
		panic(err)
	}
	addr, _ := ma.NewMultiaddr("/ip4/127.0.0.1/tcp/4001")
	for _, p := range peers {
		ps.AddAddr(p, addr, peerstore.PermanentAddrTTL)
	}
	return &Host{id: self, ps: ps}
}

// ---- communication -------------------------------------------------------------------------------

type link struct {
	mu    sync.Mutex
	queue []func()
	busy  bool
}

// Hub connects the Comm endpoints of one scenario.
type Hub struct {
	mu     sync.Mutex
	nodes  map[peer.ID]*Comm
	links  map[[2]peer.ID]*link
	seed   uint64
	MaxLag time.Duration // upper bound of the pseudo-random per-message link delay
	act    map[string]*activity
}

// activity of one session on the hub (all message types): number of sends + deliveries and the time
// of the last one.  The runner's late readers use it as the event "the session has gone quiet".
type activity struct {
	n    int
	last time.Time
}

func (h *Hub) touch(sessionID string) { // guarded by h.mu
	a := h.act[sessionID]
	if a == nil {
		a = &activity{}
		h.act[sessionID] = a
	}
	a.n++
	a.last = time.Now()
}

// Activity returns how many transport events (sends and deliveries) the session has had and when
// the last one happened.
func (h *Hub) Activity(sessionID string) (int, time.Time) {
	h.mu.Lock()
	defer h.mu.Unlock()
	if a := h.act[sessionID]; a != nil {
		return a.n, a.last
	}
	return 0, time.Time{}
}

func NewHub(seed uint64) *Hub {
	return &Hub{nodes: map[peer.ID]*Comm{}, links: map[[2]peer.ID]*link{}, seed: seed, MaxLag: 3 * time.Millisecond, act: map[string]*activity{}}
}

func (h *Hub) rnd() uint64 { // splitmix64, guarded by h.mu
	h.seed += 0x9e3779b97f4a7c15
	z := h.seed
	z = (z ^ (z >> 30)) * 0xbf58476d1ce4e5b9
	z = (z ^ (z >> 27)) * 0x94d049bb133111eb
	return z ^ (z >> 31)
}

type sub struct {
	ch   chan *comm.WrappedMessage
	done chan struct{}
}

type Comm struct {
	hub  *Hub
	self peer.ID
	mu   sync.Mutex
	subs map[comm.SubscriptionID]*sub
	// messages that arrive before the receiver subscribed are kept (a real stream would buffer too)
	early map[comm.SubscriptionID][]*comm.WrappedMessage
}

func (h *Hub) Join(self peer.ID) *Comm {
	c := &Comm{hub: h, self: self, subs: map[comm.SubscriptionID]*sub{}, early: map[comm.SubscriptionID][]*comm.WrappedMessage{}}
	h.mu.Lock()
	h.nodes[self] = c
	h.mu.Unlock()
	return c
}

func subID(sessionID string, t comm.MessageType) comm.SubscriptionID {
	return comm.SubscriptionID(sessionID + "|" + t.String())
}

func (c *Comm) CloseSession(string) {}

func (c *Comm) Broadcast(peers peer.IDSlice, msg []byte, msgType comm.MessageType, sessionID string) error {
	payload := append([]byte(nil), msg...)
	for _, p := range peers {
		if p == c.self {
			continue // the real Libp2pCommunication.Broadcast does not send to itself either
		}
		c.hub.mu.Lock()
		dst := c.hub.nodes[p]
		key := [2]peer.ID{c.self, p}
		l := c.hub.links[key]
		if l == nil {
			l = &link{}
			c.hub.links[key] = l
		}
		var lag time.Duration
		if c.hub.MaxLag > 0 {
			lag = time.Duration(c.hub.rnd() % uint64(c.hub.MaxLag))
		}
		c.hub.touch(sessionID)
		c.hub.mu.Unlock()
		if dst == nil {
			continue
		}
		w := &comm.WrappedMessage{MessageType: msgType, SessionID: sessionID, Payload: payload, From: c.self}
		l.push(func() {
			time.Sleep(lag)
			dst.deliver(w)
			c.hub.mu.Lock()
			c.hub.touch(sessionID)
			c.hub.mu.Unlock()
		})
	}
	return nil
}

// push keeps the per-link FIFO order: one worker at a time drains the queue of a link.
func (l *link) push(f func()) {
	l.mu.Lock()
	l.queue = append(l.queue, f)
	if l.busy {
		l.mu.Unlock()
		return
	}
	l.busy = true
	l.mu.Unlock()
	go func() {
		for {
			l.mu.Lock()
			if len(l.queue) == 0 {
				l.busy = false
				l.mu.Unlock()
				return
			}
			g := l.queue[0]
			l.queue = l.queue[1:]
			l.mu.Unlock()
			g()
		}
	}()
}

func (c *Comm) deliver(w *comm.WrappedMessage) {
	id := subID(w.SessionID, w.MessageType)
	c.mu.Lock()
	s := c.subs[id]
	if s == nil {
		c.early[id] = append(c.early[id], w)
		c.mu.Unlock()
		return
	}
	c.mu.Unlock()
	select {
	case s.ch <- w:
	case <-s.done:
	}
}

func (c *Comm) Subscribe(sessionID string, t comm.MessageType, channel chan *comm.WrappedMessage) comm.SubscriptionID {
	id := subID(sessionID, t)
	s := &sub{ch: channel, done: make(chan struct{})}
	c.mu.Lock()
	c.subs[id] = s
	early := c.early[id]
	delete(c.early, id)
	c.mu.Unlock()
	if len(early) > 0 {
		go func() {
			for _, w := range early {
				select {
				case s.ch <- w:
				case <-s.done:
					return
				}
			}
		}()
	}
	return id
}

func (c *Comm) UnSubscribe(id comm.SubscriptionID) {
	c.mu.Lock()
	if s := c.subs[id]; s != nil {
		close(s.done)
		delete(c.subs, id)
	}
	c.mu.Unlock()
}

// ---- key-share storers ---------------------------------------------------------------------------
// The REAL file-backed stores of /repo/keyshare do the reading and writing (the key-share files are
// the observation point of the property); only Lock/Unlock are no-ops, because the lock discipline
// of the processes is not C08's subject (a process that unlocks an unlocked mutex would kill the run).

type ECDSAStore struct{ *keyshare.ECDSAKeyshareStore }

func NewECDSAStore(path string) *ECDSAStore {
	return &ECDSAStore{keyshare.NewECDSAKeyshareStore(path)}
}
func (s *ECDSAStore) LockKeyshare()   {}
func (s *ECDSAStore) UnlockKeyshare() {}

type FrostStore struct{ *keyshare.FrostKeyshareStore }

func NewFrostStore(path string) *FrostStore {
	return &FrostStore{keyshare.NewFrostKeyshareStore(path)}
}
func (s *FrostStore) LockKeyshare()   {}
func (s *FrostStore) UnlockKeyshare() {}

// ---- key-share storers whose lock is real ----------------------------------------------------------
// Used for the one relayer of a scenario on which a signing process is constructed WHILE a refresh
// runs: the resharing process and the signing constructor share the relayer's store, and the lock
// decides which share the constructor reads.  SoftLock has the semantics of the store's sync.Mutex,
// except that an Unlock of the free lock is ignored instead of killing the run.

type SoftLock struct {
	mu      sync.Mutex
	cond    *sync.Cond
	held    bool
	waiters int
}

func NewSoftLock() *SoftLock {
	l := &SoftLock{}
	l.cond = sync.NewCond(&l.mu)
	return l
}

func (l *SoftLock) Lock() {
	l.mu.Lock()
	l.waiters++
	for l.held {
		l.cond.Wait()
	}
	l.waiters--
	l.held = true
	l.mu.Unlock()
}

func (l *SoftLock) Unlock() {
	l.mu.Lock()
	l.held = false
	l.mu.Unlock()
	l.cond.Broadcast()
}

// Waiters: goroutines inside Lock that have not got the lock yet.
func (l *SoftLock) Waiters() int {
	l.mu.Lock()
	defer l.mu.Unlock()
	return l.waiters
}

type LockedECDSAStore struct {
	*keyshare.ECDSAKeyshareStore
	L *SoftLock
}

func (s *LockedECDSAStore) LockKeyshare()   { s.L.Lock() }
func (s *LockedECDSAStore) UnlockKeyshare() { s.L.Unlock() }

type LockedFrostStore struct {
	*keyshare.FrostKeyshareStore
	L *SoftLock
}

func (s *LockedFrostStore) LockKeyshare()   { s.L.Lock() }
func (s *LockedFrostStore) UnlockKeyshare() { s.L.Unlock() }
