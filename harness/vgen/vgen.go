// Package vgen is the shared runtime of the correspondence runners (one `cmd/cXX` per property).
//
// A runner provides: a JSON-serialisable Case type (the INPUT only), a generator, a function that
// drives the REAL implementation on a case and returns an observation, and a printer that turns
// (case, observation) into a Coq term of the type `SygmaV.Run.CXX.case`.  vgen handles flags,
// corpus/replay loading, the single PRNG, sharding into cases_<k>.v, cases.jsonl and stats.json.
package vgen

import (
	"bufio"
	"crypto/sha256"
	"encoding/hex"
	"encoding/json"
	"flag"
	"fmt"
	"math/big"
	"os"
	"path/filepath"
	"sort"
	"strings"
)

// ---------------------------------------------------------------------------------------------
// PRNG: splitmix64, every random choice of a run derives from one state seeded by VERIF_SEED.

type Rng struct{ s uint64 }

func NewRng(seed uint64) *Rng { return &Rng{s: seed} }

func (r *Rng) U64() uint64 {
	r.s += 0x9e3779b97f4a7c15
	z := r.s
	z = (z ^ (z >> 30)) * 0xbf58476d1ce4e5b9
	z = (z ^ (z >> 27)) * 0x94d049bb133111eb
	return z ^ (z >> 31)
}

// Intn returns a value in [0,n).
func (r *Rng) Intn(n int) int {
	if n <= 0 {
		return 0
	}
	return int(r.U64() % uint64(n))
}
func (r *Rng) Range(lo, hi int) int { return lo + r.Intn(hi-lo+1) } // inclusive
func (r *Rng) Bool() bool           { return r.U64()&1 == 1 }
func (r *Rng) Chance(num, den int) bool {
	return r.Intn(den) < num
}
func (r *Rng) Bytes(n int) []byte {
	b := make([]byte, n)
	for i := range b {
		b[i] = byte(r.U64())
	}
	return b
}
func Pick[T any](r *Rng, xs []T) T { return xs[r.Intn(len(xs))] }

// BigBelow returns a uniformly chosen big integer with at most `bits` bits.
func (r *Rng) BigBits(bits int) *big.Int {
	if bits <= 0 {
		return new(big.Int)
	}
	b := r.Bytes((bits + 7) / 8)
	x := new(big.Int).SetBytes(b)
	return x.Rsh(x, uint(len(b)*8-bits))
}
func (r *Rng) Shuffle(n int, swap func(i, j int)) {
	for i := n - 1; i > 0; i-- {
		j := r.Intn(i + 1)
		swap(i, j)
	}
}

// ---------------------------------------------------------------------------------------------
// Coq term printers.

func Z(x int64) string {
	if x < 0 {
		return fmt.Sprintf("(%d)%%Z", x)
	}
	return fmt.Sprintf("%d%%Z", x)
}
func ZBig(x *big.Int) string {
	if x.Sign() < 0 {
		return "(" + x.String() + ")%Z"
	}
	return x.String() + "%Z"
}
func N(x uint64) string       { return fmt.Sprintf("%d%%N", x) }
func NBig(x *big.Int) string  { return x.String() + "%N" }
func Nat(x int) string        { return fmt.Sprintf("%d%%nat", x) }
func Bool(b bool) string {
	if b {
		return "true"
	}
	return "false"
}
func List(items []string) string { return "[" + strings.Join(items, "; ") + "]" }
func ListOf[T any](xs []T, f func(T) string) string {
	s := make([]string, len(xs))
	for i, x := range xs {
		s[i] = f(x)
	}
	return List(s)
}
func Pair(a, b string) string { return "(" + a + ", " + b + ")" }
func Some(a string) string    { return "(Some " + a + ")" }

// Hex renders bytes as a Coq string literal of lower-case hex digits; the Coq side decodes it with
// SygmaV.Lib.Hex.unhex (total: a malformed literal decodes to []).
func Hex(b []byte) string { return `"` + hex.EncodeToString(b) + `"%string` }

// Str renders an ASCII string as a Coq string literal (quotes doubled). Non-printable or non-ASCII
// bytes are not allowed here: use Hex for arbitrary bytes.
func Str(s string) string {
	for i := 0; i < len(s); i++ {
		if s[i] < 0x20 || s[i] > 0x7e {
			panic(fmt.Sprintf("vgen.Str: non printable byte %#x in %q; use Hex", s[i], s))
		}
	}
	return `"` + strings.ReplaceAll(s, `"`, `""`) + `"%string`
}

// ---------------------------------------------------------------------------------------------

// Spec describes one property's runner.
type Spec[C any, O any] struct {
	Property string // "C04"
	// RunModule is the Coq module (under SygmaV.Run) that defines `case` and `check_all`.
	RunModule string
	// Gen produces the generated cases for a tier ("quick" | "thorough").
	Gen func(r *Rng, tier string) []C
	// Run drives the real implementation.
	Run func(c C) O
	// Coq prints a (case, observation) as a Coq term of type `case`.
	Coq func(c C, o O) string
	// Kind names the path / class the case exercises (used for the distribution and for matching
	// known findings).  NonTrivial says whether the case counts towards distinct_nontrivial.
	Kind       func(c C) string
	NonTrivial func(c C, o O) bool
	Rule       string
	ShardSize  int
}

type record struct {
	Index int             `json:"index"`
	Kind  string          `json:"kind"`
	Input json.RawMessage `json:"input"`
	Obs   json.RawMessage `json:"impl_obs"`
}

type Stats struct {
	Property           string         `json:"property"`
	Evaluations        int            `json:"evaluations"`
	DistinctNontrivial int            `json:"distinct_nontrivial"`
	Distinct           int            `json:"distinct"`
	Rule               string         `json:"rule"`
	Kinds              map[string]int `json:"kinds"`
	Shards             []string       `json:"shards"`
	CorpusCases        int            `json:"corpus_cases"`
	Samples            []record       `json:"samples"`
}

func loadCases[C any](path string) ([]C, error) {
	f, err := os.Open(path)
	if err != nil {
		return nil, err
	}
	defer f.Close()
	var out []C
	sc := bufio.NewScanner(f)
	sc.Buffer(make([]byte, 1<<20), 1<<28)
	for sc.Scan() {
		line := strings.TrimSpace(sc.Text())
		if line == "" || strings.HasPrefix(line, "#") {
			continue
		}
		// accept either a bare input object or a record with an "input" field
		var probe map[string]json.RawMessage
		if err := json.Unmarshal([]byte(line), &probe); err != nil {
			return nil, fmt.Errorf("%s: %v", path, err)
		}
		raw := json.RawMessage(line)
		if in, ok := probe["input"]; ok {
			raw = in
		}
		var c C
		if err := json.Unmarshal(raw, &c); err != nil {
			return nil, fmt.Errorf("%s: %v", path, err)
		}
		out = append(out, c)
	}
	return out, sc.Err()
}

// Main is the entry point of every runner.
//
//	-out DIR      output directory (cases_<k>.v, cases.jsonl, stats.json)
//	-seed N       PRNG seed
//	-tier T       quick | thorough
//	-corpus DIR   every *.jsonl in it is run first
//	-replay FILE  run only the cases of FILE (no corpus, no generation)
func Main[C any, O any](sp Spec[C, O]) {
	out := flag.String("out", ".", "output directory")
	seed := flag.Uint64("seed", 1, "seed")
	tier := flag.String("tier", "quick", "quick|thorough")
	corpus := flag.String("corpus", "", "corpus directory")
	replay := flag.String("replay", "", "replay file")
	flag.Parse()
	if sp.ShardSize == 0 {
		sp.ShardSize = 500
	}
	var cases []C
	ncorpus := 0
	if *replay != "" {
		cs, err := loadCases[C](*replay)
		if err != nil {
			fmt.Fprintln(os.Stderr, "replay:", err)
			os.Exit(3)
		}
		cases = cs
	} else {
		if *corpus != "" {
			files, _ := filepath.Glob(filepath.Join(*corpus, "*.jsonl"))
			sort.Strings(files)
			for _, f := range files {
				cs, err := loadCases[C](f)
				if err != nil {
					fmt.Fprintln(os.Stderr, "corpus:", err)
					os.Exit(3)
				}
				cases = append(cases, cs...)
			}
			ncorpus = len(cases)
		}
		cases = append(cases, sp.Gen(NewRng(*seed), *tier)...)
	}
	if err := os.MkdirAll(*out, 0o755); err != nil {
		panic(err)
	}
	jf, err := os.Create(filepath.Join(*out, "cases.jsonl"))
	if err != nil {
		panic(err)
	}
	jw := bufio.NewWriter(jf)
	st := Stats{Property: sp.Property, Rule: sp.Rule, Kinds: map[string]int{}, CorpusCases: ncorpus}
	seen := map[[32]byte]bool{}
	seenNT := map[[32]byte]bool{}
	var terms []string
	flush := func() {
		if len(terms) == 0 {
			return
		}
		name := fmt.Sprintf("cases_%d.v", len(st.Shards))
		var sb strings.Builder
		sb.WriteString("From Coq Require Import List ZArith NArith String.\nImport ListNotations.\n")
		sb.WriteString("From SygmaV Require Import Run." + sp.RunModule + ".\n")
		sb.WriteString("Definition cases : list case := [\n  ")
		sb.WriteString(strings.Join(terms, ";\n  "))
		sb.WriteString("\n].\n")
		sb.WriteString("Definition R := Eval vm_compute in check_all cases.\nPrint R.\n")
		if err := os.WriteFile(filepath.Join(*out, name), []byte(sb.String()), 0o644); err != nil {
			panic(err)
		}
		st.Shards = append(st.Shards, name)
		terms = nil
	}
	for i, c := range cases {
		in, _ := json.Marshal(c)
		kind := sp.Kind(c)
		// the case in flight: should the real code crash the process or hang, the orchestrator
		// reports this input as the failing one
		infl, _ := json.Marshal(record{Index: i, Kind: kind, Input: in, Obs: json.RawMessage(`{"crash":"process died or hung while this case was running"}`)})
		_ = os.WriteFile(filepath.Join(*out, "inflight.json"), infl, 0o644)
		o := func() O {
			defer func() {
				if r := recover(); r != nil {
					msg, _ := json.Marshal(map[string]string{"crash": fmt.Sprint(r)})
					cr, _ := json.Marshal(record{Index: i, Kind: kind, Input: in, Obs: msg})
					_ = os.WriteFile(filepath.Join(*out, "crash.json"), cr, 0o644)
					jw.Flush()
					fmt.Fprintf(os.Stderr, "vgen: case %d (%s) panicked: %v\n", i, kind, r)
					os.Exit(4)
				}
			}()
			return sp.Run(c)
		}()
		ob, _ := json.Marshal(o)
		rec := record{Index: i, Kind: kind, Input: in, Obs: ob}
		line, _ := json.Marshal(rec)
		jw.Write(line)
		jw.WriteByte('\n')
		h := sha256.Sum256(in)
		st.Evaluations++
		st.Kinds[kind]++
		if !seen[h] {
			seen[h] = true
		}
		if sp.NonTrivial == nil || sp.NonTrivial(c, o) {
			seenNT[h] = true
		}
		if len(st.Samples) < 3 || (i%(len(cases)/5+1) == 0 && len(st.Samples) < 8) {
			st.Samples = append(st.Samples, rec)
		}
		terms = append(terms, sp.Coq(c, o))
		if len(terms) >= sp.ShardSize {
			flush()
		}
	}
	flush()
	jw.Flush()
	jf.Close()
	_ = os.Remove(filepath.Join(*out, "inflight.json"))
	st.Distinct = len(seen)
	st.DistinctNontrivial = len(seenNT)
	sj, _ := json.MarshalIndent(st, "", " ")
	if err := os.WriteFile(filepath.Join(*out, "stats.json"), sj, 0o644); err != nil {
		panic(err)
	}
}
