package tssfakes

import (
	"context"
	"crypto/sha256"
	"errors"
	"fmt"
	"os"
	"path/filepath"
	"sync"
	"sync/atomic"

	"github.com/ChainSafe/sygma-relayer/keyshare"
	"github.com/libp2p/go-libp2p/core/crypto"
	"github.com/libp2p/go-libp2p/core/host"
	"github.com/libp2p/go-libp2p/core/network"
	"github.com/libp2p/go-libp2p/core/peer"
	"github.com/libp2p/go-libp2p/core/peerstore"
	"github.com/libp2p/go-libp2p/core/protocol"
	"github.com/libp2p/go-libp2p/p2p/host/peerstore/pstoremem"
	ma "github.com/multiformats/go-multiaddr"
)

// ---------------------------------------------------------------------------------------------
// peers and host

type detReader struct {
	seed [32]byte
	n    uint64
}

func (r *detReader) Read(p []byte) (int, error) {
	for i := range p {
		if r.n%32 == 0 {
			r.seed = sha256.Sum256(append(r.seed[:], byte(r.n/32)))
		}
		p[i] = r.seed[r.n%32]
		r.n++
	}
	return len(p), nil
}

// PeerIDs returns n deterministic, valid (Ed25519) peer ids.
func PeerIDs(n int) []peer.ID {
	out := make([]peer.ID, n)
	for i := range out {
		r := &detReader{seed: sha256.Sum256([]byte(fmt.Sprintf("tssfakes-peer-%d", i)))}
		_, pub, err := crypto.GenerateEd25519Key(r)
		if err != nil {
			panic(err)
		}
		id, err := peer.IDFromPublicKey(pub)
		if err != nil {
			panic(err)
		}
		out[i] = id
	}
	return out
}

// RepoPeerIDs returns the peer ids of the repo's test identities tss/test/pks/{0..n-1}.pk (the ones
// the key-share fixtures tss/test/keyshares/* were generated for).
func RepoPeerIDs(repo string, n int) ([]peer.ID, error) {
	out := make([]peer.ID, n)
	for i := range out {
		b, err := os.ReadFile(filepath.Join(repo, "tss", "test", "pks", fmt.Sprintf("%d.pk", i)))
		if err != nil {
			return nil, err
		}
		priv, err := crypto.UnmarshalPrivateKey(b)
		if err != nil {
			return nil, err
		}
		id, err := peer.IDFromPrivateKey(priv)
		if err != nil {
			return nil, err
		}
		out[i] = id
	}
	return out, nil
}

// FakeHost is a host.Host of which only ID, Peerstore (a real in-memory peerstore), Addrs,
// SetStreamHandler, Connect and NewStream exist; anything else panics (nil embedded interface).
type FakeHost struct {
	host.Host
	id peer.ID
	ps peerstore.Peerstore
	// NewStreamFn serves NewStream; nil = error.
	NewStreamFn func(p peer.ID) (network.Stream, error)
}

// NewFakeHost creates a host with identity self whose peerstore knows every peer of peers
// (self included if listed) under /ip4/127.0.0.1/tcp/(4000+i).
func NewFakeHost(self peer.ID, peers []peer.ID) *FakeHost {
	ps, err := pstoremem.NewPeerstore()
	if err != nil {
		panic(err)
	}
	for i, p := range peers {
		a, _ := ma.NewMultiaddr(fmt.Sprintf("/ip4/127.0.0.1/tcp/%d", 4000+i))
		ps.AddAddr(p, a, peerstore.PermanentAddrTTL)
	}
	return &FakeHost{id: self, ps: ps}
}

func (h *FakeHost) ID() peer.ID                                         { return h.id }
func (h *FakeHost) Peerstore() peerstore.Peerstore                      { return h.ps }
func (h *FakeHost) SetStreamHandler(protocol.ID, network.StreamHandler) {}
func (h *FakeHost) RemoveStreamHandler(protocol.ID)                     {}
func (h *FakeHost) Addrs() []ma.Multiaddr                               { return h.ps.Addrs(h.id) }
func (h *FakeHost) Connect(ctx context.Context, pi peer.AddrInfo) error { return nil }
func (h *FakeHost) Close() error                                        { return nil }
func (h *FakeHost) NewStream(ctx context.Context, p peer.ID, pids ...protocol.ID) (network.Stream, error) {
	if h.NewStreamFn == nil {
		return nil, errors.New("fake host: no streams")
	}
	return h.NewStreamFn(p)
}

// MockStream is a network.Stream that counts Close calls and swallows writes; Close returns
// CloseErr (scripted failure: the stream was already reset by the remote side ...).
type MockStream struct {
	network.Stream
	Name     string
	CloseErr error
	closes   atomic.Int64
	writes   atomic.Int64
}

func (s *MockStream) Close() error                { s.closes.Add(1); return s.CloseErr }
func (s *MockStream) Reset() error                { return nil }
func (s *MockStream) Write(p []byte) (int, error) { s.writes.Add(1); return len(p), nil }
func (s *MockStream) Closes() int                 { return int(s.closes.Load()) }
func (s *MockStream) Writes() int                 { return int(s.writes.Load()) }

// ---------------------------------------------------------------------------------------------
// key-share storers: count, never block, never abort

// LockCounter is the mutex stand-in: it records L/U in the ledger and keeps the balance.
type LockCounter struct {
	Led *Ledger
	mu  sync.Mutex
	l   int
	u   int
}

func (c *LockCounter) LockKeyshare() {
	c.mu.Lock()
	c.l++
	c.mu.Unlock()
	c.Led.Add(Event{Kind: "L"})
}
func (c *LockCounter) UnlockKeyshare() {
	c.mu.Lock()
	c.u++
	c.mu.Unlock()
	c.Led.Add(Event{Kind: "U"})
}
func (c *LockCounter) Counts() (locks, unlocks int) {
	c.mu.Lock()
	defer c.mu.Unlock()
	return c.l, c.u
}

// CountingECDSAStorer satisfies the storer/fetcher interfaces of tss/ecdsa/{keygen,resharing,signing}.
type CountingECDSAStorer struct {
	LockCounter
	Key    keyshare.ECDSAKeyshare
	GetErr error
	// File, if set, serves GetKeyshare by really reading that key-share file (so a missing,
	// corrupt or unreadable file fails exactly as in the real store); only the mutex is replaced.
	File *keyshare.ECDSAKeyshareStore
	Stored []keyshare.ECDSAKeyshare
	smu    sync.Mutex
}

func NewCountingECDSAStorer(led *Ledger) *CountingECDSAStorer {
	return &CountingECDSAStorer{LockCounter: LockCounter{Led: led}}
}
func (s *CountingECDSAStorer) GetKeyshare() (keyshare.ECDSAKeyshare, error) {
	s.Led.Add(Event{Kind: "Get"})
	if s.GetErr != nil {
		return keyshare.ECDSAKeyshare{}, s.GetErr
	}
	if s.File != nil {
		return s.File.GetKeyshare()
	}
	return s.Key, nil
}
func (s *CountingECDSAStorer) StoreKeyshare(k keyshare.ECDSAKeyshare) error {
	s.Led.Add(Event{Kind: "Store"})
	s.smu.Lock()
	s.Stored = append(s.Stored, k)
	s.smu.Unlock()
	return nil
}

// CountingFrostStorer satisfies the storer/fetcher interfaces of tss/frost/{keygen,resharing,signing}.
type CountingFrostStorer struct {
	LockCounter
	Key    keyshare.FrostKeyshare
	GetErr error
	// File: see CountingECDSAStorer.
	File *keyshare.FrostKeyshareStore
	Stored []keyshare.FrostKeyshare
	smu    sync.Mutex
}

func NewCountingFrostStorer(led *Ledger) *CountingFrostStorer {
	return &CountingFrostStorer{LockCounter: LockCounter{Led: led}}
}
func (s *CountingFrostStorer) GetKeyshare() (keyshare.FrostKeyshare, error) {
	s.Led.Add(Event{Kind: "Get"})
	if s.GetErr != nil {
		return keyshare.FrostKeyshare{}, s.GetErr
	}
	if s.File != nil {
		return s.File.GetKeyshare()
	}
	return s.Key, nil
}
func (s *CountingFrostStorer) StoreKeyshare(k keyshare.FrostKeyshare) error {
	s.Led.Add(Event{Kind: "Store"})
	s.smu.Lock()
	s.Stored = append(s.Stored, k)
	s.smu.Unlock()
	return nil
}

// ---------------------------------------------------------------------------------------------
// scripted process

// LiveTracker counts, per session id, how many scripted processes are inside Run right now and
// the maximum ever seen.
type LiveTracker struct {
	mu   sync.Mutex
	live map[string]int
	max  map[string]int
}

func NewLiveTracker() *LiveTracker {
	return &LiveTracker{live: map[string]int{}, max: map[string]int{}}
}
func (t *LiveTracker) enter(sid string) {
	t.mu.Lock()
	t.live[sid]++
	if t.live[sid] > t.max[sid] {
		t.max[sid] = t.live[sid]
	}
	t.mu.Unlock()
}
func (t *LiveTracker) leave(sid string) {
	t.mu.Lock()
	t.live[sid]--
	t.mu.Unlock()
}
func (t *LiveTracker) Live(sid string) int {
	t.mu.Lock()
	defer t.mu.Unlock()
	return t.live[sid]
}
func (t *LiveTracker) Max(sid string) int {
	t.mu.Lock()
	defer t.mu.Unlock()
	return t.max[sid]
}
func (t *LiveTracker) TotalLive() int {
	t.mu.Lock()
	defer t.mu.Unlock()
	n := 0
	for _, v := range t.live {
		n += v
	}
	return n
}

// RecProcess is a scripted tss.TssProcess: Run blocks until Release is called (then returns
// RunErr) or its context ends (then returns nil, as the real processes do).
type RecProcess struct {
	SID          string
	Retry        bool
	Coordinators []peer.ID
	// ReadyAt: Ready reports true once that many peers are ready.
	ReadyAt int
	RunErr  error
	Tracker *LiveTracker

	gate     chan struct{}
	once     sync.Once
	runs     atomic.Int64
	stops    atomic.Int64
	sidCalls atomic.Int64
	// CtxEnded is set when a Run returned because its context ended.
	ctxEnded atomic.Int64
}

func NewRecProcess(sid string, coordinators []peer.ID, readyAt int) *RecProcess {
	return &RecProcess{SID: sid, Coordinators: coordinators, ReadyAt: readyAt, gate: make(chan struct{})}
}

// Release lets every current and future Run return RunErr.
func (p *RecProcess) Release() { p.once.Do(func() { close(p.gate) }) }

func (p *RecProcess) Run(ctx context.Context, coordinator bool, resultChn chan interface{}, params []byte) error {
	p.runs.Add(1)
	if p.Tracker != nil {
		p.Tracker.enter(p.SID)
		defer p.Tracker.leave(p.SID)
	}
	select {
	case <-p.gate:
		return p.RunErr
	case <-ctx.Done():
		p.ctxEnded.Add(1)
		return nil
	}
}
func (p *RecProcess) Stop() { p.stops.Add(1) }
func (p *RecProcess) Ready(readyPeers []peer.ID, excludedPeers []peer.ID) (bool, error) {
	return len(readyPeers) >= p.ReadyAt, nil
}
func (p *RecProcess) Retryable() bool                         { return p.Retry }
func (p *RecProcess) StartParams(readyPeers []peer.ID) []byte { return []byte{} }
func (p *RecProcess) SessionID() string                       { p.sidCalls.Add(1); return p.SID }
func (p *RecProcess) ValidCoordinators() []peer.ID            { return p.Coordinators }

func (p *RecProcess) Runs() int           { return int(p.runs.Load()) }
func (p *RecProcess) Stops() int          { return int(p.stops.Load()) }
func (p *RecProcess) SessionIDCalls() int { return int(p.sidCalls.Load()) }
func (p *RecProcess) CtxEnded() int       { return int(p.ctxEnded.Load()) }
