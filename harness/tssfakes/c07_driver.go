// Helpers shared by the C07 and C11 runners: deterministic peer ids, the specification-level sort
// key, real process objects behind ScriptProcess, start-message encoding, and the message-delivery
// policy of the scripted sessions.
package tssfakes

import (
	"crypto/ed25519"
	"crypto/sha256"
	"encoding/binary"
	"encoding/json"
	"fmt"
	"math/big"
	"path/filepath"
	"sync"
	"sync/atomic"
	"time"

	"github.com/ChainSafe/sygma-relayer/comm"
	"github.com/ChainSafe/sygma-relayer/keyshare"
	ecdsaKeygen "github.com/ChainSafe/sygma-relayer/tss/ecdsa/keygen"
	ecdsaResharing "github.com/ChainSafe/sygma-relayer/tss/ecdsa/resharing"
	ecdsaSigning "github.com/ChainSafe/sygma-relayer/tss/ecdsa/signing"
	frostKeygen "github.com/ChainSafe/sygma-relayer/tss/frost/keygen"
	frostResharing "github.com/ChainSafe/sygma-relayer/tss/frost/resharing"
	frostSigning "github.com/ChainSafe/sygma-relayer/tss/frost/signing"
	"github.com/ChainSafe/sygma-relayer/tss/message"
	"github.com/libp2p/go-libp2p/core/crypto"
	"github.com/libp2p/go-libp2p/core/host"
	"github.com/libp2p/go-libp2p/core/peer"
	"golang.org/x/crypto/sha3"
)

// C07PeerPool returns n libp2p peer ids derived from fixed seeds (ed25519 keys), the same in every
// run and independent of VERIF_SEED.
func C07PeerPool(n int) []peer.ID {
	out := make([]peer.ID, n)
	for i := range out {
		seed := sha256.Sum256([]byte(fmt.Sprintf("sygma-verif-c07-peer-%d", i)))
		priv := ed25519.NewKeyFromSeed(seed[:])
		pk, err := crypto.UnmarshalEd25519PublicKey(priv.Public().(ed25519.PublicKey))
		if err != nil {
			panic(err)
		}
		id, err := peer.IDFromPublicKey(pk)
		if err != nil {
			panic(err)
		}
		out[i] = id
	}
	return out
}

// C07SortKey is the SPECIFICATION of the session sort key, computed independently of tss/util:
// the first 8 bytes, big endian, of keccak256(base58(peer id) ++ session id).
func C07SortKey(p peer.ID, sid string) uint64 {
	h := sha3.NewLegacyKeccak256()
	h.Write([]byte(p.String()))
	h.Write([]byte(sid))
	return binary.BigEndian.Uint64(h.Sum(nil)[:8])
}

// ---------------------------------------------------------------------------------------------

type c07ecdsaFetcher struct {
	sync.Mutex
	ks keyshare.ECDSAKeyshare
}

func (f *c07ecdsaFetcher) GetKeyshare() (keyshare.ECDSAKeyshare, error) { return f.ks, nil }
func (f *c07ecdsaFetcher) StoreKeyshare(keyshare.ECDSAKeyshare) error   { return nil }
func (f *c07ecdsaFetcher) LockKeyshare()                                { f.Lock() }
func (f *c07ecdsaFetcher) UnlockKeyshare()                              { f.Unlock() }

type c07frostFetcher struct {
	sync.Mutex
	ks keyshare.FrostKeyshare
}

func (f *c07frostFetcher) GetKeyshare() (keyshare.FrostKeyshare, error) { return f.ks, nil }
func (f *c07frostFetcher) StoreKeyshare(keyshare.FrostKeyshare) error   { return nil }
func (f *c07frostFetcher) LockKeyshare()                                { f.Lock() }
func (f *c07frostFetcher) UnlockKeyshare()                              { f.Unlock() }

const c07Tweak = "c82aa6ae534bb28aaafeb3660c31d6a52e187d8f05d48bb6bdb9b733a9b42212"

// C07Signing builds a REAL signing process ("ecdsa" | "frost") whose key share names the given
// committee and threshold.  Only Ready / StartParams / ValidCoordinators / Retryable are used.
func C07Signing(kind, repo, sid string, h host.Host, c comm.Communication, holders []peer.ID, t int) (ScriptInner, error) {
	switch kind {
	case "ecdsa":
		f := &c07ecdsaFetcher{ks: keyshare.ECDSAKeyshare{Threshold: t, Peers: holders}}
		return ecdsaSigning.NewSigning(big.NewInt(1), "m", sid, h, c, f)
	case "frost":
		st := keyshare.NewFrostKeyshareStore(filepath.Join(repo, "tss", "test", "keyshares", "0-frost.keyshare"))
		ks, err := st.GetKeyshare()
		if err != nil {
			return nil, err
		}
		ks.Threshold = t
		ks.Peers = holders
		return frostSigning.NewSigning(1, []byte("m"), c07Tweak, "m", sid, h, c, &c07frostFetcher{ks: ks})
	}
	return nil, fmt.Errorf("unknown signing kind %q", kind)
}

// C07Retryable asks the REAL process type whether it is retryable.
// kind: ecdsa | frost (signing), ecdsa-keygen, ecdsa-resharing, frost-keygen, frost-resharing.
func C07Retryable(kind, repo, sid string, h host.Host, c comm.Communication, holders []peer.ID, t int) (bool, error) {
	switch kind {
	case "ecdsa", "frost":
		s, err := C07Signing(kind, repo, sid, h, c, holders, t)
		if err != nil {
			return false, err
		}
		return s.Retryable(), nil
	case "ecdsa-keygen":
		return ecdsaKeygen.NewKeygen(sid, t, h, c, &c07ecdsaFetcher{}).Retryable(), nil
	case "ecdsa-resharing":
		return ecdsaResharing.NewResharing(sid, t, h, c, &c07ecdsaFetcher{ks: keyshare.ECDSAKeyshare{Threshold: t, Peers: holders}}).Retryable(), nil
	case "frost-keygen":
		return frostKeygen.NewKeygen(sid, t, h, c, &c07frostFetcher{}).Retryable(), nil
	case "frost-resharing":
		st := keyshare.NewFrostKeyshareStore(filepath.Join(repo, "tss", "test", "keyshares", "0-frost.keyshare"))
		ks, err := st.GetKeyshare()
		if err != nil {
			return false, err
		}
		return frostResharing.NewResharing(sid, t, h, c, &c07frostFetcher{ks: ks}).Retryable(), nil
	}
	return false, fmt.Errorf("unknown process kind %q", kind)
}

// C07Inner combines the committee logic of a real signing process with the Retryable flag of
// another real process type.
type C07Inner struct {
	ScriptInner
	Retry bool
}

func (i C07Inner) Retryable() bool { return i.Retry }

// ---------------------------------------------------------------------------------------------

func C07EncodeParams(peers []peer.ID) []byte {
	if peers == nil {
		peers = []peer.ID{}
	}
	b, _ := json.Marshal(peers)
	return b
}

func C07StartPayload(peers []peer.ID) []byte {
	b, err := message.MarshalStartMessage(C07EncodeParams(peers))
	if err != nil {
		panic(err)
	}
	return b
}

// C07DecodeParams decodes Run params / start params into peer ids.
func C07DecodeParams(b []byte) ([]peer.ID, bool) {
	var ps []peer.ID
	if err := json.Unmarshal(b, &ps); err != nil {
		return nil, false
	}
	return ps, true
}

// C07DecodeStart decodes the payload of a broadcast start message.
func C07DecodeStart(payload []byte) ([]peer.ID, bool) {
	m, err := message.UnmarshalStartMessage(payload)
	if err != nil {
		return nil, false
	}
	return C07DecodeParams(m.Params)
}

// ---------------------------------------------------------------------------------------------

const (
	C07Generous = 10 * time.Second      // deadline of every wait for an event that must happen
	C07Quiet    = 30 * time.Millisecond // observation window for "nothing happens"
)

// A wait that must end by an event uses C07Deadline().  When such waits have run into their
// deadline three times in one runner process (the code under test is stuck - only a broken or
// mutated implementation does that), the remaining cases use a short deadline so that the run
// still ends and reports.  A wait that runs into the SHORT deadline says nothing about the code
// under test (slow cannot be told from stuck, and the election windows of the retry cases are as long
// as the short deadline): the driver records it as Unsure and the runners report such a case as one
// they could not drive (never judged), see C07Driver.Expired.
var c07Stuck atomic.Int32

const c07Short = 300 * time.Millisecond

func C07Deadline() time.Duration {
	if c07Stuck.Load() >= 3 {
		return c07Short
	}
	return C07Generous
}

// C07Settle bounds the wait for the session function to return after a message that, as the code
// stands, ends the session (the coordinator's fail message, its undecodable start message).  Running
// into it is not trouble: the message did not end the session, the case goes on.
const C07Settle = 3 * time.Second

// C07Driver delivers scripted messages one at a time.
type C07Driver struct {
	Comm  *ScriptComm
	Proc  *ScriptProcess
	Sid   string
	Done  <-chan struct{} // closed when Execute (or the driven function) returned
	Stuck bool            // a wait hit its deadline: nothing more is delivered
	// a wait hit a deadline that was the shortened one: the runner could not drive the case
	Unsure bool
}

func (d *C07Driver) finished() bool {
	select {
	case <-d.Done:
		return true
	default:
		return false
	}
}

// Finished: the session function has returned.
func (d *C07Driver) Finished() bool { return d.finished() }

// NoteStuck records that a wait ran into the generous deadline.
func (d *C07Driver) NoteStuck() { d.Expired(C07Generous) }

// Expired records that a wait bounded by limit (a value of C07Deadline()) ran into it.
func (d *C07Driver) Expired(limit time.Duration) {
	d.Stuck = true
	if limit < C07Generous {
		d.Unsure = true
	}
	c07Stuck.Add(1)
}

// Doubt: a wait bounded by limit (a value of C07Deadline()) ended without its event, which may be normal
// under the generous deadline (the caller knows); under the shortened one the case was not driven.
func (d *C07Driver) Doubt(limit time.Duration) {
	if limit < C07Generous {
		d.Unsure = true
	}
}

// Deliver offers one message to the ordinal-th subscription of (session, t).  It returns true if
// the subscriber consumed it.  While a Run is in progress the coordinator loops do not read
// initiate / start / ready messages: such a message is offered for C07Quiet only.  Otherwise the
// offer stands until it is consumed, the subscription ends, a Run starts, or the session function
// returns.
func (d *C07Driver) Deliver(t comm.MessageType, ordinal int, from peer.ID, payload []byte) bool {
	if d.Stuck || d.finished() {
		return false
	}
	limit := C07Deadline()
	begin := time.Now()
	sub := d.Comm.WaitSub(d.Sid, t, ordinal, d.Done, limit)
	if sub == nil {
		if !d.finished() {
			d.Expired(limit)
		}
		return false
	}
	_, active, next := d.Proc.RunState()
	if active && t != comm.TssFailMsg {
		return ScriptPush(sub, from, payload, C07Quiet, d.Done)
	}
	var ok bool
	if t == comm.TssFailMsg {
		ok = ScriptPush(sub, from, payload, limit, d.Done)
	} else {
		ok = ScriptPush(sub, from, payload, limit, d.Done, next)
	}
	if !ok && time.Since(begin) >= limit {
		d.Expired(limit)
	}
	return ok
}

// WaitRuns waits until the process has been run n times.
func (d *C07Driver) WaitRuns(n int) bool {
	if d.Stuck {
		return false
	}
	limit := C07Deadline()
	ok := d.Proc.WaitRuns(n, d.Done, limit)
	if !ok && !d.finished() {
		d.Expired(limit)
	}
	return ok
}

// WaitDone waits for the session function to return.
func (d *C07Driver) WaitDone() bool {
	limit := C07Deadline()
	select {
	case <-d.Done:
		return true
	case <-time.After(limit):
		d.Expired(limit)
		return false
	}
}

// Settled waits up to limit for the session function to return; running into the limit is an
// observation (the session goes on), not trouble.
func (d *C07Driver) Settled(limit time.Duration) bool {
	select {
	case <-d.Done:
		return true
	case <-time.After(limit):
		return false
	}
}
