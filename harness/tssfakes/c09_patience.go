package tssfakes

import (
	"fmt"
	"os"
	"sync/atomic"
	"time"
)

// Bounded waiting for the coordinator-family runners (C09, C10).
//
// Every wait of a runner goes through Patience(): a generous deadline (20 s) that shrinks every
// time one expires (5 s, 1.25 s, then 300 ms), so that a changed implementation which makes the
// harness wait in vain costs about half a minute in total instead of 20 s per case.  After
// MaxExpiries expired waits the run is ended by a panic in the runner's goroutine - vgen reports a
// runner panic together with the case in flight as the failing input.

var expiries atomic.Int64

// MaxExpiries: the number of expired waits after which Expired panics.
var MaxExpiries int64 = 6

func Expiries() int64 { return expiries.Load() }

func Patience() time.Duration {
	d := 20 * time.Second
	for i := int64(0); i < expiries.Load() && d > 300*time.Millisecond; i++ {
		d /= 4
	}
	if d < 300*time.Millisecond {
		d = 300 * time.Millisecond
	}
	return d
}

// Expired notes a wait that ran out (what = what was waited for).
func Expired(what string) {
	n := expiries.Add(1)
	fmt.Fprintf(os.Stderr, "patience: wait %d ran out: %s\n", n, what)
	if n > MaxExpiries {
		panic(fmt.Sprintf("%d waits of the runner ran out (20 s, 5 s, 1.25 s, then 300 ms each), the last one: %s - the implementation keeps the harness waiting (a call that neither returns nor makes progress, a lock that is not given back)", n, what))
	}
}

// WaitP polls cond (sleeping in between) until it holds or patience runs out.
func WaitP(what string, cond func() bool) bool {
	if WaitFor(Patience(), cond) {
		return true
	}
	Expired(what)
	return false
}

// RecvP waits for a value on ch, at most Patience().
func RecvP[T any](what string, ch <-chan T) (T, bool) {
	t := time.NewTimer(Patience())
	defer t.Stop()
	select {
	case v := <-ch:
		return v, true
	case <-t.C:
		Expired(what)
		var zero T
		return zero, false
	}
}

// StartWatchdog ends the process if the whole run takes longer than d (last resort; the case in
// flight is then reported by the orchestrator as the failing input).
func StartWatchdog(name string, d time.Duration) {
	time.AfterFunc(d, func() {
		fmt.Fprintf(os.Stderr, "%s runner: run exceeded its budget of %v (%d waits expired): the implementation keeps the harness waiting; the case in flight is the failing input\n", name, d, expiries.Load())
		os.Exit(5)
	})
}
