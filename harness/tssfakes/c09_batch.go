package tssfakes

import (
	"context"
	"sync"

	"github.com/libp2p/go-libp2p/core/peer"
)

// BatchProc is a scripted tss.TssProcess for sessions with SEVERAL processes (C09 batch cases): it
// counts, per process OBJECT, how often Run and Stop were called and how many Runs were inside the
// object at the same time (the maximum ever seen), and the k-th Run follows Script[k] (the last entry
// for every further one):
//
//	Mode "now"  - Run returns Err at once (the worker goroutine of the pool that called it is free again
//	              before the launching loop has handed out its next task)
//	Mode "gate" - Run blocks until ReleaseRound(k) (then returns Err) or until its context ends (then
//	              returns nil, as the real processes do)
type BatchStep struct {
	Mode string
	Err  error
}

type BatchProc struct {
	SID          string
	Retry        bool
	Coordinators []peer.ID
	ReadyAt      int
	Script       []BatchStep
	Tracker      *LiveTracker

	mu      sync.Mutex
	runs    int
	stops   int
	live    int
	maxLive int
	gates   []chan struct{}
	open    []bool
}

func NewBatchProc(sid string, coordinators []peer.ID, readyAt int, script ...BatchStep) *BatchProc {
	if len(script) == 0 {
		script = []BatchStep{{Mode: "now"}}
	}
	p := &BatchProc{SID: sid, Coordinators: coordinators, ReadyAt: readyAt, Script: script}
	for range script {
		p.gates = append(p.gates, make(chan struct{}))
		p.open = append(p.open, false)
	}
	return p
}

func (p *BatchProc) step(k int) int {
	if k >= len(p.Script) {
		return len(p.Script) - 1
	}
	return k
}

// ReleaseRound lets the k-th Run (and, for the last script entry, every later one) return its error.
func (p *BatchProc) ReleaseRound(k int) {
	p.mu.Lock()
	defer p.mu.Unlock()
	k = p.step(k)
	if !p.open[k] {
		p.open[k] = true
		close(p.gates[k])
	}
}

// ReleaseAll opens every gate.
func (p *BatchProc) ReleaseAll() {
	for k := range p.Script {
		p.ReleaseRound(k)
	}
}

func (p *BatchProc) Run(ctx context.Context, coordinator bool, resultChn chan interface{}, params []byte) error {
	p.mu.Lock()
	k := p.step(p.runs)
	p.runs++
	p.live++
	if p.live > p.maxLive {
		p.maxLive = p.live
	}
	st, gate := p.Script[k], p.gates[k]
	p.mu.Unlock()
	if p.Tracker != nil {
		p.Tracker.enter(p.SID)
		defer p.Tracker.leave(p.SID)
	}
	defer func() {
		p.mu.Lock()
		p.live--
		p.mu.Unlock()
	}()
	if st.Mode == "now" {
		return st.Err
	}
	select {
	case <-gate:
		return st.Err
	case <-ctx.Done():
		return nil
	}
}

func (p *BatchProc) Stop() { p.mu.Lock(); p.stops++; p.mu.Unlock() }
func (p *BatchProc) Ready(readyPeers []peer.ID, excludedPeers []peer.ID) (bool, error) {
	return len(readyPeers) >= p.ReadyAt, nil
}
func (p *BatchProc) Retryable() bool                         { return p.Retry }
func (p *BatchProc) StartParams(readyPeers []peer.ID) []byte { return []byte{} }
func (p *BatchProc) SessionID() string                       { return p.SID }
func (p *BatchProc) ValidCoordinators() []peer.ID            { return p.Coordinators }

func (p *BatchProc) Runs() int    { p.mu.Lock(); defer p.mu.Unlock(); return p.runs }
func (p *BatchProc) Stops() int   { p.mu.Lock(); defer p.mu.Unlock(); return p.stops }
func (p *BatchProc) Live() int    { p.mu.Lock(); defer p.mu.Unlock(); return p.live }
func (p *BatchProc) MaxLive() int { p.mu.Lock(); defer p.mu.Unlock(); return p.maxLive }
