package tssfakes

import (
	"sync"
	"time"

	"github.com/ChainSafe/sygma-relayer/keyshare"
)

// Key-share stores whose Lock REALLY blocks (C10 contention cases): one BlockingLock per store, any
// number of tagged views of it - one per process - so that every ledger entry says which process it
// belongs to (Event.SID carries the tag).
//
// The lock is a mutex with Go's semantics except that an Unlock of the free lock is recorded and
// otherwise ignored instead of killing the process (the ledger shows it; the judge calls it fatal).
// L is recorded when the lock has been ACQUIRED, U when it is released, both inside the lock's own
// critical section, so the order of the ledger is the order of the mutex.

type BlockingLock struct {
	Led     *Ledger
	mu      sync.Mutex
	cond    *sync.Cond
	held    bool
	waiters int
}

func NewBlockingLock(led *Ledger) *BlockingLock {
	b := &BlockingLock{Led: led}
	b.cond = sync.NewCond(&b.mu)
	return b
}

func (b *BlockingLock) lock(tag string) {
	b.mu.Lock()
	b.waiters++
	for b.held {
		b.cond.Wait()
	}
	b.waiters--
	b.held = true
	b.Led.Add(Event{Kind: "L", SID: tag})
	b.mu.Unlock()
}

func (b *BlockingLock) unlock(tag string) {
	b.mu.Lock()
	b.Led.Add(Event{Kind: "U", SID: tag})
	b.held = false
	b.mu.Unlock()
	b.cond.Broadcast()
}

// Waiters: goroutines inside Lock that have not got the lock yet.
func (b *BlockingLock) Waiters() int {
	b.mu.Lock()
	defer b.mu.Unlock()
	return b.waiters
}

func (b *BlockingLock) Held() bool {
	b.mu.Lock()
	defer b.mu.Unlock()
	return b.held
}

// Probe: can the lock be taken within d?  (Takes and releases it; leaves no ledger entry.)
func (b *BlockingLock) Probe(d time.Duration) bool {
	deadline := time.Now().Add(d)
	for {
		b.mu.Lock()
		if !b.held {
			b.mu.Unlock()
			return true
		}
		b.mu.Unlock()
		if time.Now().After(deadline) {
			return false
		}
		time.Sleep(time.Millisecond)
	}
}

// BlockingECDSAView is what one process sees of an ECDSA key-share store with a blocking lock.
type BlockingECDSAView struct {
	Lock *BlockingLock
	Tag  string
	File *keyshare.ECDSAKeyshareStore
}

func (v *BlockingECDSAView) LockKeyshare()   { v.Lock.lock(v.Tag) }
func (v *BlockingECDSAView) UnlockKeyshare() { v.Lock.unlock(v.Tag) }
func (v *BlockingECDSAView) GetKeyshare() (keyshare.ECDSAKeyshare, error) {
	v.Lock.Led.Add(Event{Kind: "Get", SID: v.Tag})
	return v.File.GetKeyshare()
}
func (v *BlockingECDSAView) StoreKeyshare(k keyshare.ECDSAKeyshare) error {
	v.Lock.Led.Add(Event{Kind: "Store", SID: v.Tag})
	return nil
}

// BlockingFrostView: the same for a FROST key-share store.
type BlockingFrostView struct {
	Lock *BlockingLock
	Tag  string
	File *keyshare.FrostKeyshareStore
}

func (v *BlockingFrostView) LockKeyshare()   { v.Lock.lock(v.Tag) }
func (v *BlockingFrostView) UnlockKeyshare() { v.Lock.unlock(v.Tag) }
func (v *BlockingFrostView) GetKeyshare() (keyshare.FrostKeyshare, error) {
	v.Lock.Led.Add(Event{Kind: "Get", SID: v.Tag})
	return v.File.GetKeyshare()
}
func (v *BlockingFrostView) StoreKeyshare(k keyshare.FrostKeyshare) error {
	v.Lock.Led.Add(Event{Kind: "Store", SID: v.Tag})
	return nil
}
