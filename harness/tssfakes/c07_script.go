// Scripted fakes for the coordinator-family runners of C07 and C11 (package shared with the C09/C10
// fakes; every exported name of this file starts with Script or C07 to stay clear of theirs).
//
//	ScriptHost     host.Host of which only ID / Peerstore (real in-memory peerstore) /
//	               SetStreamHandler exist
//	ScriptComm     comm.Communication that records Subscribe / UnSubscribe / Broadcast calls and lets
//	               the runner push messages into the subscribed channels one at a time, waiting on
//	               EVENTS (a subscription appeared, a message was consumed, a Run started, Execute
//	               returned) - never on wall-clock delays
//	ScriptProcess  tss.TssProcess that delegates Ready / StartParams / ValidCoordinators / Retryable
//	               to a REAL process object (signing, keygen, resharing) and records / scripts Run
package tssfakes

import (
	"context"
	"fmt"
	"sync"
	"time"

	"github.com/ChainSafe/sygma-relayer/comm"
	"github.com/libp2p/go-libp2p/core/host"
	"github.com/libp2p/go-libp2p/core/network"
	"github.com/libp2p/go-libp2p/core/peer"
	"github.com/libp2p/go-libp2p/core/peerstore"
	"github.com/libp2p/go-libp2p/core/protocol"
	"github.com/libp2p/go-libp2p/p2p/host/peerstore/pstoremem"
	ma "github.com/multiformats/go-multiaddr"
)

// ---------------------------------------------------------------------------------------------

type ScriptHost struct {
	host.Host
	id peer.ID
	ps peerstore.Peerstore
}

func NewScriptHost(self peer.ID, peers []peer.ID) *ScriptHost {
	ps, err := pstoremem.NewPeerstore()
	if err != nil {
		panic(err)
	}
	for i, p := range peers {
		a, _ := ma.NewMultiaddr(fmt.Sprintf("/ip4/127.0.0.1/tcp/%d", 4000+i))
		ps.AddAddr(p, a, peerstore.PermanentAddrTTL)
	}
	return &ScriptHost{id: self, ps: ps}
}

func (h *ScriptHost) ID() peer.ID                                         { return h.id }
func (h *ScriptHost) Peerstore() peerstore.Peerstore                      { return h.ps }
func (h *ScriptHost) SetStreamHandler(protocol.ID, network.StreamHandler) {}
func (h *ScriptHost) RemoveStreamHandler(protocol.ID)                     {}

// ---------------------------------------------------------------------------------------------

type ScriptSub struct {
	ID      comm.SubscriptionID
	Session string
	Type    comm.MessageType
	Ch      chan *comm.WrappedMessage
	Ordinal int // 1-based count of subscriptions of this (session, type)
	dead    bool
	Dead    chan struct{} // closed by UnSubscribe
}

type ScriptSent struct {
	To      []peer.ID
	Type    comm.MessageType
	Session string
	Payload []byte
}

type ScriptComm struct {
	mu     sync.Mutex
	cond   *sync.Cond
	subs   []*ScriptSub
	sent   []ScriptSent
	closed []string
	// OnSubscribe, if set, is called (in its own goroutine) for every new subscription.
	OnSubscribe func(s *ScriptSub)
	// sendErr, if set (SetSendErr), decides the result of every Broadcast after it was recorded:
	// the transport's per-peer send failures (the libp2p implementation returns the
	// *comm.CommunicationError of the first addressee it could not reach).
	sendErr func(s ScriptSent) error
}

// SetSendErr installs (or, with nil, removes) the function that decides the result of Broadcast.
func (c *ScriptComm) SetSendErr(f func(s ScriptSent) error) {
	c.mu.Lock()
	c.sendErr = f
	c.mu.Unlock()
}

func NewScriptComm() *ScriptComm {
	c := &ScriptComm{}
	c.cond = sync.NewCond(&c.mu)
	return c
}

func (c *ScriptComm) CloseSession(sessionID string) {
	c.mu.Lock()
	c.closed = append(c.closed, sessionID)
	c.cond.Broadcast()
	c.mu.Unlock()
}

func (c *ScriptComm) Broadcast(peers peer.IDSlice, msg []byte, msgType comm.MessageType, sessionID string) error {
	c.mu.Lock()
	s := ScriptSent{To: append([]peer.ID{}, peers...), Type: msgType, Session: sessionID, Payload: append([]byte{}, msg...)}
	c.sent = append(c.sent, s)
	f := c.sendErr
	c.cond.Broadcast()
	c.mu.Unlock()
	if f != nil {
		return f(s)
	}
	return nil
}

func (c *ScriptComm) Subscribe(sessionID string, msgType comm.MessageType, channel chan *comm.WrappedMessage) comm.SubscriptionID {
	c.mu.Lock()
	n := 1
	for _, s := range c.subs {
		if s.Session == sessionID && s.Type == msgType {
			n++
		}
	}
	s := &ScriptSub{
		ID:      comm.SubscriptionID(fmt.Sprintf("%s-%d-%d", sessionID, msgType, len(c.subs))),
		Session: sessionID, Type: msgType, Ch: channel, Ordinal: n, Dead: make(chan struct{}),
	}
	c.subs = append(c.subs, s)
	f := c.OnSubscribe
	c.cond.Broadcast()
	c.mu.Unlock()
	if f != nil {
		go f(s)
	}
	return s.ID
}

func (c *ScriptComm) UnSubscribe(subID comm.SubscriptionID) {
	c.mu.Lock()
	for _, s := range c.subs {
		if s.ID == subID && !s.dead {
			s.dead = true
			close(s.Dead)
		}
	}
	c.cond.Broadcast()
	c.mu.Unlock()
}

// Sent returns a snapshot of all Broadcast calls so far.
func (c *ScriptComm) Sent() []ScriptSent {
	c.mu.Lock()
	defer c.mu.Unlock()
	return append([]ScriptSent{}, c.sent...)
}

// CountSent counts the Broadcast calls of a message type.
func (c *ScriptComm) CountSent(t comm.MessageType) int {
	c.mu.Lock()
	defer c.mu.Unlock()
	n := 0
	for _, s := range c.sent {
		if s.Type == t {
			n++
		}
	}
	return n
}

// SubCount counts the subscriptions made so far for a (session, type).
func (c *ScriptComm) SubCount(session string, t comm.MessageType) int {
	c.mu.Lock()
	defer c.mu.Unlock()
	n := 0
	for _, s := range c.subs {
		if s.Session == session && s.Type == t {
			n++
		}
	}
	return n
}

// waitCond waits until pred() (evaluated under the lock) holds, stop is closed, or the deadline
// passes.  Returns whether pred held.
func (c *ScriptComm) waitCond(pred func() bool, stop <-chan struct{}, deadline time.Duration) bool {
	timer := time.AfterFunc(deadline, func() { c.mu.Lock(); c.cond.Broadcast(); c.mu.Unlock() })
	defer timer.Stop()
	stopped := false
	quit := make(chan struct{})
	defer close(quit)
	if stop != nil {
		go func() {
			select {
			case <-stop:
				c.mu.Lock()
				stopped = true
				c.cond.Broadcast()
				c.mu.Unlock()
			case <-quit:
			}
		}()
	}
	end := time.Now().Add(deadline)
	c.mu.Lock()
	defer c.mu.Unlock()
	for !pred() {
		if stopped || !time.Now().Before(end) {
			return false
		}
		c.cond.Wait()
	}
	return true
}

// WaitSub waits for the ordinal-th subscription of (session, type).
func (c *ScriptComm) WaitSub(session string, t comm.MessageType, ordinal int, stop <-chan struct{}, deadline time.Duration) *ScriptSub {
	var found *ScriptSub
	c.waitCond(func() bool {
		for _, s := range c.subs {
			if s.Session == session && s.Type == t && s.Ordinal == ordinal {
				found = s
				return true
			}
		}
		return false
	}, stop, deadline)
	return found
}

// ScriptWant names a subscription by type and ordinal.
type ScriptWant struct {
	Type    comm.MessageType
	Ordinal int
}

// WaitAnySub waits until one of the wanted subscriptions of the session exists and returns it.
func (c *ScriptComm) WaitAnySub(session string, wants []ScriptWant, stop <-chan struct{}, deadline time.Duration) *ScriptSub {
	var found *ScriptSub
	c.waitCond(func() bool {
		for _, s := range c.subs {
			for _, w := range wants {
				if s.Session == session && s.Type == w.Type && s.Ordinal == w.Ordinal {
					found = s
					return true
				}
			}
		}
		return false
	}, stop, deadline)
	return found
}

// AnySub reports whether any subscription was ever made.
func (c *ScriptComm) AnySub() bool {
	c.mu.Lock()
	defer c.mu.Unlock()
	return len(c.subs) > 0
}

// WaitSent waits until at least n Broadcast calls of type t were made.
func (c *ScriptComm) WaitSent(t comm.MessageType, n int, stop <-chan struct{}, deadline time.Duration) bool {
	return c.waitCond(func() bool {
		k := 0
		for _, s := range c.sent {
			if s.Type == t {
				k++
			}
		}
		return k >= n
	}, stop, deadline)
}

// Push offers one message to a subscription's channel.  It returns true when the subscriber took
// it; false when one of the stop channels fired or the limit passed first.
func ScriptPush(s *ScriptSub, from peer.ID, payload []byte, limit time.Duration, stops ...<-chan struct{}) bool {
	m := &comm.WrappedMessage{MessageType: s.Type, SessionID: s.Session, Payload: payload, From: from}
	t := time.NewTimer(limit)
	defer t.Stop()
	var s0, s1, s2 <-chan struct{}
	if len(stops) > 0 {
		s0 = stops[0]
	}
	if len(stops) > 1 {
		s1 = stops[1]
	}
	if len(stops) > 2 {
		s2 = stops[2]
	}
	select {
	case s.Ch <- m:
		return true
	case <-s.Dead:
	case <-s0:
	case <-s1:
	case <-s2:
	case <-t.C:
	}
	return false
}

// ---------------------------------------------------------------------------------------------

// ScriptInner is the part of tss.TssProcess that ScriptProcess delegates to a real process.
type ScriptInner interface {
	Ready(readyPeers []peer.ID, excludedPeers []peer.ID) (bool, error)
	Retryable() bool
	StartParams(readyPeers []peer.ID) []byte
	ValidCoordinators() []peer.ID
}

type ScriptRun struct {
	Coordinator bool
	Params      []byte
}

type ScriptReadyCall struct {
	Ready    []peer.ID
	Excluded []peer.ID
	Result   bool
}

type ScriptProcess struct {
	SID   string
	Inner ScriptInner
	// Behave is called for the n-th Run (0-based) after it was recorded; its result is returned.
	Behave func(n int, ctx context.Context) error

	mu      sync.Mutex
	runs    []ScriptRun
	calls   []ScriptReadyCall
	stops   int
	started chan struct{} // closed and replaced on every Run start
	active  int
}

func NewScriptProcess(sid string, inner ScriptInner) *ScriptProcess {
	return &ScriptProcess{SID: sid, Inner: inner, started: make(chan struct{})}
}

func (p *ScriptProcess) Run(ctx context.Context, coordinator bool, resultChn chan interface{}, params []byte) error {
	p.mu.Lock()
	n := len(p.runs)
	p.runs = append(p.runs, ScriptRun{Coordinator: coordinator, Params: append([]byte{}, params...)})
	p.active++
	close(p.started)
	p.started = make(chan struct{})
	f := p.Behave
	p.mu.Unlock()
	defer func() { p.mu.Lock(); p.active--; p.mu.Unlock() }()
	if f == nil {
		return nil
	}
	return f(n, ctx)
}

func (p *ScriptProcess) Stop() { p.mu.Lock(); p.stops++; p.mu.Unlock() }

func (p *ScriptProcess) Ready(readyPeers []peer.ID, excludedPeers []peer.ID) (bool, error) {
	ok, err := p.Inner.Ready(readyPeers, excludedPeers)
	p.mu.Lock()
	p.calls = append(p.calls, ScriptReadyCall{Ready: append([]peer.ID{}, readyPeers...), Excluded: append([]peer.ID{}, excludedPeers...), Result: ok})
	p.mu.Unlock()
	return ok, err
}

func (p *ScriptProcess) Retryable() bool { return p.Inner.Retryable() }
func (p *ScriptProcess) StartParams(readyPeers []peer.ID) []byte {
	return p.Inner.StartParams(readyPeers)
}
func (p *ScriptProcess) SessionID() string            { return p.SID }
func (p *ScriptProcess) ValidCoordinators() []peer.ID { return p.Inner.ValidCoordinators() }

func (p *ScriptProcess) Runs() []ScriptRun {
	p.mu.Lock()
	defer p.mu.Unlock()
	return append([]ScriptRun{}, p.runs...)
}

func (p *ScriptProcess) ReadyCalls() []ScriptReadyCall {
	p.mu.Lock()
	defer p.mu.Unlock()
	return append([]ScriptReadyCall{}, p.calls...)
}

// RunState returns the number of Run calls so far, whether one is in progress, and a channel that
// is closed when the next Run starts.
func (p *ScriptProcess) RunState() (count int, active bool, next <-chan struct{}) {
	p.mu.Lock()
	defer p.mu.Unlock()
	return len(p.runs), p.active > 0, p.started
}

// WaitRuns waits until at least n Run calls were made; false if stop fired or the deadline passed.
func (p *ScriptProcess) WaitRuns(n int, stop <-chan struct{}, deadline time.Duration) bool {
	t := time.NewTimer(deadline)
	defer t.Stop()
	for {
		count, _, next := p.RunState()
		if count >= n {
			return true
		}
		select {
		case <-next:
		case <-stop:
			count, _, _ = p.RunState()
			return count >= n
		case <-t.C:
			return false
		}
	}
}
