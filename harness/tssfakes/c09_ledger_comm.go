// Package tssfakes holds the fakes shared by the coordinator-family runners (C09, C10, ...):
// a fake libp2p host with a real in-memory peerstore, a recording comm.Communication, counting
// key-share storers and scripted TSS processes.  Nothing in here depends on a property's hook
// overlay, so every runner can import it.
//
// Files c09_*.go belong to C09/C10.
package tssfakes

import (
	"fmt"
	"sync"
	"time"

	"github.com/ChainSafe/sygma-relayer/comm"
	"github.com/libp2p/go-libp2p/core/peer"
)

// Event is one entry of a Ledger.  Kind is one of
//
//	"L" "U" "Get" "Store"            key-share storer: LockKeyshare / UnlockKeyshare / GetKeyshare / StoreKeyshare
//	"Sub" "Unsub" "Close" "Bcast"    Communication: Subscribe / UnSubscribe / CloseSession / Broadcast
type Event struct {
	Kind  string           `json:"k"`
	SID   string           `json:"sid,omitempty"`
	Msg   comm.MessageType `json:"msg,omitempty"`
	SubID string           `json:"sub,omitempty"`
}

// Ledger is a totally ordered, goroutine-safe record of events of several fakes.
type Ledger struct {
	mu sync.Mutex
	ev []Event
}

func NewLedger() *Ledger { return &Ledger{} }

func (l *Ledger) Add(e Event) {
	l.mu.Lock()
	l.ev = append(l.ev, e)
	l.mu.Unlock()
}

// Snapshot returns a copy of the events recorded so far.
func (l *Ledger) Snapshot() []Event {
	l.mu.Lock()
	defer l.mu.Unlock()
	out := make([]Event, len(l.ev))
	copy(out, l.ev)
	return out
}

func (l *Ledger) Len() int {
	l.mu.Lock()
	defer l.mu.Unlock()
	return len(l.ev)
}

// Count counts the events of the given kind (and session id, unless sid == "*").
func (l *Ledger) Count(kind, sid string) int {
	l.mu.Lock()
	defer l.mu.Unlock()
	n := 0
	for _, e := range l.ev {
		if e.Kind == kind && (sid == "*" || e.SID == sid) {
			n++
		}
	}
	return n
}

// ---------------------------------------------------------------------------------------------

type recSub struct {
	sid  string
	msg  comm.MessageType
	ch   chan *comm.WrappedMessage
	gone chan struct{}
}

// Hub connects several RecComm so that Broadcast reaches the subscribers of the addressed peers
// (in-process multi-party sessions).
type Hub struct {
	mu    sync.Mutex
	comms map[peer.ID]*RecComm
}

func NewHub() *Hub { return &Hub{comms: map[peer.ID]*RecComm{}} }

func (h *Hub) Join(c *RecComm) {
	h.mu.Lock()
	h.comms[c.Self] = c
	c.Hub = h
	h.mu.Unlock()
}

func (h *Hub) get(p peer.ID) *RecComm {
	h.mu.Lock()
	defer h.mu.Unlock()
	return h.comms[p]
}

// RecComm is a recording comm.Communication.  Subscriptions are real (Deliver reaches the
// subscribed channels), every call is written to the Ledger.
type RecComm struct {
	Self peer.ID
	Led  *Ledger
	Hub  *Hub
	// OnBroadcast, if set, is called (in the caller's goroutine, without locks held) for every
	// Broadcast, after it was recorded.
	OnBroadcast func(peers peer.IDSlice, msg []byte, msgType comm.MessageType, sessionID string)

	mu   sync.Mutex
	subs map[comm.SubscriptionID]*recSub
	next int
}

func NewRecComm(self peer.ID, led *Ledger) *RecComm {
	return &RecComm{Self: self, Led: led, subs: map[comm.SubscriptionID]*recSub{}}
}

var _ comm.Communication = (*RecComm)(nil)

func (c *RecComm) CloseSession(sessionID string) {
	c.Led.Add(Event{Kind: "Close", SID: sessionID})
}

func (c *RecComm) Broadcast(peers peer.IDSlice, msg []byte, msgType comm.MessageType, sessionID string) error {
	c.Led.Add(Event{Kind: "Bcast", SID: sessionID, Msg: msgType})
	if c.OnBroadcast != nil {
		c.OnBroadcast(peers, msg, msgType, sessionID)
	}
	if c.Hub != nil {
		for _, p := range peers {
			if p == c.Self {
				continue
			}
			if o := c.Hub.get(p); o != nil {
				o.Deliver(sessionID, msgType, c.Self, msg)
			}
		}
	}
	return nil
}

func (c *RecComm) Subscribe(sessionID string, msgType comm.MessageType, channel chan *comm.WrappedMessage) comm.SubscriptionID {
	c.mu.Lock()
	c.next++
	// same shape as comm.NewSubscriptionID (SessionID-MessageType-Identifier) with a counter
	id := comm.SubscriptionID(fmt.Sprintf("%s-%d-%d", sessionID, msgType, c.next))
	c.subs[id] = &recSub{sid: sessionID, msg: msgType, ch: channel, gone: make(chan struct{})}
	c.mu.Unlock()
	c.Led.Add(Event{Kind: "Sub", SID: sessionID, Msg: msgType, SubID: string(id)})
	return id
}

func (c *RecComm) UnSubscribe(subID comm.SubscriptionID) {
	c.mu.Lock()
	s, ok := c.subs[subID]
	if ok {
		delete(c.subs, subID)
		close(s.gone)
	}
	c.mu.Unlock()
	sid := ""
	var mt comm.MessageType
	if ok {
		sid, mt = s.sid, s.msg
	}
	c.Led.Add(Event{Kind: "Unsub", SID: sid, Msg: mt, SubID: string(subID)})
}

// Subscribers returns the number of live subscriptions for (sid, msgType).
func (c *RecComm) Subscribers(sid string, msgType comm.MessageType) int {
	c.mu.Lock()
	defer c.mu.Unlock()
	n := 0
	for _, s := range c.subs {
		if s.sid == sid && s.msg == msgType {
			n++
		}
	}
	return n
}

// LiveSubscriptions returns the number of live subscriptions of a session ("*" = all).
func (c *RecComm) LiveSubscriptions(sid string) int {
	c.mu.Lock()
	defer c.mu.Unlock()
	n := 0
	for _, s := range c.subs {
		if sid == "*" || s.sid == sid {
			n++
		}
	}
	return n
}

// WaitSubscribed waits until at least n subscriptions for (sid, msgType) exist.
func (c *RecComm) WaitSubscribed(sid string, msgType comm.MessageType, n int, timeout time.Duration) bool {
	return WaitFor(timeout, func() bool { return c.Subscribers(sid, msgType) >= n })
}

// Deliver hands a message to every current subscriber of (sid, msgType); like the real
// Libp2pCommunication each hand-over happens in its own goroutine, which ends when the message
// was taken or the subscription is removed.  Returns the number of subscribers addressed.
func (c *RecComm) Deliver(sid string, msgType comm.MessageType, from peer.ID, payload []byte) int {
	c.mu.Lock()
	var targets []*recSub
	for _, s := range c.subs {
		if s.sid == sid && s.msg == msgType {
			targets = append(targets, s)
		}
	}
	c.mu.Unlock()
	for _, s := range targets {
		m := &comm.WrappedMessage{MessageType: msgType, SessionID: sid, Payload: payload, From: from}
		go func(s *recSub) {
			select {
			case s.ch <- m:
			case <-s.gone:
			case <-time.After(60 * time.Second):
			}
		}(s)
	}
	return len(targets)
}

// WaitFor polls cond (every 200 microseconds) until it holds or the timeout expires.
func WaitFor(timeout time.Duration, cond func() bool) bool {
	deadline := time.Now().Add(timeout)
	for {
		if cond() {
			return true
		}
		if time.Now().After(deadline) {
			return cond()
		}
		time.Sleep(200 * time.Microsecond)
	}
}
