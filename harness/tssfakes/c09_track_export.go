package tssfakes

// Enter / Leave: a scripted process of a runner's own (not a RecProcess) reports that it is inside
// Run / has left it.
func (t *LiveTracker) Enter(sid string) { t.enter(sid) }
func (t *LiveTracker) Leave(sid string) { t.leave(sid) }
