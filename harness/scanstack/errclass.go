package scanstack

// Catalogue of the error classes a node / RPC client can answer a read with.  The scripted
// environment (Ev.EC) and the C05 "propagate" cases pick the error a failing read returns from this
// list, so that a handler that treats SOME particular error (by type, code, sentinel or text) as
// "nothing there" is driven with that very error.  Index 0 is the plain scripted failure.

import (
	"context"
	"errors"
	"fmt"
	"io"
	"net"
	"net/url"
	"os"
	"syscall"

	"github.com/btcsuite/btcd/btcjson"
	"github.com/ethereum/go-ethereum"
	ethrpc "github.com/ethereum/go-ethereum/rpc"
	"github.com/syndtr/goleveldb/leveldb"
)

// codeErr has the shape of a JSON-RPC error object as go-ethereum's rpc package reports it
// (rpc.Error: ErrorCode; rpc.DataError: ErrorData).
type codeErr struct {
	code int
	msg  string
}

func (e codeErr) Error() string          { return e.msg }
func (e codeErr) ErrorCode() int         { return e.code }
func (e codeErr) ErrorData() interface{} { return nil }

var _ ethrpc.Error = codeErr{}

// netTimeout is a net.Error that reports a timeout.
type netTimeout struct{}

func (netTimeout) Error() string   { return "read tcp 10.0.0.1:443: i/o timeout" }
func (netTimeout) Timeout() bool   { return true }
func (netTimeout) Temporary() bool { return true }

var _ net.Error = netTimeout{}

type errClass struct {
	Name string
	Make func() error
}

func btcErr(code btcjson.RPCErrorCode, msg string) func() error {
	return func() error { return btcjson.NewRPCError(code, msg) }
}

func jsonErr(code int, msg string) func() error {
	return func() error { return codeErr{code, msg} }
}

func plain(msg string) func() error { return func() error { return errors.New(msg) } }

var errClasses = []errClass{
	{"plain", func() error { return errScript }},
	{"wrapped-plain", func() error { return fmt.Errorf("reading the node: %w", errScript) }},
	// bitcoind / btcd JSON-RPC errors as rpcclient returns them (*btcjson.RPCError)
	{"btc-rpc-1", btcErr(btcjson.ErrRPCOutOfRange, "Block number out of range")},
	{"btc-rpc-1-misc", btcErr(btcjson.ErrRPCMisc, "Block height out of range")},
	{"btc-rpc-5", btcErr(btcjson.ErrRPCBlockNotFound, "Block not found")},
	{"btc-rpc-5-tx", btcErr(btcjson.ErrRPCNoTxInfo, "No such mempool or blockchain transaction")},
	{"btc-rpc-8", btcErr(btcjson.ErrRPCInvalidParameter, "Block height out of range")},
	{"btc-rpc-28", btcErr(btcjson.ErrRPCInWarmup, "Loading block index...")},
	{"btc-rpc-32", btcErr(-32, "Block not available (pruned data)")},
	{"btc-rpc-32600", btcErr(btcjson.ErrRPCInvalidRequest.Code, "Invalid request")},
	{"btc-rpc-32601", btcErr(btcjson.ErrRPCMethodNotFound.Code, "Method not found")},
	{"btc-rpc-32602", btcErr(btcjson.ErrRPCInvalidParams.Code, "Invalid parameters")},
	{"btc-rpc-32603", btcErr(btcjson.ErrRPCInternal.Code, "Internal error")},
	{"btc-rpc-32700", btcErr(btcjson.ErrRPCParse.Code, "Parse error")},
	{"btc-rpc-20", btcErr(btcjson.ErrRPCDatabase, "Database error")},
	{"btc-rpc-10", btcErr(btcjson.ErrRPCClientInInitialDownload, "Bitcoin is downloading blocks...")},
	{"btc-rpc-9", btcErr(btcjson.ErrRPCClientNotConnected, "Bitcoin is not connected!")},
	{"btc-rpc-3", btcErr(btcjson.ErrRPCType, "Expected type number")},
	{"btc-rpc-0", btcErr(0, "")},
	{"btc-rpc-value", func() error { return *btcjson.NewRPCError(btcjson.ErrRPCInvalidParameter, "Block height out of range") }},
	{"btc-rpc-8-wrapped", func() error {
		return fmt.Errorf("getblockhash: %w", btcjson.NewRPCError(btcjson.ErrRPCInvalidParameter, "Block height out of range"))
	}},
	{"btc-rpc-1-joined", func() error {
		return errors.Join(errScript, btcjson.NewRPCError(btcjson.ErrRPCOutOfRange, "Block number out of range"))
	}},
	// sentinels
	{"io-eof", func() error { return io.EOF }},
	{"io-unexpected-eof", func() error { return io.ErrUnexpectedEOF }},
	{"eof-wrapped", func() error { return fmt.Errorf("Post \"http://node\": %w", io.EOF) }},
	{"ctx-deadline", func() error { return context.DeadlineExceeded }},
	{"ctx-canceled", func() error { return context.Canceled }},
	{"ctx-deadline-wrapped", func() error { return fmt.Errorf("eth_getLogs: %w", context.DeadlineExceeded) }},
	{"os-deadline", func() error { return os.ErrDeadlineExceeded }},
	{"eth-notfound", func() error { return ethereum.NotFound }},
	{"eth-notfound-wrapped", func() error { return fmt.Errorf("block 17: %w", ethereum.NotFound) }},
	{"rpc-noresult", func() error { return ethrpc.ErrNoResult }},
	{"rpc-clientquit", func() error { return ethrpc.ErrClientQuit }},
	{"leveldb-notfound", func() error { return leveldb.ErrNotFound }},
	// JSON-RPC error objects of an Ethereum / Substrate node
	{"json-32000-header", jsonErr(-32000, "header not found")},
	{"json-32000-range", jsonErr(-32000, "block range is too large")},
	{"json-32000-unknown-block", jsonErr(-32000, "unknown block")},
	{"json-32001", jsonErr(-32001, "resource not found")},
	{"json-32005", jsonErr(-32005, "query returned more than 10000 results")},
	{"json-32602", jsonErr(-32602, "invalid argument 0: hex number > 64 bits")},
	{"json-32601", jsonErr(-32601, "the method eth_getLogs does not exist/is not available")},
	{"json-32603", jsonErr(-32603, "Internal error")},
	{"json-4003", jsonErr(4003, "Unknown block: State already discarded")},
	{"json-wrapped", func() error { return fmt.Errorf("chain_getBlockHash: %w", codeErr{-32000, "header not found"}) }},
	// transport
	{"http-429", func() error { return ethrpc.HTTPError{StatusCode: 429, Status: "429 Too Many Requests"} }},
	{"http-503", func() error { return ethrpc.HTTPError{StatusCode: 503, Status: "503 Service Unavailable"} }},
	{"http-404", func() error { return ethrpc.HTTPError{StatusCode: 404, Status: "404 Not Found"} }},
	{"net-timeout", func() error { return netTimeout{} }},
	{"net-refused", func() error {
		return &net.OpError{Op: "dial", Net: "tcp", Err: os.NewSyscallError("connect", syscall.ECONNREFUSED)}
	}},
	{"net-reset", func() error {
		return &net.OpError{Op: "read", Net: "tcp", Err: os.NewSyscallError("read", syscall.ECONNRESET)}
	}},
	{"url-eof", func() error { return &url.Error{Op: "Post", URL: "http://node:8332", Err: io.EOF} }},
	{"url-timeout", func() error { return &url.Error{Op: "Post", URL: "http://node:8545", Err: netTimeout{}} }},
	{"dns", func() error { return &net.DNSError{Err: "no such host", Name: "node", IsNotFound: true} }},
	// texts a handler might match on
	{"text-not-found", plain("not found")},
	{"text-block-not-found", plain("block not found")},
	{"text-out-of-range", plain("Block height out of range")},
	{"text-32-bytes", plain("required result to be 32 bytes, but got 0")},
	{"text-ws-closed", plain("websocket: close 1006 (abnormal closure): unexpected EOF")},
	{"text-pruned", plain("missing trie node 5d3f (path ) state is not available")},
	{"text-no-events", plain("no events in range")},
	{"text-empty", plain("")},
	{"text-nil", plain("<nil>")},
}

// NumErrClasses is the size of the catalogue.
func NumErrClasses() int { return len(errClasses) }

func normClass(i int) int {
	n := len(errClasses)
	return ((i % n) + n) % n
}

// ErrClass returns a fresh error of class i (taken modulo the catalogue size).
func ErrClass(i int) error { return errClasses[normClass(i)].Make() }

// ErrClassName names class i.
func ErrClassName(i int) string { return errClasses[normClass(i)].Name }
