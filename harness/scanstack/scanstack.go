// Package scanstack is the shared harness of C05 and C19: it runs the REAL scan loops
// (BtcListener, sygma-core EVMListener / SubstrateListener) behind the REAL chain objects
// (NewEVMChain / NewSubstrateChain / NewBtcChain -> PollEvents), the REAL sygma-core BlockStore
// (GetStartBlock / StoreBlock) over an in-memory KV that survives simulated process lifetimes and
// chains.CalculateStartingBlock, composed the way app.Run composes them according to the wiring
// record extracted by tools/wiring2coq, against a scripted environment.
//
// Handler 0 of every stack is the repository's own deposit event handler (EVM DepositEventHandler,
// Substrate / BTC FungibleTransferEventHandler) over a scripted fetch; further handlers are plain
// fakes.  The environment script is a list of events; every fake call consumes events until one
// applies to it (exactly what Model/C05.v `step` does); a Crash event ends the lifetime on the spot
// (runtime.Goexit in the listener goroutine: no further externally visible effect).
package scanstack

import (
	"context"
	"encoding/hex"
	"encoding/json"
	"errors"
	"fmt"
	"math/big"
	"os"
	"path/filepath"
	"reflect"
	"runtime"
	"strings"
	"sync"
	"time"

	"github.com/ChainSafe/sygma-relayer/chains"
	"github.com/ChainSafe/sygma-relayer/chains/btc"
	btcconfig "github.com/ChainSafe/sygma-relayer/chains/btc/config"
	btclistener "github.com/ChainSafe/sygma-relayer/chains/btc/listener"
	"github.com/ChainSafe/sygma-relayer/chains/evm/calls/consts"
	evmevents "github.com/ChainSafe/sygma-relayer/chains/evm/calls/events"
	"github.com/ChainSafe/sygma-relayer/chains/evm/listener/eventHandlers"
	sublistener "github.com/ChainSafe/sygma-relayer/chains/substrate/listener"
	"github.com/ChainSafe/sygma-relayer/config/chain"
	"github.com/ChainSafe/sygma-relayer/relayer/transfer"
	"github.com/btcsuite/btcd/btcjson"
	"github.com/btcsuite/btcd/btcutil"
	"github.com/btcsuite/btcd/chaincfg"
	"github.com/btcsuite/btcd/chaincfg/chainhash"
	"github.com/centrifuge/go-substrate-rpc-client/v4/registry"
	"github.com/centrifuge/go-substrate-rpc-client/v4/registry/parser"
	"github.com/centrifuge/go-substrate-rpc-client/v4/types"
	"github.com/ethereum/go-ethereum/accounts/abi"
	"github.com/ethereum/go-ethereum/common"
	ethTypes "github.com/ethereum/go-ethereum/core/types"
	"github.com/rs/zerolog"
	coreevm "github.com/sygmaprotocol/sygma-core/chains/evm"
	corelistener "github.com/sygmaprotocol/sygma-core/chains/evm/listener"
	coresub "github.com/sygmaprotocol/sygma-core/chains/substrate"
	coresublistener "github.com/sygmaprotocol/sygma-core/chains/substrate/listener"
	"github.com/sygmaprotocol/sygma-core/relayer/message"
	"github.com/sygmaprotocol/sygma-core/store"
	"github.com/syndtr/goleveldb/leveldb"
)

// ---- data ---------------------------------------------------------------------------------------

type Ev struct {
	T  string `json:"t"` // rpcfail | head | handler | store | crash
	H  int64  `json:"h,omitempty"`
	Ok bool   `json:"ok,omitempty"`
	// A failing handler event that reaches handler 0 (the repository's deposit event handler) fails
	// the P-th node read of that handler (modulo the number of reads it makes: Bitcoin GetBlockHash,
	// GetBlockVerboseTx; EVM FetchEventLogs; Substrate FetchEvents) with the error of class EC of
	// the catalogue in errclass.go; a failing handler event that reaches a plain fake handler, an
	// rpcfail event and a failing store event fail with the error of class EC.  The model does not
	// see P / EC: it is told "the handler / the node / the store fails".
	P  int `json:"p,omitempty"`
	EC int `json:"ec,omitempty"`
	// Panic (rpcfail / failing handler / failing store events): the call does not return an error, it
	// PANICS (a nil dereference or an index out of range inside the handler or the node client on an
	// unexpected answer).  For handler 0 the panic is raised inside the P-th node read of the
	// repository's real deposit event handler, i.e. inside its HandleEvents.  What happens next is
	// observed (Result.Died / Result.Survived): either the panic escapes ListenToEvents - the process
	// is dead, the next lifetime starts from the block store (the model's Crash) - or somebody
	// recovered and the listener goes on, and then the call counts as failed (the model's
	// Handler false / RpcFail / Store false).
	Panic bool `json:"panic,omitempty"`

	idx, out int // where the event sits in the script / which Out recorded its call (handler events)
}

type Cfg struct {
	Kind   string `json:"kind"` // evm | substrate | btc
	Ival   int64  `json:"ival"`
	Conf   int64  `json:"conf"`
	NH     int    `json:"nh"`
	CStart int64  `json:"cstart"`
	Latest bool   `json:"latest,omitempty"`
	Fresh  bool   `json:"fresh,omitempty"`
	Stored *int64 `json:"stored,omitempty"`
}

type Out struct {
	T   string `json:"t"` // start | handle | store
	Cur *int64 `json:"cur,omitempty"`
	K   int    `json:"k,omitempty"`
	S   int64  `json:"s,omitempty"`
	E   int64  `json:"e,omitempty"`
	Ok  bool   `json:"ok,omitempty"`
	V   int64  `json:"v,omitempty"`
}

// Wiring is the record tools/wiring2coq extracted from app/app.go for one chain kind: how app.Run
// derives the start block and what it hands to the listener and chain constructors.  lifetime()
// composes the real calls accordingly.
type Wiring struct {
	ReadsStore bool `json:"reads_store"`
	HeadIfNil  bool `json:"head_if_nil"`
	// second argument of chains.CalculateStartingBlock: interval | confirmations | none | other
	AlignArg string `json:"align_arg"`
	// which start values go through that call: one known beforehand (block store / configuration),
	// the head substituted for nil
	AlignsKnown bool `json:"aligns_known"`
	AlignsHead  bool `json:"aligns_head"`
	// start block given to NewXChain: start (the derived one) | configured | nil | other
	ChainArg string `json:"chain_arg"`
	// block interval / confirmation depth the EVM and Substrate listeners are constructed with:
	// interval | confirmations | none (not applicable) | other
	ListenerStep string `json:"listener_step"`
	ListenerConf string `json:"listener_conf"`
	// derived flags (the record's former shape)
	Aligns bool `json:"aligns_to_interval"`
	Passes bool `json:"passes_start_to_chain"`
	// what the translator could not recognise (the parts concerned say "other")
	Error string `json:"error,omitempty"`
}

// Composable: can lifetime() compose app.Run's wiring as this record describes it?
func (w Wiring) Composable() error {
	for _, s := range []string{w.AlignArg, w.ChainArg, w.ListenerStep, w.ListenerConf} {
		if s == "other" || s == "" {
			msg := w.Error
			if msg == "" {
				msg = "incomplete wiring record"
			}
			return errors.New(msg)
		}
	}
	return nil
}

// Dep is a deposit on the fake chain (C19).  For BTC, Pay lists the indices (into Resources) of the
// bridge addresses the transaction pays, in output order.
type Dep struct {
	Block int64  `json:"block"`
	Dest  uint8  `json:"dest"`
	Nonce uint64 `json:"nonce"`
	Pay   []int  `json:"pay,omitempty"`
}

// Msg is the canonical projection of an emitted message.
type Msg struct {
	ID       string `json:"id"`
	Dest     uint8  `json:"dest"`
	Nonce    uint64 `json:"nonce"`
	Resource string `json:"resource,omitempty"` // first byte of the resource id (hex)
	RID      string `json:"rid,omitempty"`      // the whole resource id (hex)
}

const DomainID = uint8(1)

// LoadWiringLenient reads the records the translator extracted from app/app.go; bad[kind] says why
// the wiring of that chain kind cannot be composed by this harness (the translator did not recognise
// it and has reported so).
func LoadWiringLenient() (w map[string]Wiring, bad map[string]error) {
	dir := os.Getenv("VERIF_DIR")
	if dir == "" {
		dir = "/verif"
	}
	b, err := os.ReadFile(filepath.Join(dir, "coq", "Gen", "C05_Wiring.json"))
	if err != nil {
		panic("scanstack: wiring record missing (tools/wiring2coq.py did not run): " + err.Error())
	}
	if err := json.Unmarshal(b, &w); err != nil {
		panic(err)
	}
	bad = map[string]error{}
	for _, k := range []string{"evm", "substrate", "btc"} {
		r, ok := w[k]
		if !ok {
			bad[k] = errors.New("no wiring record")
		} else if err := r.Composable(); err != nil {
			bad[k] = err
		}
	}
	return w, bad
}

// LoadWiring is LoadWiringLenient for runners that cannot do without any chain kind: the process ends
// here (before any case is run) if a record cannot be composed.
func LoadWiring() map[string]Wiring {
	w, bad := LoadWiringLenient()
	for k, err := range bad {
		fmt.Fprintf(os.Stderr, "scanstack: the start-block wiring of app.go (%s) is not one this harness can compose: %v\n", k, err)
	}
	if len(bad) > 0 {
		os.Exit(3)
	}
	return w
}

// ---- scripted environment -------------------------------------------------------------------------

type Env struct {
	mu       sync.Mutex
	evs      []Ev
	pos      int
	Outs     []Out
	done     chan string // receives "crash" | "exhausted" when the current lifetime ends
	ended    bool
	rpcCalls int
	rpcErr   error

	Deposits []Dep
	groups   int // message groups the real handlers must have sent

	// scripted panics: the one raised last and not yet known to have killed the listener or not
	direct   bool // see raise
	guarded  bool
	lastPop  int // index (into evs) of the event pop returned last
	pending  *pendingPanic
	Died     []int // indices of the panic events that killed the listener (or app.Run)
	Survived []int // indices of the panic events after which the same listener made another call
}

type pendingPanic struct {
	ev  int // index of the event
	out int // index of the Out recorded for the panicking call, -1 if none
}

// ScriptedPanic is the value the fakes panic with.
type ScriptedPanic struct{}

func (ScriptedPanic) Error() string { return "scripted panic" }

// raise records that event ev (whose call was recorded as Outs[out]) panics now, and panics.
//
// sygma-core's SubstrateListener runs its loop in a goroutine of its own, without recover(): a panic
// that reaches its frames ends the process and no recover() of the harness can sit above it.  There
// (direct) a panic travels for real only through the frames of the repository - the real deposit
// event handler, between the node read that panics and the guard the harness wraps that handler in -
// and a panic raised with no repository frame above it (a plain fake handler, the head read, the
// block-store write) ends the lifetime on the spot, as a crash does.
func (e *Env) raise(ev, out int) {
	e.mu.Lock()
	e.pending = &pendingPanic{ev: ev, out: out}
	die := e.direct && !e.guarded
	e.mu.Unlock()
	if die {
		e.listenerDied()
		runtime.Goexit()
	}
	panic(ScriptedPanic{})
}

// subGuard wraps the repository's handler under sygma-core's SubstrateListener: a panic that comes
// out of the handler would go through the listener's goroutine and end the process.
type subGuard struct {
	env   *Env
	inner interface {
		HandleEvents(s, e *big.Int) error
	}
}

func (g *subGuard) HandleEvents(s, e *big.Int) error {
	g.env.mu.Lock()
	g.env.guarded = true
	g.env.mu.Unlock()
	defer func() {
		g.env.mu.Lock()
		g.env.guarded = false
		g.env.mu.Unlock()
		if p := recover(); p != nil {
			if !g.env.listenerDied() {
				panic(p)
			}
			runtime.Goexit()
		}
	}()
	return g.inner.HandleEvents(s, e)
}

// listenerDied is called by the harness' own recover around ListenToEvents: a panic escaped the
// listener, this process is dead.  Returns false if no scripted panic is outstanding (the panic is
// the harness' or the code's own and is passed on).
func (e *Env) listenerDied() bool {
	e.mu.Lock()
	defer e.mu.Unlock()
	if e.pending == nil {
		return false
	}
	p := e.pending
	e.pending = nil
	e.Died = append(e.Died, p.ev)
	if p.out >= 0 && p.out < len(e.Outs) { // the call never returned: it is not part of the history
		e.Outs = append(e.Outs[:p.out], e.Outs[p.out+1:]...)
	}
	if !e.ended {
		e.ended = true
		e.done <- "crash"
	}
	return true
}

// listenerReturned: ListenToEvents returned although nobody cancelled it (somebody recovered a panic
// and gave up): nothing will be scanned any more.
func (e *Env) listenerReturned() {
	e.mu.Lock()
	defer e.mu.Unlock()
	if !e.ended {
		e.ended = true
		e.done <- "stopped"
	}
}

const (
	kRPC = iota
	kHandler
	kStore
)

func applies(kind int, e Ev) bool {
	switch kind {
	case kRPC:
		return e.T == "rpcfail" || e.T == "head"
	case kHandler:
		return e.T == "handler"
	default:
		return e.T == "store"
	}
}

// pop returns the next event that applies; status "" = ok, otherwise the lifetime is over.
func (e *Env) pop(kind int) (Ev, string) {
	if e.pending != nil { // the listener survived the scripted panic: it is calling again
		e.Survived = append(e.Survived, e.pending.ev)
		e.pending = nil
	}
	for {
		if e.pos >= len(e.evs) {
			return Ev{}, "exhausted"
		}
		ev := e.evs[e.pos]
		e.pos++
		if ev.T == "crash" {
			return Ev{}, "crash"
		}
		if applies(kind, ev) {
			e.lastPop = e.pos - 1
			return ev, ""
		}
	}
}

// popL is pop for fakes that run inside the listener goroutine: the end of the lifetime terminates
// that goroutine here and now.
func (e *Env) popL(kind int) Ev {
	ev, _ := e.popLI(kind)
	return ev
}

// popLI also returns the index of the event.
func (e *Env) popLI(kind int) (Ev, int) {
	e.mu.Lock()
	if e.ended {
		e.mu.Unlock()
		runtime.Goexit()
	}
	ev, status := e.pop(kind)
	if status != "" {
		e.ended = true
		e.mu.Unlock()
		e.done <- status
		runtime.Goexit()
	}
	idx := e.lastPop
	e.mu.Unlock()
	return ev, idx
}

func (e *Env) record(o Out) int {
	e.mu.Lock()
	e.Outs = append(e.Outs, o)
	n := len(e.Outs) - 1
	e.mu.Unlock()
	return n
}

// rpc: the node is asked for its head.
func (e *Env) rpc() (int64, bool) {
	ev, idx := e.popLI(kRPC)
	if ev.T != "head" && ev.Panic {
		e.raise(idx, -1)
	}
	if ev.T != "head" {
		e.mu.Lock()
		e.rpcErr = ErrClass(ev.EC)
		e.mu.Unlock()
	}
	return ev.H, ev.T == "head"
}

// lastRPCErr is the error the failed head read is answered with (class Ev.EC of the rpcfail event).
func (e *Env) lastRPCErr() error {
	e.mu.Lock()
	defer e.mu.Unlock()
	if e.rpcErr == nil {
		return errScript
	}
	return e.rpcErr
}

// handle: handler k is given [s, end]; returns whether it succeeds.
func (e *Env) handle(k int, s, end int64) bool {
	return e.handleEv(k, s, end).Ok
}

// handleEv is handle for handler 0: the caller also needs to know where and how to fail.
func (e *Env) handleEv(k int, s, end int64) Ev {
	ev, idx := e.popLI(kHandler)
	out := e.record(Out{T: "handle", K: k, S: s, E: end, Ok: ev.Ok})
	ev.idx, ev.out = idx, out
	return ev
}

// fail is how a failing handler event fails the call it was popped for: by returning the error of
// its class or - Panic - by panicking there and then.
func (e *Env) fail(ev Ev) error {
	if ev.Panic {
		e.raise(ev.idx, ev.out)
	}
	return ErrClass(ev.EC)
}

var errScript = errors.New("scripted failure")

// ---- KV store (survives lifetimes) ----------------------------------------------------------------

type kv struct {
	env  *Env
	data map[string][]byte
}

func (k *kv) GetByKey(key []byte) ([]byte, error) {
	v, ok := k.data[string(key)]
	if !ok {
		return nil, leveldb.ErrNotFound
	}
	return v, nil
}

func (k *kv) SetByKey(key []byte, value []byte) error {
	ev, idx := k.env.popLI(kStore)
	out := k.env.record(Out{T: "store", V: new(big.Int).SetBytes(value).Int64(), Ok: ev.Ok})
	if !ev.Ok {
		ev.idx, ev.out = idx, out
		return k.env.fail(ev)
	}
	k.data[string(key)] = append([]byte(nil), value...)
	return nil
}

// ---- plain fake handlers (k >= 1) ---------------------------------------------------------------------

type rangeHandler struct {
	env *Env
	k   int
}

func (h *rangeHandler) HandleEvents(s, e *big.Int) error {
	if ev := h.env.handleEv(h.k, s.Int64(), e.Int64()); !ev.Ok {
		return h.env.fail(ev)
	}
	return nil
}

type blockHandler struct {
	env *Env
	k   int
}

func (h *blockHandler) HandleEvents(b *big.Int) error {
	if ev := h.env.handleEv(h.k, b.Int64(), b.Int64()); !ev.Ok {
		return h.env.fail(ev)
	}
	return nil
}

// ---- EVM fakes ----------------------------------------------------------------------------------------

type evmClient struct{ env *Env }

func (c *evmClient) LatestBlock() (*big.Int, error) {
	h, ok := c.env.rpc()
	if !ok {
		return nil, c.env.lastRPCErr()
	}
	return big.NewInt(h), nil
}

type nopMetrics struct{}

func (nopMetrics) TrackBlockDelta(uint8, *big.Int, *big.Int) {}

// evmLogClient is the events.ChainClient under the repository's real events.Listener, which is the
// eventHandlers.EventListener of the real DepositEventHandler (handler 0): the scripted handler
// result decides whether eth_getLogs for the Deposit event succeeds.
type evmLogClient struct {
	env *Env
	abi abi.ABI
}

func newEvmLogClient(env *Env) *evmLogClient {
	a, err := abi.JSON(strings.NewReader(consts.BridgeABI))
	if err != nil {
		panic(err)
	}
	return &evmLogClient{env: env, abi: a}
}

// DepositLog is the log the bridge contract emits for a deposit.
func DepositLog(a abi.ABI, block int64, dest uint8, nonce uint64, resource [32]byte) ethTypes.Log {
	data, err := a.Events["Deposit"].Inputs.NonIndexed().Pack(dest, resource, nonce, []byte{}, []byte{})
	if err != nil {
		panic(err)
	}
	return ethTypes.Log{
		Topics:      []common.Hash{evmevents.DepositSig.GetTopic(), {}},
		Data:        data,
		BlockNumber: uint64(block),
	}
}

func (c *evmLogClient) FetchEventLogs(ctx context.Context, a common.Address, event string, s, e *big.Int) ([]ethTypes.Log, error) {
	if event != string(evmevents.DepositSig) {
		return nil, nil
	}
	ev := c.env.handleEv(0, s.Int64(), e.Int64())
	if !ev.Ok {
		return nil, c.env.fail(ev)
	}
	var out []ethTypes.Log
	dests := map[uint8]bool{}
	for _, d := range c.env.Deposits {
		if d.Block >= s.Int64() && d.Block <= e.Int64() {
			out = append(out, DepositLog(c.abi, d.Block, d.Dest, d.Nonce, [32]byte{1}))
			dests[d.Dest] = true
		}
	}
	c.env.mu.Lock()
	c.env.groups += len(dests)
	c.env.mu.Unlock()
	return out, nil
}
func (c *evmLogClient) WaitAndReturnTxReceipt(common.Hash) (*ethTypes.Receipt, error) {
	return nil, errors.New("unused")
}
func (c *evmLogClient) LatestBlock() (*big.Int, error) { return nil, errors.New("unused") }
func (c *evmLogClient) BlockByNumber(ctx context.Context, n *big.Int) (*ethTypes.Block, error) {
	return ethTypes.NewBlockWithHeader(&ethTypes.Header{Number: n, Time: 1700000000}), nil
}

type evmDepositHandler struct{}

func (evmDepositHandler) HandleDeposit(sourceID, destID uint8, nonce uint64, resourceID [32]byte, calldata, handlerResponse []byte, messageID string, timestamp time.Time) (*message.Message, error) {
	return message.NewMessage(sourceID, destID, transfer.TransferMessageData{DepositNonce: nonce, ResourceId: resourceID}, messageID, transfer.TransferMessageType, timestamp), nil
}

// ---- Substrate fakes ----------------------------------------------------------------------------------

type subConn struct {
	env  *Env
	head int64
}

func (c *subConn) GetFinalizedHead() (types.Hash, error) {
	c.env.mu.Lock()
	c.env.rpcCalls++
	n := c.env.rpcCalls
	c.env.mu.Unlock()
	h, ok := c.env.rpc()
	if !ok && n%2 == 0 {
		return types.Hash{}, c.env.lastRPCErr()
	}
	if !ok {
		c.head = -1 // GetBlock will fail instead
		return types.Hash{}, nil
	}
	c.head = h
	return types.Hash{}, nil
}
func (c *subConn) GetBlock(types.Hash) (*types.SignedBlock, error) {
	if c.head < 0 {
		return nil, c.env.lastRPCErr()
	}
	return &types.SignedBlock{Block: types.Block{Header: types.Header{Number: types.BlockNumber(uint32(c.head))}}}, nil
}
func (c *subConn) GetBlockHash(uint64) (types.Hash, error)            { return types.Hash{}, nil }
func (c *subConn) GetBlockEvents(types.Hash) ([]*parser.Event, error) { return nil, nil }
func (c *subConn) UpdateMetatdata() error                             { return nil }
func (c *subConn) FetchEvents(s, e *big.Int) ([]*parser.Event, error) {
	if ev := c.env.handleEv(0, s.Int64(), e.Int64()); !ev.Ok {
		return nil, c.env.fail(ev)
	}
	var out []*parser.Event
	dests := map[uint8]bool{}
	for _, d := range c.env.Deposits {
		if d.Block >= s.Int64() && d.Block <= e.Int64() {
			out = append(out, &parser.Event{Name: "SygmaBridge.Deposit", Fields: registry.DecodedFields{
				&registry.DecodedField{Name: "dest_domain_id", Value: types.NewU8(d.Dest)},
				&registry.DecodedField{Name: "resource_id", Value: types.Bytes32{1}},
				&registry.DecodedField{Name: "deposit_nonce", Value: types.NewU64(d.Nonce)},
				&registry.DecodedField{Name: "sygma_traits_TransferType", Value: types.NewU8(0)},
				&registry.DecodedField{Name: "deposit_data", Value: []byte{}},
				&registry.DecodedField{Name: "handler_response", Value: [1]byte{0}},
			}})
			dests[d.Dest] = true
		}
	}
	c.env.mu.Lock()
	c.env.groups += len(dests)
	c.env.mu.Unlock()
	return out, nil
}

type subDepositHandler struct{}

func (subDepositHandler) HandleDeposit(sourceID uint8, destID types.U8, nonce types.U64, resourceID types.Bytes32, calldata []byte, transferType types.U8, messageID string, timestamp time.Time) (*message.Message, error) {
	return message.NewMessage(sourceID, uint8(destID), transfer.TransferMessageData{DepositNonce: uint64(nonce), ResourceId: resourceID}, messageID, transfer.TransferMessageType, timestamp), nil
}

// ---- BTC fakes ----------------------------------------------------------------------------------------

// BtcResources builds n bridge resources with distinct taproot addresses and resource ids
// (resource i has id byte 0 = ids[i]) and a fee address.
func BtcResources(ids []byte) ([]btcconfig.Resource, btcutil.Address) {
	full := make([][32]byte, len(ids))
	for i, id := range ids {
		full[i] = [32]byte{id}
	}
	return BtcResourcesFull(full)
}

// BtcResourcesFull is BtcResources for arbitrary 32-byte resource ids (resource i has its own
// taproot address, whatever its id).
func BtcResourcesFull(ids [][32]byte) ([]btcconfig.Resource, btcutil.Address) {
	params := &chaincfg.TestNet3Params
	res := make([]btcconfig.Resource, len(ids))
	for i, id := range ids {
		key := make([]byte, 32)
		key[0], key[31] = 0x40+byte(i), byte(i)+1
		addr, err := btcutil.NewAddressTaproot(key, params)
		if err != nil {
			panic(err)
		}
		res[i] = btcconfig.Resource{Address: addr, ResourceID: id, FeeAmount: big.NewInt(1000)}
	}
	fee, err := btcutil.NewAddressWitnessPubKeyHash(make([]byte, 20), params)
	if err != nil {
		panic(err)
	}
	return res, fee
}

// BtcTx builds a transaction that pays 0.0001 * (j+1) BTC to every resource listed in pay (in that
// output order), the fee to the fee address, and carries the OP_RETURN data "<evm address>_<dest>".
func BtcTx(hash string, dest uint8, pay []int, res []btcconfig.Resource, fee btcutil.Address) btcjson.TxRawResult {
	data := fmt.Sprintf("0xe9f23A8289764280697a03aC06795eA92a170e42_%d", dest)
	script := append([]byte{0x6a, byte(len(data))}, []byte(data)...)
	vout := []btcjson.Vout{{ScriptPubKey: btcjson.ScriptPubKeyResult{Type: "nulldata", Hex: hex.EncodeToString(script)}}}
	for j, r := range pay {
		vout = append(vout, btcjson.Vout{Value: float64(j+1) * 0.0001, ScriptPubKey: btcjson.ScriptPubKeyResult{
			Type: "witness_v1_taproot", Address: res[r].Address.String()}})
	}
	vout = append(vout, btcjson.Vout{Value: 0.0002, ScriptPubKey: btcjson.ScriptPubKeyResult{
		Type: "witness_v0_keyhash", Address: fee.String()}})
	return btcjson.TxRawResult{Hash: hash, Txid: hash, Vout: vout, Blocktime: 1700000000}
}

func TxHash(nonce uint64) string { return fmt.Sprintf("%064x", nonce) }

type btcConn struct {
	env       *Env
	head      int64
	Resources []btcconfig.Resource
	Fee       btcutil.Address
	blockFail *Ev // scripted failure of the handler's second read (GetBlockVerboseTx)
}

var headMarker = chainhash.Hash{0xff, 0xfe}

func (c *btcConn) GetRawTransactionVerbose(*chainhash.Hash) (*btcjson.TxRawResult, error) {
	return nil, errors.New("unused")
}
func (c *btcConn) GetBestBlockHash() (*chainhash.Hash, error) {
	c.env.mu.Lock()
	c.env.rpcCalls++
	n := c.env.rpcCalls
	c.env.mu.Unlock()
	h, ok := c.env.rpc()
	if !ok && n%2 == 0 {
		return nil, c.env.lastRPCErr()
	}
	if !ok {
		c.head = -1
	} else {
		c.head = h
	}
	hm := headMarker
	return &hm, nil
}

// GetBlockHash is the first call of the real handler's FetchEvents: the scripted handler result.
func (c *btcConn) GetBlockHash(height int64) (*chainhash.Hash, error) {
	c.blockFail = nil
	if ev := c.env.handleEv(0, height, height); !ev.Ok {
		if ev.P%2 == 0 {
			return nil, c.env.fail(ev)
		}
		c.blockFail = &ev // the hash is served, the block is not
	}
	var h chainhash.Hash
	big.NewInt(height).FillBytes(h[8:16])
	return &h, nil
}
func (c *btcConn) GetBlockVerboseTx(h *chainhash.Hash) (*btcjson.GetBlockVerboseTxResult, error) {
	if *h == headMarker {
		if c.head < 0 {
			return nil, c.env.lastRPCErr()
		}
		return &btcjson.GetBlockVerboseTxResult{Height: c.head}, nil
	}
	if ev := c.blockFail; ev != nil {
		c.blockFail = nil
		return nil, c.env.fail(*ev)
	}
	height := new(big.Int).SetBytes(h[8:16]).Int64()
	blk := &btcjson.GetBlockVerboseTxResult{Height: height}
	dests := map[uint8]bool{}
	for _, d := range c.env.Deposits {
		if d.Block == height {
			blk.Tx = append(blk.Tx, BtcTx(TxHash(d.Nonce), d.Dest, d.Pay, c.Resources, c.Fee))
			if len(d.Pay) > 0 {
				dests[d.Dest] = true
			}
		}
	}
	c.env.mu.Lock()
	c.env.groups += len(dests)
	c.env.mu.Unlock()
	return blk, nil
}

// ---- listener wrapper: records the start block a lifetime begins with ---------------------------------

type listenerIface interface {
	ListenToEvents(ctx context.Context, startBlock *big.Int)
}

type startRecorder struct {
	env   *Env
	inner listenerIface
}

func (r *startRecorder) ListenToEvents(ctx context.Context, startBlock *big.Int) {
	o := Out{T: "start"}
	if startBlock != nil {
		v := startBlock.Int64()
		o.Cur = &v
	}
	r.env.record(o)
	// the harness' own recover: a panic that escapes ListenToEvents kills the process
	defer func() {
		if p := recover(); p != nil {
			if !r.env.listenerDied() {
				panic(p)
			}
		}
	}()
	r.inner.ListenToEvents(ctx, startBlock)
	if !r.env.direct { // (the Substrate listener returns at once: its loop has its own goroutine)
		r.env.listenerReturned()
	}
}

type poller interface{ PollEvents(ctx context.Context) }

// newBtcChain calls btc.NewBtcChain through reflection: its signature is what the defect / repair
// of the start-block wiring changes (4 parameters: no start block; 5: start block last).
func newBtcChain(l listenerIface, start *big.Int, passes bool) poller {
	fn := reflect.ValueOf(btc.NewBtcChain)
	t := fn.Type()
	args := make([]reflect.Value, t.NumIn())
	args[0] = reflect.ValueOf(l)
	for i := 1; i < t.NumIn(); i++ {
		args[i] = reflect.Zero(t.In(i))
	}
	args[3] = reflect.ValueOf(DomainID)
	switch t.NumIn() {
	case 4:
		if passes {
			panic("scanstack: wiring record says the start block is passed to NewBtcChain, but it has no such parameter")
		}
	case 5:
		if passes {
			args[4] = reflect.ValueOf(start)
		}
	default:
		panic("scanstack: unexpected NewBtcChain signature " + t.String())
	}
	return fn.Call(args)[0].Interface().(poller)
}

// ---- the stack -----------------------------------------------------------------------------------------

type Result struct {
	Outs   []Out
	Groups [][]Msg // every slice the real handlers sent to the message channel (arrival order)
	// indices (into the script) of the Panic events that killed the process / that the listener
	// survived; a Panic event in neither list was never reached or did not apply where it arrived
	Died     []int
	Survived []int
}

type Options struct {
	Deposits     []Dep
	BtcResources []byte // resource id bytes (BTC stacks with deposits)
}

// Run drives one relayer (all its lifetimes) through the script.
func Run(cfg Cfg, w Wiring, evs []Ev, opt Options) Result {
	zerolog.SetGlobalLevel(zerolog.Disabled)
	env := &Env{evs: evs, Deposits: opt.Deposits}
	db := &kv{env: env, data: map[string][]byte{}}
	key := fmt.Sprintf("chain:%d:block", DomainID)
	if cfg.Stored != nil {
		db.data[key] = big.NewInt(*cfg.Stored).Bytes()
	}
	msgChan := make(chan []*message.Message, 4096)
	var res Result
	for {
		status := lifetime(env, db, cfg, w, msgChan, opt)
		if status != "crash" {
			break
		}
	}
	// collect the groups the real handlers sent (each from its own goroutine)
	deadline := time.After(20 * time.Second)
	env.mu.Lock()
	want := env.groups
	env.mu.Unlock()
	for got := 0; got < want; got++ {
		select {
		case g := <-msgChan:
			grp := make([]Msg, len(g))
			for i, m := range g {
				grp[i] = Project(m)
			}
			res.Groups = append(res.Groups, grp)
		case <-deadline:
			panic(fmt.Sprintf("scanstack: %d of %d message groups arrived", got, want))
		}
	}
	res.Outs = env.Outs
	res.Died, res.Survived = env.Died, env.Survived
	if env.pending != nil { // the listener neither died nor called again (it returned)
		res.Survived = append(res.Survived, env.pending.ev)
	}
	return res
}

// Project is the canonical projection of a message.
func Project(m *message.Message) Msg {
	out := Msg{ID: m.ID, Dest: m.Destination}
	if d, ok := m.Data.(transfer.TransferMessageData); ok {
		out.Nonce = d.DepositNonce
		out.Resource = hex.EncodeToString(d.ResourceId[:1])
		out.RID = hex.EncodeToString(d.ResourceId[:])
	}
	return out
}

// calculateStartingBlock is the real chains.CalculateStartingBlock; a panic inside it (big.Int.Mod by
// zero) is app.Run's panic: the process never gets as far as the listener.
func calculateStartingBlock(start, by *big.Int) (res *big.Int, err error) {
	defer func() {
		if p := recover(); p != nil {
			res, err = nil, fmt.Errorf("CalculateStartingBlock panicked: %v", p)
		}
	}()
	return chains.CalculateStartingBlock(start, by)
}

// lifetime = one process: the wiring of app.Run for this chain kind, then PollEvents.
// Returns "crash" (start another one), "exhausted" or "dead".
func lifetime(env *Env, db *kv, cfg Cfg, w Wiring, msgChan chan []*message.Message, opt Options) string {
	env.mu.Lock()
	env.ended = false
	env.done = make(chan string, 1)
	env.mu.Unlock()
	bs := store.NewBlockStore(db)
	interval := big.NewInt(cfg.Ival)
	confirmations := big.NewInt(cfg.Conf)
	logC := zerolog.Nop().With()
	if err := w.Composable(); err != nil {
		panic("scanstack: wiring record cannot be composed: " + err.Error())
	}
	// the quantity app.Run passes where a block count is expected (a fresh big.Int per use: the
	// callee may keep or modify it)
	quantity := func(src string, dflt *big.Int) *big.Int {
		switch src {
		case "interval":
			return big.NewInt(cfg.Ival)
		case "confirmations":
			return big.NewInt(cfg.Conf)
		case "none":
			return dflt
		}
		panic("scanstack: wiring source " + src)
	}

	// the listener and the client app.Run would ask for the head
	var l listenerIface
	var latestBlock func() (int64, bool, string) // head, ok, lifetime status
	mainRPC := func() (int64, bool, string) {
		env.mu.Lock()
		defer env.mu.Unlock()
		ev, status := env.pop(kRPC)
		if status == "" && ev.T != "head" && ev.Panic { // app.Run itself dies: the process starts again
			env.Died = append(env.Died, env.lastPop)
		}
		return ev.H, ev.T == "head", status
	}
	var btcC *btcConn
	switch cfg.Kind {
	case "evm":
		client := &evmClient{env: env}
		hs := []corelistener.EventHandler{
			eventHandlers.NewDepositEventHandler(evmevents.NewListener(newEvmLogClient(env)), evmDepositHandler{}, common.Address{}, DomainID, msgChan)}
		for k := 1; k < cfg.NH; k++ {
			hs = append(hs, &rangeHandler{env: env, k: k})
		}
		if cfg.NH == 0 {
			hs = nil
		}
		l = corelistener.NewEVMListener(client, hs, bs, nopMetrics{}, DomainID, 0,
			quantity(w.ListenerConf, confirmations), quantity(w.ListenerStep, interval))
		latestBlock = mainRPC
	case "substrate":
		conn := &subConn{env: env}
		env.direct = true
		hs := []coresublistener.EventHandler{
			&subGuard{env: env, inner: sublistener.NewFungibleTransferEventHandler(logC, DomainID, subDepositHandler{}, msgChan, conn)}}
		for k := 1; k < cfg.NH; k++ {
			hs = append(hs, &rangeHandler{env: env, k: k})
		}
		if cfg.NH == 0 {
			hs = nil
		}
		l = coresublistener.NewSubstrateListener(conn, hs, bs, nopMetrics{}, DomainID, 0, quantity(w.ListenerStep, interval))
		latestBlock = mainRPC
	case "btc":
		res, fee := BtcResources(opt.BtcResources)
		btcC = &btcConn{env: env, Resources: res, Fee: fee}
		resources := map[[32]byte]btcconfig.Resource{}
		for _, r := range res {
			resources[r.ResourceID] = r
		}
		hs := []btclistener.EventHandler{
			btclistener.NewFungibleTransferEventHandler(logC, DomainID, &btclistener.BtcDepositHandler{}, msgChan, btcC, resources, fee)}
		for k := 1; k < cfg.NH; k++ {
			hs = append(hs, &blockHandler{env: env, k: k})
		}
		if cfg.NH == 0 {
			hs = nil
		}
		id := DomainID
		bcfg := &btcconfig.BtcConfig{GeneralChainConfig: chain.GeneralChainConfig{Id: &id},
			BlockRetryInterval: 0, BlockConfirmations: confirmations, BlockInterval: interval}
		l = btclistener.NewBtcListener(btcC, hs, bcfg, bs)
		latestBlock = mainRPC
	default:
		panic("kind " + cfg.Kind)
	}

	// --- app.Run's start-block wiring, shape per the extracted record --------------------------------
	// config.StartBlock: ONE *big.Int per process, as in app.Run - GetStartBlock may return this very
	// pointer and CalculateStartingBlock works in place
	configured := big.NewInt(cfg.CStart)
	var start *big.Int
	if w.ReadsStore {
		var err error
		start, err = bs.GetStartBlock(DomainID, configured, cfg.Latest, cfg.Fresh)
		if err != nil {
			panic(err)
		}
	}
	fromHead := false
	if start == nil && w.HeadIfNil {
		for start == nil {
			h, ok, status := latestBlock()
			if status == "exhausted" {
				return status
			}
			// an RPC failure panics app.Run and a crash kills it: either way the process starts
			// again and arrives here again with the same store contents
			if status == "" && ok {
				start = big.NewInt(h)
			}
		}
		fromHead = true
	}
	if w.AlignArg != "none" && ((fromHead && w.AlignsHead) || (!fromHead && w.AlignsKnown)) {
		var err error
		start, err = calculateStartingBlock(start, quantity(w.AlignArg, nil))
		if err != nil {
			return "dead" // app.Run panics on every start
		}
	}
	var toChain *big.Int
	switch w.ChainArg {
	case "start":
		toChain = start
	case "configured":
		toChain = configured
	case "nil":
	default:
		panic("scanstack: wiring chain_arg " + w.ChainArg)
	}
	rec := &startRecorder{env: env, inner: l}
	var c poller
	switch cfg.Kind {
	case "evm":
		c = coreevm.NewEVMChain(rec, nil, nil, DomainID, toChain)
	case "substrate":
		c = coresub.NewSubstrateChain(rec, nil, nil, DomainID, toChain)
	case "btc":
		c = newBtcChain(rec, toChain, w.ChainArg != "nil")
	}
	ctx, cancel := context.WithCancel(context.Background())
	defer cancel()
	c.PollEvents(ctx)
	select {
	case status := <-env.done:
		return status
	case <-time.After(60 * time.Second):
		panic("scanstack: lifetime did not end")
	}
}
