//go:build verif

// Add-only verification hook for C09 (injected by the build overlay, never part of /repo).
// It lets the harness (a) play the role of "another Execute call that is inside its critical
// section" by holding the coordinator's process lock for a while - a legal schedule - and (b) read
// the pending flag of a session under that lock.
package tss

// VerifLockProcesses takes the lock that guards pendingProcesses.
func (c *Coordinator) VerifLockProcesses() { c.processLock.Lock() }

// VerifUnlockProcesses releases it.
func (c *Coordinator) VerifUnlockProcesses() { c.processLock.Unlock() }

// VerifPending reads pendingProcesses[sessionID] under the lock.
func (c *Coordinator) VerifPending(sessionID string) bool {
	c.processLock.Lock()
	defer c.processLock.Unlock()
	return c.pendingProcesses[sessionID]
}
