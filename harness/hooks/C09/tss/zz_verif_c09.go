//go:build verif

// Add-only verification hook for C09 (injected by the build overlay, never part of /repo).
// It lets the harness (a) play the role of "another Execute call that is inside its critical
// section" by holding the coordinator's process lock for a while - a legal schedule - and (b) read
// the pending flag of a session under that lock.
//
// The fields are reached by name through reflection, so the hook keeps compiling when the
// synchronisation around pendingProcesses is changed (sync.Mutex -> sync.RWMutex, a pointer to a
// lock, a sync.Map instead of the map, no lock at all ...): whatever the hook cannot find it
// reports as "not available" and the harness falls back to what it can observe from outside.
package tss

import (
	"reflect"
	"sync"
	"unsafe"
)

// verifField returns an addressable, readable view of the named field (invalid Value if absent).
func (c *Coordinator) verifField(name string) reflect.Value {
	f := reflect.ValueOf(c).Elem().FieldByName(name)
	if !f.IsValid() {
		return f
	}
	return reflect.NewAt(f.Type(), unsafe.Pointer(f.UnsafeAddr())).Elem()
}

// verifLocker returns the lock that guards pendingProcesses (exclusive side), nil if there is none.
func (c *Coordinator) verifLocker() sync.Locker {
	f := c.verifField("processLock")
	if !f.IsValid() {
		return nil
	}
	if l, ok := f.Addr().Interface().(sync.Locker); ok {
		return l
	}
	if f.Kind() == reflect.Ptr && !f.IsNil() {
		if l, ok := f.Interface().(sync.Locker); ok {
			return l
		}
	}
	return nil
}

// VerifLockProcesses takes the lock that guards pendingProcesses; false = there is no such lock.
func (c *Coordinator) VerifLockProcesses() bool {
	l := c.verifLocker()
	if l == nil {
		return false
	}
	l.Lock()
	return true
}

// VerifUnlockProcesses releases it.
func (c *Coordinator) VerifUnlockProcesses() {
	if l := c.verifLocker(); l != nil {
		l.Unlock()
	}
}

// VerifPending reads pendingProcesses[sessionID] under the lock; known = false if the hook does
// not understand how the pending sessions are kept.
func (c *Coordinator) VerifPending(sessionID string) (pending bool, known bool) {
	if l := c.verifLocker(); l != nil {
		l.Lock()
		defer l.Unlock()
	}
	f := c.verifField("pendingProcesses")
	if !f.IsValid() {
		return false, false
	}
	switch m := f.Addr().Interface().(type) {
	case *map[string]bool:
		return (*m)[sessionID], true
	case *map[string]struct{}:
		_, ok := (*m)[sessionID]
		return ok, true
	case *sync.Map:
		v, ok := m.Load(sessionID)
		if !ok {
			return false, true
		}
		if b, isBool := v.(bool); isBool {
			return b, true
		}
		return true, true
	case **sync.Map:
		if *m == nil {
			return false, false
		}
		v, ok := (*m).Load(sessionID)
		if !ok {
			return false, true
		}
		if b, isBool := v.(bool); isBool {
			return b, true
		}
		return true, true
	}
	// any other map keyed by the session id: no entry = not pending, an entry whose value is a bool
	// says what the bool says; what any other entry (a start time, a struct, a counter ...) means the
	// hook cannot know - the harness then goes by whether the id is admitted again
	if f.Kind() == reflect.Map && f.Type().Key().Kind() == reflect.String {
		v := f.MapIndex(reflect.ValueOf(sessionID).Convert(f.Type().Key()))
		if !v.IsValid() {
			return false, true
		}
		if v.Kind() == reflect.Bool {
			return v.Bool(), true
		}
		return false, false
	}
	return false, false
}
