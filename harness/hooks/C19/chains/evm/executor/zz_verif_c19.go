//go:build verif

// Add-only verification hook for C19 (injected by the build overlay, never part of /repo): thin
// exported wrappers around the unexported batching step of the EVM executor, so that the runner can
// read the position of every batch.
package executor

import (
	"github.com/sygmaprotocol/sygma-core/relayer/proposal"

	"github.com/ChainSafe/sygma-relayer/relayer/transfer"
)

func (e *Executor) VerifProposalBatches(proposals []*proposal.Proposal) ([]*Batch, error) {
	return e.proposalBatches(proposals)
}

func VerifBatchView(b *Batch) ([]*transfer.TransferProposal, uint64) {
	return b.proposals, b.gasLimit
}
