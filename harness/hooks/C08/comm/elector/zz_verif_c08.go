//go:build verif

// Add-only verification hook for C08 (injected by the build overlay, never part of /repo).
// The stock factory hard-wires a libp2p stream transport for the bully election; this constructor
// builds the same factory over an arbitrary comm.Communication, so that the relayers of a session that
// is driven through the real tss.Coordinator (harness/cmd/c08/coord.go) hold their re-election after a
// failed attempt over the runner's in-process network.
package elector

import (
	"github.com/ChainSafe/sygma-relayer/comm"
	"github.com/ChainSafe/sygma-relayer/config/relayer"
	"github.com/libp2p/go-libp2p/core/host"
)

func NewCoordinatorElectorFactoryWithComm(h host.Host, c comm.Communication, config relayer.BullyConfig) *CoordinatorElectorFactory {
	return &CoordinatorElectorFactory{h: h, comm: c, config: config}
}
