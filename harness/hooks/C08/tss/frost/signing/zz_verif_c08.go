//go:build verif

// Add-only verification hook (never part of a normal build): lets the C08 runner ask a FROST signing
// process in a given state whom it accepts as coordinator.
package signing

import (
	"github.com/libp2p/go-libp2p/core/host"
	"github.com/libp2p/go-libp2p/core/peer"

	"github.com/ChainSafe/sygma-relayer/keyshare"
	"github.com/ChainSafe/sygma-relayer/tss/frost/common"
)

// VerifValidCoordinators = the real ValidCoordinators of a signing process whose host is h and whose
// stored key share lists keyPeers as its committee.
func VerifValidCoordinators(h host.Host, keyPeers []peer.ID) []peer.ID {
	s := &Signing{
		BaseFrostTss: common.BaseFrostTss{Host: h},
		key:          keyshare.FrostKeyshare{Peers: append([]peer.ID(nil), keyPeers...)},
	}
	return s.ValidCoordinators()
}
