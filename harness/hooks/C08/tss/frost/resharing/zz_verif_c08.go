//go:build verif

// Add-only verification hook (never part of a normal build): lets the C08 runner ask a FROST
// resharing process in a given state whom it accepts as coordinator.
package resharing

import (
	"github.com/libp2p/go-libp2p/core/host"
	"github.com/libp2p/go-libp2p/core/peer"

	"github.com/ChainSafe/sygma-relayer/keyshare"
	"github.com/ChainSafe/sygma-relayer/tss/frost/common"
)

// VerifValidCoordinators = the real ValidCoordinators of a resharing process whose host is h and whose
// stored key share lists keyPeers as its committee (empty: a relayer that is only joining).
func VerifValidCoordinators(h host.Host, keyPeers []peer.ID) []peer.ID {
	r := &Resharing{
		BaseFrostTss: common.BaseFrostTss{Host: h},
		key:          keyshare.FrostKeyshare{Peers: append([]peer.ID(nil), keyPeers...)},
	}
	return r.ValidCoordinators()
}
