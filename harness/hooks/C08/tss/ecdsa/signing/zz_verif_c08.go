//go:build verif

// Add-only verification hook (never part of a normal build): lets the C08 runner drive the
// unexported processEndMessage of the ECDSA signing process.
package signing

import (
	"context"
	"time"

	tssCommon "github.com/binance-chain/tss-lib/common"
	"github.com/libp2p/go-libp2p/core/host"
	"github.com/libp2p/go-libp2p/core/peer"
	"github.com/rs/zerolog"

	"github.com/ChainSafe/sygma-relayer/keyshare"
	"github.com/ChainSafe/sygma-relayer/tss/ecdsa/common"
)

// VerifProcessEnd runs the real processEndMessage of a Signing whose coordinator flag is
// `coordinator`, hands it `sig` on the end channel and returns what it put on the result channel
// (any = something arrived, possibly a nil).
func VerifProcessEnd(coordinator bool, sig tssCommon.SignatureData) (got interface{}, any bool) {
	res := make(chan interface{}, 4)
	s := &Signing{
		BaseTss:     common.BaseTss{Log: zerolog.Nop(), Cancel: func() {}},
		coordinator: coordinator,
		resultChn:   res,
	}
	end := make(chan tssCommon.SignatureData)
	ctx, cancel := context.WithCancel(context.Background())
	defer cancel()
	done := make(chan error, 1)
	go func() { done <- s.processEndMessage(ctx, end) }()
	select {
	case end <- sig:
	case <-time.After(20 * time.Second):
		return nil, false
	}
	select {
	case <-done:
	case <-time.After(20 * time.Second):
		return nil, false
	}
	select {
	case v := <-res:
		return v, true
	default:
		return nil, false
	}
}

// VerifProcessEndChan runs the real processEndMessage against a result channel of capacity `cap`
// whose reader is either parked on the channel from the start (late = false) or starts reading only
// after processEndMessage has returned / has stayed blocked for `grace` (late = true: a consumer
// that is busy at the moment the session ends, e.g. the EVM executor inside its periodic check).
// It returns every value the reader received and whether processEndMessage returned.
func VerifProcessEndChan(coordinator bool, sig tssCommon.SignatureData, cap int, late bool, grace time.Duration) (got []interface{}, returned bool) {
	res := make(chan interface{}, cap)
	s := &Signing{
		BaseTss:     common.BaseTss{Log: zerolog.Nop(), Cancel: func() {}},
		coordinator: coordinator,
		resultChn:   res,
	}
	end := make(chan tssCommon.SignatureData)
	ctx, cancel := context.WithCancel(context.Background())
	defer cancel()
	done := make(chan error, 1)
	stop := make(chan struct{})
	readerDone := make(chan struct{})
	reader := func() {
		defer close(readerDone)
		for {
			select {
			case v := <-res:
				got = append(got, v)
			case <-stop:
				for {
					select {
					case v := <-res:
						got = append(got, v)
					case <-time.After(100 * time.Millisecond):
						return
					}
				}
			}
		}
	}
	if !late {
		go reader()
	}
	go func() { done <- s.processEndMessage(ctx, end) }()
	select {
	case end <- sig:
	case <-time.After(20 * time.Second):
		close(stop)
		if late {
			go reader()
		}
		<-readerDone
		return got, false
	}
	if late {
		select {
		case <-done:
			returned = true
		case <-time.After(grace):
		}
		go reader()
	}
	if !returned {
		select {
		case <-done:
			returned = true
		case <-time.After(20 * time.Second):
		}
	}
	close(stop)
	<-readerDone
	return got, returned
}

// VerifValidCoordinators = the real ValidCoordinators of a signing process whose host is h and whose
// stored key share lists keyPeers as its committee.
func VerifValidCoordinators(h host.Host, keyPeers []peer.ID) []peer.ID {
	s := &Signing{
		BaseTss: common.BaseTss{Host: h, Log: zerolog.Nop(), Cancel: func() {}},
		key:     keyshare.ECDSAKeyshare{Peers: append([]peer.ID(nil), keyPeers...)},
	}
	return s.ValidCoordinators()
}
