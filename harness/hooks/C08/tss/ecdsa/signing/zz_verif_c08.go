//go:build verif

// Add-only verification hook (never part of a normal build): lets the C08 runner drive the
// unexported processEndMessage of the ECDSA signing process.
package signing

import (
	"context"
	"time"

	tssCommon "github.com/binance-chain/tss-lib/common"
	"github.com/rs/zerolog"

	"github.com/ChainSafe/sygma-relayer/tss/ecdsa/common"
)

// VerifProcessEnd runs the real processEndMessage of a Signing whose coordinator flag is
// `coordinator`, hands it `sig` on the end channel and returns what it put on the result channel
// (any = something arrived, possibly a nil).
func VerifProcessEnd(coordinator bool, sig tssCommon.SignatureData) (got interface{}, any bool) {
	res := make(chan interface{}, 4)
	s := &Signing{
		BaseTss:     common.BaseTss{Log: zerolog.Nop(), Cancel: func() {}},
		coordinator: coordinator,
		resultChn:   res,
	}
	end := make(chan tssCommon.SignatureData)
	ctx, cancel := context.WithCancel(context.Background())
	defer cancel()
	done := make(chan error, 1)
	go func() { done <- s.processEndMessage(ctx, end) }()
	select {
	case end <- sig:
	case <-time.After(20 * time.Second):
		return nil, false
	}
	select {
	case <-done:
	case <-time.After(20 * time.Second):
		return nil, false
	}
	select {
	case v := <-res:
		return v, true
	default:
		return nil, false
	}
}
