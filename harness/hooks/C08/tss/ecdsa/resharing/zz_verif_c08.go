//go:build verif

// Add-only verification hook (never part of a normal build): lets the C08 runner drive the
// unexported sortParties and unmarshallStartParams/validateStartParams of the ECDSA resharing.
package resharing

import (
	"encoding/json"

	"github.com/binance-chain/tss-lib/tss"
	"github.com/libp2p/go-libp2p/core/host"
	"github.com/libp2p/go-libp2p/core/peer"

	"github.com/ChainSafe/sygma-relayer/keyshare"
	"github.com/ChainSafe/sygma-relayer/tss/ecdsa/common"
)

// VerifSortParties = the real sortParties on the key-sorted party lists built the way Run builds them.
func VerifSortParties(peers, old []peer.ID) (out tss.SortedPartyIDs, panicked bool) {
	defer func() {
		if r := recover(); r != nil {
			out, panicked = nil, true
		}
	}()
	r := &Resharing{}
	return r.sortParties(common.PartiesFromPeers(peers), common.PartiesFromPeers(old)), false
}

// VerifStartParams = the real unmarshallStartParams (JSON decoding + validateStartParams) of a
// process whose host is h and whose stored key share lists keyPeers as its committee.
func VerifStartParams(h host.Host, keyPeers []peer.ID, oldThreshold int, oldSubset []peer.ID) error {
	b, err := json.Marshal(&startParams{OldThreshold: oldThreshold, OldSubset: oldSubset})
	if err != nil {
		return err
	}
	r := &Resharing{
		BaseTss: common.BaseTss{Host: h},
		key:     keyshare.ECDSAKeyshare{Peers: append([]peer.ID(nil), keyPeers...)},
	}
	_, err = r.unmarshallStartParams(b)
	return err
}

// VerifValidCoordinators = the real ValidCoordinators of a resharing process whose host is h and whose
// stored key share lists keyPeers as its committee (empty: a relayer that is only joining).
func VerifValidCoordinators(h host.Host, keyPeers []peer.ID) []peer.ID {
	r := &Resharing{
		BaseTss: common.BaseTss{Host: h},
		key:     keyshare.ECDSAKeyshare{Peers: append([]peer.ID(nil), keyPeers...)},
	}
	return r.ValidCoordinators()
}
