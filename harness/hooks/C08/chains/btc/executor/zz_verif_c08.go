//go:build verif

// Add-only verification hook (injected by build overlay; /repo is not modified).
// Thin exported wrapper around the unexported watchExecution of the BTC executor: the code between
// the signing results and the broadcast of the transaction.
package executor

import (
	"context"
	"time"

	"github.com/ChainSafe/sygma-relayer/chains/btc/connection"
	"github.com/ChainSafe/sygma-relayer/comm"
	"github.com/btcsuite/btcd/wire"
	"github.com/libp2p/go-libp2p/core/host"
)

// VerifWatchExecution runs the real watchExecution of an executor that knows nothing but its node
// connection, host and communication (no proposals are attached: the proposal store is not touched).
func VerifWatchExecution(
	ctx context.Context,
	cancelExecution context.CancelFunc,
	conn *connection.Connection,
	h host.Host,
	c comm.Communication,
	tx *wire.MsgTx,
	sigChn chan interface{},
	sessionID string,
	messageID string,
) error {
	e := &Executor{conn: conn, host: h, comm: c}
	return e.watchExecution(ctx, cancelExecution, tx, []*BtcTransferProposal{}, sigChn, sessionID, messageID)
}

// VerifSetSigningTimeout bounds how long watchExecution waits for the signatures (default 30 min);
// the runner uses it so that the relayers that are not selected as signers do not linger.
func VerifSetSigningTimeout(d time.Duration) { signingTimeout = d }
