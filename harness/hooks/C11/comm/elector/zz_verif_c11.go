//go:build verif

// Add-only verification hook for C11 (injected by the build overlay, never part of /repo).
// The stock factory hard-wires a libp2p stream transport for the bully election; this constructor
// builds the same factory over an arbitrary comm.Communication so that the runner can record whom
// the election addresses and script the answers.
package elector

import (
	"github.com/ChainSafe/sygma-relayer/comm"
	"github.com/ChainSafe/sygma-relayer/config/relayer"
	"github.com/libp2p/go-libp2p/core/host"
)

func NewCoordinatorElectorFactoryWithComm(h host.Host, c comm.Communication, config relayer.BullyConfig) *CoordinatorElectorFactory {
	return &CoordinatorElectorFactory{h: h, comm: c, config: config}
}
