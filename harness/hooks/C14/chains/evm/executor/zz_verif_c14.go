//go:build verif

// Add-only verification hook (injected by the build overlay, never part of /repo): thin exported
// wrappers around the unexported batching step and batch submission of the EVM executor.
package executor

import (
	"github.com/binance-chain/tss-lib/common"
	ethCommon "github.com/ethereum/go-ethereum/common"
	"github.com/sygmaprotocol/sygma-core/relayer/proposal"

	"github.com/ChainSafe/sygma-relayer/relayer/transfer"
)

func (e *Executor) VerifProposalBatches(proposals []*proposal.Proposal) ([]*Batch, error) {
	return e.proposalBatches(proposals)
}

func VerifBatchView(b *Batch) ([]*transfer.TransferProposal, uint64) {
	return b.proposals, b.gasLimit
}

func (e *Executor) VerifExecuteBatch(b *Batch, sig *common.SignatureData) (*ethCommon.Hash, error) {
	return e.executeBatch(b, sig)
}
