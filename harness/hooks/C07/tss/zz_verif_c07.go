//go:build verif

// Add-only verification hook for C07 (injected by the build overlay, never part of /repo).
// Execute always starts the first attempt with an empty excluded list; a non-empty one only
// arises in the retry path.  The hook exposes the unexported start (= initiate on the coordinator,
// waitForStart elsewhere) so that the ready loop can be driven with an arbitrary excluded list.
package tss

import (
	"context"

	"github.com/libp2p/go-libp2p/core/peer"
)

func (c *Coordinator) VerifStart(ctx context.Context, tssProcesses []TssProcess, coordinator peer.ID, resultChn chan interface{}, excludedPeers []peer.ID) error {
	return c.start(ctx, tssProcesses, coordinator, resultChn, excludedPeers)
}
