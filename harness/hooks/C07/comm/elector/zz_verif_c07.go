//go:build verif

// Add-only verification hook for C07 (injected by the build overlay, never part of /repo).
// The retry path of tss.Coordinator elects the new coordinator with the bully elector, whose stock
// factory hard-wires a libp2p stream transport; this constructor builds the same factory over an
// arbitrary comm.Communication so that the runner can script the election's outcome.
package elector

import (
	"github.com/ChainSafe/sygma-relayer/comm"
	"github.com/ChainSafe/sygma-relayer/config/relayer"
	"github.com/libp2p/go-libp2p/core/host"
)

func NewCoordinatorElectorFactoryWithComm(h host.Host, c comm.Communication, config relayer.BullyConfig) *CoordinatorElectorFactory {
	return &CoordinatorElectorFactory{h: h, comm: c, config: config}
}
