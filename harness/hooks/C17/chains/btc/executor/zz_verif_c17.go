//go:build verif

// Add-only verification hook (injected by build overlay; /repo is not modified).
// Thin exported wrappers around the unexported status bookkeeping of the BTC executor.
package executor

import (
	"time"

	"github.com/ChainSafe/sygma-relayer/store"
	"github.com/sygmaprotocol/sygma-core/relayer/proposal"
)

// VerifProposalsForExecution calls the real proposalsForExecution.
func (e *Executor) VerifProposalsForExecution(proposals []*proposal.Proposal, messageID string) ([]*BtcTransferProposal, error) {
	return e.proposalsForExecution(proposals, messageID)
}

// VerifStoreProposalsStatus calls the real storeProposalsStatus (what watchExecution does after
// the broadcast succeeded / failed).
func (e *Executor) VerifStoreProposalsStatus(props []*BtcTransferProposal, status store.PropStatus) {
	e.storeProposalsStatus(props, status)
}

// VerifPropMutexHeld reports whether propMutex is currently held (observation only: a successful
// TryLock is released at once).
func (e *Executor) VerifPropMutexHeld() bool {
	if e.propMutex.TryLock() {
		e.propMutex.Unlock()
		return false
	}
	return true
}

// VerifSetSigningTimeout sets how long watchExecution waits for the signatures (default 30 min) and
// returns the previous value: the runner's executions whose signing fails end after this time, as the
// real ones do after half an hour.
func VerifSetSigningTimeout(d time.Duration) time.Duration {
	old := signingTimeout
	signingTimeout = d
	return old
}
