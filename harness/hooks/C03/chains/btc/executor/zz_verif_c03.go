//go:build verif

// Add-only verification hook (injected by the build overlay, never part of /repo): thin exported
// wrappers around the unexported selection and status-recording steps of the BTC executor.
package executor

import (
	"github.com/sygmaprotocol/sygma-core/relayer/proposal"

	"github.com/ChainSafe/sygma-relayer/store"
)

func (e *Executor) VerifProposalsForExecution(proposals []*proposal.Proposal, messageID string) ([]*BtcTransferProposal, error) {
	return e.proposalsForExecution(proposals, messageID)
}

func (e *Executor) VerifStoreProposalsStatus(props []*BtcTransferProposal, status store.PropStatus) {
	e.storeProposalsStatus(props, status)
}
