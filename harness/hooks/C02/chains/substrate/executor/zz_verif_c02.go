//go:build verif

// Add-only verification hook for C02 (injected by the build overlay, never part of /repo): runs the
// real, unexported executeProposal - the place where the 65 signature bytes are assembled -
// against a caller-supplied pallet; shortens the two package-level periods of watchExecution so that
// the real Execute returns soon after the runner has marked a delivery as executed.
package executor

import (
	"time"

	"github.com/binance-chain/tss-lib/common"
	"github.com/centrifuge/go-substrate-rpc-client/v4/rpc/author"
	"github.com/centrifuge/go-substrate-rpc-client/v4/types"

	"github.com/ChainSafe/sygma-relayer/relayer/transfer"
)

func VerifC02ExecuteProposal(bridge BridgePallet, props []*transfer.TransferProposal, sig *common.SignatureData) (types.Hash, *author.ExtrinsicStatusSubscription, error) {
	e := &Executor{bridge: bridge}
	return e.executeProposal(props, sig)
}

// VerifC02SetPeriods sets executionCheckPeriod and signingTimeout and returns the old values.
func VerifC02SetPeriods(check, timeout time.Duration) (time.Duration, time.Duration) {
	oc, ot := executionCheckPeriod, signingTimeout
	executionCheckPeriod, signingTimeout = check, timeout
	return oc, ot
}
