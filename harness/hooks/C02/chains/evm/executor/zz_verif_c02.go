//go:build verif

// Add-only verification hook for C02 (injected by the build overlay, never part of /repo): runs the
// real, unexported executeBatch - the place where the 65 signature bytes are assembled - against a
// caller-supplied bridge.
package executor

import (
	"github.com/binance-chain/tss-lib/common"
	ethCommon "github.com/ethereum/go-ethereum/common"

	"github.com/ChainSafe/sygma-relayer/relayer/transfer"
)

func VerifC02ExecuteBatch(bridge BridgeContract, props []*transfer.TransferProposal, gasLimit uint64, sig *common.SignatureData) (*ethCommon.Hash, error) {
	e := &Executor{bridge: bridge}
	return e.executeBatch(&Batch{proposals: props, gasLimit: gasLimit}, sig)
}
