//go:build verif

// Add-only verification hook for C02 (injected by the build overlay, never part of /repo): runs the
// real, unexported executeBatch - the place where the 65 signature bytes are assembled - against a
// caller-supplied bridge; reads the batch list of the real proposalBatches; shortens the two
// package-level periods of watchExecution so that the real Execute returns soon after the runner has
// marked a delivery as executed.
package executor

import (
	"time"

	"github.com/binance-chain/tss-lib/common"
	ethCommon "github.com/ethereum/go-ethereum/common"
	"github.com/sygmaprotocol/sygma-core/relayer/proposal"

	"github.com/ChainSafe/sygma-relayer/relayer/transfer"
)

func VerifC02ExecuteBatch(bridge BridgeContract, props []*transfer.TransferProposal, gasLimit uint64, sig *common.SignatureData) (*ethCommon.Hash, error) {
	e := &Executor{bridge: bridge}
	return e.executeBatch(&Batch{proposals: props, gasLimit: gasLimit}, sig)
}

// VerifC02Batches: the member lists of the batches the real proposalBatches builds (position =
// index = the <i> of the signing session id <messageID>-<i>).
func (e *Executor) VerifC02Batches(proposals []*proposal.Proposal) ([][]*transfer.TransferProposal, error) {
	bs, err := e.proposalBatches(proposals)
	if err != nil {
		return nil, err
	}
	out := make([][]*transfer.TransferProposal, len(bs))
	for i, b := range bs {
		out[i] = b.proposals
	}
	return out, nil
}

// VerifC02SetPeriods sets executionCheckPeriod and signingTimeout and returns the old values.
func VerifC02SetPeriods(check, timeout time.Duration) (time.Duration, time.Duration) {
	oc, ot := executionCheckPeriod, signingTimeout
	executionCheckPeriod, signingTimeout = check, timeout
	return oc, ot
}
