//go:build verif

// Add-only verification hook (injected by build overlay; /repo is not modified).
// Thin exported wrappers around the unexported transaction builder of the BTC executor.
package executor

import (
	"github.com/ChainSafe/sygma-relayer/chains/btc/config"
	"github.com/ChainSafe/sygma-relayer/chains/btc/mempool"
	"github.com/btcsuite/btcd/wire"
	"github.com/sygmaprotocol/sygma-core/relayer/proposal"
)

// VerifRawTx calls the real rawTx (outputs + fee + inputs + change).
func (e *Executor) VerifRawTx(props []*BtcTransferProposal, resource config.Resource) (*wire.MsgTx, []mempool.Utxo, error) {
	return e.rawTx(props, resource)
}

// VerifFee calls the real fee quote.
func (e *Executor) VerifFee(numOfInputs, numOfOutputs uint64) (uint64, error) {
	return e.fee(numOfInputs, numOfOutputs)
}

// VerifProposalsForExecution calls the real proposalsForExecution: which proposals of a delivery the
// Executor selects for execution (and marks pending in its store).
func (e *Executor) VerifProposalsForExecution(proposals []*proposal.Proposal, messageID string) ([]*BtcTransferProposal, error) {
	return e.proposalsForExecution(proposals, messageID)
}
